"""C04 - cash flow, NPV, IRR, VIR, MOIC and payback are mutually consistent."""
import re
from fractions import Fraction as F

from lib import configs, econ, framework as fw, qconv, runner

TOL = F(1, 10 ** 9)
TOL_IRR = F(1, 10 ** 6)

META = {
    'props': 'Props/C04.v',
    'claimed': True,
    'level_text': (
        'Proof: for every lifetime, number of construction years, price / energy series and product mix the modelled cash flow is '
        '-CCap/cy in each construction year and (sum of product revenues energy*price/1e6 [+ carbon revenue] - Coam) in each '
        'operating year; the cumulative series is its running sum; a positive payback period lies in the year in which the cumulative '
        'series turns from non-positive to positive (when CCap >= 0) and is 0 (printed N/A) when there is no such year; NPV in Horner '
        'form equals the discounted sum, the two discounting conventions differ by the factor (1+r) and hence have the same roots; VIR '
        'and MOIC are the stated ratios (Coq theorems by list induction, axiom-free). The model is tied to the current '
        'Economics.Calculate / CalculateFinancialPerformance by whole runs over every economic model x end-use x plant cell: each '
        'reported series and metric is recomputed by the Coq model inside the kernel from the run\'s own energy, price and cost data '
        'and compared with 1e-9 relative tolerance; decisions (payback crossing) are taken on the implementation\'s own series. '
        'A conventional series (non-positive years followed by non-negative years) is proved to have at most one IRR above '
        '-100 % (C04_irr_unique), so the reported IRR, which is checked on every run to zero the modelled NPV, is then the rate the '
        'series implies; for other series only the root property is checked (numpy_financial.irr root selection is not modelled).'),
    'level_note': (
        'Trusted: Coq kernel + vm_compute; Python harness (runs GEOPHIRES through main() with the guarded hook, converts floats to '
        'rationals - 15 significant digits for values feeding no decision, exactly for the cumulative series); float rounding of the '
        'implementation is covered only by the 1e-9 comparison; numpy_financial.irr root selection is not modelled.'),
    'rule': (
        'whole runs: every (economic model x end-use x plant type) cell once plus random configurations (carbon pricing, PTC, '
        'escalation, add-ons, construction years 1..14, lifetimes 1..35 quick / ..100 thorough) and the runnable examples; direct '
        'calls of calculate_npv on random series with both conventions. A run is non-trivial when it has at least 2 operating years and '
        'non-zero revenue; distinct = distinct (model, end-use, plant, lifetime, construction years, carbon, discount convention, '
        'payback>0) signatures'),
    'trusted_base': ['Coq 8.16.1 kernel + vm_compute (no native_compute)',
                     'all C04 theorems: Closed under the global context (no axioms)',
                     'hand-written model coq/Model/CashFlow.v tied to Economics.py by kernel-evaluated correspondence on hook '
                     'snapshots of whole runs (tools/props/C04.py, tools/lib/econ.py, runner.py, snapshot.py: unverified Python)'],
    'modelled': ['Economics.CalculateRevenue', 'Economics.CalculateCarbonRevenue', 'cash-flow assembly in Economics.Calculate',
                 'payback loop in Economics.Calculate', 'Economics.calculate_npv / numpy_financial.npv',
                 'Economics.CalculateFinancialPerformance (VIR, MOIC)', 'EconomicsAddOns project cash flow (thorough tier)'],
    'assumptions': ['numpy_financial.irr is an oracle: its result is only checked to zero the modelled NPV',
                    'IEEE rounding of the implementation is not modelled (rational model, 1e-9 relative comparison)'],
    'fingerprint': [('src/geophires_x/Economics.py', 'CalculateRevenue'), ('src/geophires_x/Economics.py', 'CalculateCarbonRevenue'),
                    ('src/geophires_x/Economics.py', 'CalculateFinancialPerformance'), ('src/geophires_x/Economics.py', 'calculate_npv'),
                    ('src/geophires_x/Economics.py', 'Economics.Calculate')],
}

REQ = ['Model.CashFlow']


def gen_inputs(ctx):
    rnd = ctx.rng
    cfgs = configs.grid(ctx, 0)
    extra = ctx.n(50, 900)
    for _ in range(extra):
        eu = rnd.choice(configs.ENDUSES)
        pl = rnd.choice(configs.ELEC_PLANTS if eu != 2 else [5, 6, 9, 9])
        life = rnd.choice([1, 2, 3, 4, 7, 12, 20, 30, 35] + ([] if ctx.quick else [50, 75, 100]))
        cy = rnd.choice([1, 1, 2, 3, 4, 5, 7, 10, 14])
        cfgs.append(configs.synthetic(rnd, enduse=eu, plant=pl, life=life, cy=cy))
    for _ in range(ctx.n(12, 300)):   # add-on runs (the add-on report writer needs exactly one construction year)
        eu = rnd.choice(configs.ENDUSES)
        cfgs.append(configs.synthetic(rnd, enduse=eu, plant=rnd.choice(configs.ELEC_PLANTS if eu != 2 else [9, 6]), cy=rnd.choice([1, 1, 2, 3]), addons=True, addons_any_cy=True))
    texts = [('synthetic', runner.params_to_text(c)) for c in cfgs]
    texts += [('example:' + n, t) for n, t in configs.example_texts(slow=not ctx.quick)]
    return texts


def cf_term(R):
    """Coq record literal for the run's cash-flow inputs + the reported series -> list of (stage, term)."""
    e, s = R.e, R.sp
    cy, life = R.cy, R.life
    ql = econ.qlist15
    strip = lambda l: l[cy:]   # price series are zero-padded for the construction years after the cash flow is built
    rec = ('{| ci_kind := %s; ci_cy := %d%%nat; ci_ccap := %s; ci_coam := %s; ci_carbon := %s; ci_gi := %s; ci_ni := %s;\n'
           '   ci_eE := %s; ci_eH := %s; ci_eC := %s;\n   ci_pE := %s; ci_pH := %s; ci_pC := %s; ci_pCarb := %s |}') % (
        R.kind, cy, econ.q15(e('CCap')), econ.q15(e('Coam')), qconv.blit(bool(e('DoCarbonCalculations'))),
        econ.q15(e('GridCO2Intensity')), econ.q15(e('NaturalGasCO2Intensity')),
        ql(R.series('surfaceplant', 'NetkWhProduced')), ql(R.series('surfaceplant', 'HeatkWhProduced')),
        ql(R.series('surfaceplant', 'cooling_kWh_Produced')),
        ql(strip(e('ElecPrice'))), ql(strip(e('HeatPrice'))), ql(strip(e('CoolingPrice'))), ql(strip(e('CarbonPrice'))))
    tol = qconv.q(TOL)
    tot, cum = e('TotalRevenue'), e('TotalCummRevenue')
    terms = [('cashflow', f'cf_agree {tol} {rec} {life}%nat {ql(e("ElecRevenue"))} {ql(e("HeatRevenue"))} '
                          f'{ql(e("CoolingRevenue"))} {ql(e("CarbonRevenue"))} {ql(tot)} {ql(cum)}')]
    terms.append(('cumulative', f'cum_agree {tol} {econ.qlistx(tot)} {econ.qlistx(cum)}'))
    terms.append(('payback', f'payback_agree {tol} {econ.qlistx(cum)} {econ.qx(e("ProjectPaybackPeriod"))}'))
    terms.append(('metrics', 'metrics_agree %s %s %s %s %s %d%%nat %s %s %s %s %s' % (
        tol, econ.q15(e('FixedInternalRate')), qconv.blit(bool(e('discount_initial_year_cashflow'))), econ.q15(e('CCap')),
        econ.q15(e('Coam')), life, ql(tot), ql(cum), econ.q15(e('ProjectNPV')), econ.q15(e('ProjectVIR')), econ.q15(e('ProjectMOIC')))))
    irr = e('ProjectIRR')
    if irr != 0:
        terms.append(('irr-root', f'irr_is_root {qconv.q(TOL_IRR)} {econ.q15(irr)} {ql(tot)}'))
    return terms


def addon_terms(R):
    """EconomicsAddOns: add-on and project cash flow, cumulative series, NPV / VIR / MOIC (and IRR root) of an add-on run."""
    s = R.s
    A = lambda n: s.v('addeconomics', n)
    e = R.e
    cy, life = R.cy, R.life
    ql, q = econ.qlist15, econ.q15
    kind = 'KElec' if R.enduse == 1 else ('KHeat' if R.enduse == 2 else 'KCogen')
    fit = lambda l: l if len(l) == life else [0.0] * life   # a series the end-use does not produce is a one-element placeholder
    rec = ('{| a_kind := %s; a_cy := %d%%nat; a_ccap := %s; a_coam := %s; a_capex := %s; a_opex := %s; a_egain := %s; a_hgain := %s; '
           'a_profit := %s;\n a_net := %s; a_heat := %s; a_pE := %s; a_pH := %s |}') % (
        kind, cy, q(e('CCap')), q(e('Coam')), q(A('AddOnCAPEXTotal')), q(A('AddOnOPEXTotalPerYear')), q(A('AddOnElecGainedTotalPerYear')),
        q(A('AddOnHeatGainedTotalPerYear')), q(A('AddOnProfitGainedTotalPerYear')),
        ql(fit(R.series('surfaceplant', 'NetkWhProduced'))), ql(fit(R.series('surfaceplant', 'HeatkWhProduced'))),
        ql(e('ElecPrice')[cy:]), ql(e('HeatPrice')[cy:]))
    tol = qconv.q(TOL)
    pcf = A('ProjectCashFlow')
    terms = [('addon-cashflow', 'addon_agree %s %s %d%%nat %s %s %s %s %s %s %s %s %s %s %s %s %s %s' % (
        tol, rec, life, q(A('FixedInternalRate')), qconv.blit(bool(A('discount_initial_year_cashflow'))),
        ql(A('AddOnElecRevenue')), ql(A('AddOnHeatRevenue')), ql(A('AddOnRevenue')), ql(A('AddOnCashFlow')), ql(pcf),
        ql(A('AddOnCummCashFlow')), ql(A('ProjectCummCashFlow')), q(A('ProjectNPV')), q(A('ProjectVIR')), q(A('ProjectMOIC')),
        q(A('AdjustedProjectCAPEX')), q(A('AdjustedProjectOPEX'))))]
    terms.append(('addon-payback', f'close {tol} (addon_payback 0 {econ.qlistx(A("AddOnCummCashFlow"))}) {econ.qx(A("AddOnPaybackPeriod"))}'))
    irr = A('ProjectIRR')
    if irr != 0:
        terms.append(('addon-irr-root', f'irr_is_root {qconv.q(TOL_IRR)} {q(irr * 100)} {ql(pcf)}'))
    return terms


def report_payback(report):
    m = re.search(r'^\s*Project Payback Period:\s*(.*)$', report or '', re.M)
    return m.group(1).strip() if m else None


def run_inputs(ctx, texts):
    results = runner.run_many(ctx, [t for _, t in texts])
    terms, owners = [], []
    rejected = 0
    for (origin, text), r in zip(texts, results):
        if r['snap'] is None:      # (a run whose report writer fails after Calculate still has its post-Calculate snapshot)
            rejected += 1
            ctx.count('whole-runs', rejected={(r['error'] or 'no snapshot')[:60]: 1})
            continue
        R = econ.Run(r['snap'])
        if R.cls not in ('Economics', 'SBTEconomics') or R.sdac:
            continue
        e = R.e
        series = [e('TotalRevenue'), e('TotalCummRevenue'), e('ElecRevenue'), e('HeatRevenue'), e('CoolingRevenue'),
                  e('CarbonRevenue'), R.series('surfaceplant', 'NetkWhProduced'), R.series('surfaceplant', 'HeatkWhProduced')]
        if not econ.finite(*series, e('ProjectNPV'), e('ProjectVIR'), e('ProjectMOIC'), e('ProjectIRR'), e('CCap'), e('Coam')):
            ctx.count('whole-runs', rejected={'non-finite economics (degenerate plant)': 1})
            continue
        pb = e('ProjectPaybackPeriod')
        sig = (R.econ, R.enduse, R.plant, R.life, R.cy, bool(e('DoCarbonCalculations')), bool(e('discount_initial_year_cashflow')), pb > 0)
        nontrivial = R.life >= 2 and any(x != 0 for x in e('TotalRevenue')[R.cy:])
        desc = {'origin': origin, 'econ': R.econ, 'enduse': R.enduse, 'plant': R.plant, 'life': R.life, 'cy': R.cy,
                'carbon': bool(e('DoCarbonCalculations')), 'payback': pb}
        stage_terms = cf_term(R)
        if R.addons and r['snap'].get('addeconomics'):
            try:
                stage_terms += addon_terms(R)
            except (KeyError, TypeError) as ex:
                ctx.note(f'add-on fields not readable: {ex!r}')
        for stage, term in stage_terms:
            terms.append(term)
            owners.append((stage, desc, text, (sig + (R.addons,)) if nontrivial else None))
        # N/A display of a payback that never happens (report text)
        shown = report_payback(r['report'])
        if shown is not None:
            ok = (shown == 'N/A') == (not pb > 0)
            ctx.count('payback-display', evaluations=1, nontrivial_keys=[('na', pb > 0)])
            if not ok:
                ctx.violate('property', f'payback-display:{R.econ}:{R.enduse}', f'payback {pb} is displayed as {shown!r}',
                            inp={'input_text': text, 'desc': desc}, observed=shown, expected='N/A iff payback == 0')
        tot_ = e('TotalRevenue')
        conventional = all(x <= 0 for x in tot_[:R.cy]) and any(x < 0 for x in tot_[:R.cy]) and all(x >= 0 for x in tot_[R.cy:])
        ctx.count('whole-runs', econ=R.econ, enduse=R.enduse, plant=R.plant, life=R.life, cy=R.cy, addons=R.addons,
                  irr_unique_by_C04_irr_unique=conventional and e('ProjectIRR') != 0)
        ctx.sample('whole-runs', desc)
    failing = fw.kernel_bools(ctx, 'cashflow', REQ, terms, shard=ctx.n(120, 40))
    ctx.count('whole-runs', evaluations=len(terms), nontrivial_keys=[tuple(o[3]) + (o[0],) for o in owners if o[3] is not None])
    for i in failing[:8]:
        stage, desc, text, _ = owners[i]
        ctx.violate('property', f'{stage}:econ={desc["econ"]},enduse={desc["enduse"]},plant={desc["plant"]}',
                    f'reported {stage} series/metrics differ from the documented definition (Coq model CashFlow.v) on {desc}',
                    inp={'input_text': text, 'desc': desc, 'stage': stage}, expected='value of the Coq model (see replay)')
    if len(failing) > 8:
        ctx.note(f'{len(failing)} failing stage checks, first 8 reported')
    return failing


def npv_direct(ctx):
    import geophires_x.Model  # noqa: F401
    from geophires_x import Economics
    rnd = ctx.rng
    terms, descs = [], []
    for _ in range(ctx.n(150, 3000)):
        n = rnd.choice([1, 2, 3, 5, 8, 15, 30] + ([] if ctx.quick else [60, 114]))
        rate = F(rnd.randint(-200, 400), 1000) if rnd.random() < 0.9 else F(0)
        cf = [F(rnd.randint(-50000, 90000), 100) for _ in range(n)]
        disc = rnd.random() < 0.5
        v = Economics.calculate_npv(float(rate), [float(x) for x in cf], disc)
        sc = sum(abs(x) for x in cf) + 1
        terms.append(f'close_scale {qconv.q(TOL)} {qconv.q(sc)} (calculate_npv {qconv.q(rate)} {qconv.qlist(cf)} {qconv.blit(disc)}) {econ.q15(v)}')
        descs.append({'rate': str(rate), 'n': n, 'discount_initial': disc, 'cf': [str(x) for x in cf[:6]]})
    failing = fw.kernel_bools(ctx, 'npv_direct', REQ, terms)
    ctx.count('calculate_npv-direct', evaluations=len(terms), nontrivial_keys=[(d['n'], d['discount_initial'], d['rate']) for d in descs if d['n'] > 1])
    ctx.sample('calculate_npv-direct', descs[0])
    for i in failing[:3]:
        ctx.violate('property', f'npv:{descs[i]["discount_initial"]}', f'calculate_npv differs from the discounted sum on {descs[i]}',
                    inp={'npv_case': descs[i]})


def correspondence(ctx, proofs_ok=True):
    npv_direct(ctx)
    run_inputs(ctx, gen_inputs(ctx))


def replay(ctx, data):
    inp = data['input']
    if 'input_text' not in inp:
        print('direct calculate_npv case:', inp)
        npv_direct(ctx)
        return 1 if ctx.violations else 0
    failing = run_inputs(ctx, [('replay', inp['input_text'])])
    for v in ctx.violations:
        print(v.kind, v.key, v.what[:300])
    print('property', 'VIOLATED' if ctx.violations else 'holds', 'on this input')
    return 1 if ctx.violations else 0
