"""C17 - heat-in-place assessment (HIP-RA-X) adds up and scales with reservoir size."""
from fractions import Fraction as F

from gen import hip_tables
from lib import flatcorr, framework as fw, hiprun, qconv

META = {
    'props': 'Props/C17.v',
    'claimed': True,
    'level_text': ('Proof (partial on two clauses): for ALL inputs and ALL water-property functions the Coq model of HIP_RA_X.Calculate '
                   'satisfies: rock / recoverable-fluid volume are (1-por/100) and (por/100)*factor of area*thickness; stored heat = rock + '
                   'fluid part (closed forms of both); multiplying area (resp. thickness) by any k<>0 multiplies every extensive result by k '
                   'and leaves per-area/per-volume/percentage (resp. per-volume/percentage) results and the error status unchanged; '
                   'RecoverableHeat in [0.427,0.66], the regenerated UtilEff table in [0,1], so producible <= available and electric energy '
                   '<= available; an input written in any unit of the regenerated unit table gives identical results. REFUTED and restated: '
                   'available <= stored fails for in-range Tres < Trej (C17_cascade_refuted; proved for Tres > Trej with the thermodynamic '
                   'sign hypotheses, C17_cascade_partial); the published mass triple is not additive because the fluid mass is overwritten '
                   'by the produced mass (C17_mass_additivity_refuted; additive iff the rock heat is 0, C17_mass_additivity_partial). '
                   'Report and client (string model over Model/Fmt): every SUMMARY line renders label, value in its 10.2f / 10.2e / x100 '
                   'format and unit, and HipRaResult parses it back to exactly that label, printed value and unit, for every value and every '
                   'label/unit regenerated from the source (C17_report_line_parses, C17_report_states_results/_inputs). main() swallowing an '
                   'exception of Calculate is modelled (published): porosity 100, area 0, T > 600 C raise (proved), and what is then '
                   'printed still satisfies the volume, additivity and cascade clauses (C17_partial_report_*): the partial report is '
                   'outside the property (zeros without an error status violate no clause of C17). Legacy hip_ra: the shared part of the '
                   'method (volume, fluid mass, heat of the volume, exergy) is tied to the same model, the rest documented as different.'),
    'level_note': ('Trusted: Coq kernel + vm_compute; the Python harness; CoolProp, pint, scipy.interp1d / numpy.interp are oracles (values read '
                   'from the run / tables regenerated from the live registry); float rounding is outside the theorems (1e-9, exact for x2 '
                   'scalings); Python re and float() are modelled for the shapes a report contains (one line at a time; [-]d+[.d*] and '
                   'd[.ddd]e+-dd tokens) and tied to HipRaResult on every report. Reader defects that make listed units unusable are findings.'),
    'technique': 'Coq proof about an executable Gallina model + kernel-evaluated correspondence with the implementation',
    'rule': ('in-range HIP-RA-X configurations drawn from one PRNG (temperatures incl. knots/thresholds of the efficiency tables, Tres<Trej, '
             'Tres=Trej, >600 C; porosity/area/thickness incl. boundaries 0 and 100; optional density, heat capacity, depth, pressure, recovery '
             'factors), each run through the real read_parameters/Calculate/PrintOutputs/HipRaResult; the model is evaluated by vm_compute on '
             'the values Calculate started from and the CoolProp values it obtained, compared in Coq at 1e-9 (results, or the partially '
             'assigned outputs after an exception); both report sections are compared character for character with the string model and the '
             'client parse with the model parser; scaling pairs (x2 exact, xk) and unit variants (every row of the regenerated unit table) '
             'are run on the real code and judged by Coq checkers; legacy hip_ra runs against the common part; non-trivial = distinct branch '
             'signature (derived/provided depth, pressure, density, heat capacity; RecoverableHeat branch; UtilEff segment; error site)'),
    'trusted_base': ['Coq 8.16.1 kernel + vm_compute (no native_compute)',
                     'all C17 theorems: Closed under the global context (no axioms)',
                     'hand-written models coq/Model/HipRa.v, coq/Model/HipReport.v (number formatting: coq/Model/Fmt.v of C09) tied to '
                     'hip_ra_x.HIP_RA_X.Calculate/PrintOutputs, hip_ra_x.main, hip_ra.HipRaResult, GeoPHIRESUtils.RecoverableHeat/UtilEff_func '
                     'by correspondence evaluated in the kernel (tools/props/C17.py, tools/lib/hiprun.py, tools/gen/hip_tables.py: unverified Python)',
                     'coq/Gen/HipTables.v regenerated from GeoPHIRESUtils._T/_UtilEff, Units.py, the live pint registry and the live parameter '
                     'names/units on every run'],
    'modelled': ['CoolProp water density / heat capacity / enthalpy / entropy (arbitrary functions in the theorems, run values in the tie)',
                 'pint unit conversion (affine map regenerated from the live registry)', 'scipy interp1d (linear, searchsorted-left segment)',
                 'Python float ZeroDivisionError / ValueError as error codes; main() catching them and printing',
                 'CPython float formatting (Model/Fmt.v), re.findall of HipRaResult one line at a time, float() of report tokens'],
    'assumptions': ['floating-point rounding is not modelled (outputs compared at relative 1e-9; x2 scalings exactly)',
                    'C17_cascade_partial assumes of the water properties: h(Tres,P) > h(Trej,P), s(Tres,P) >= s(Trej,P), exergy >= 0, density >= 0 '
                    '(checked on every run as data)',
                    'an exception raised inside CoolProp itself (e.g. pressure 0) is a further error site that is not modelled (such runs are counted as rejected)',
                    'a 10.2e field is proved to parse back to the printed digits (sci_shown); that the printed digits are the value rounded to 3 '
                    'significant digits rests on Fmt.sig_round / ilog10 (C09) and on the character-for-character tie with the real report',
                    'legacy hip_ra: recovery factor (qWH/qR with qWH = m*(h - T_K)), available/producible heat and electricity use other formulas, '
                    'np.interp clamps instead of raising, the thresholds of its RecoverableHeat are strict, its UtilEff table stops at 373.946 C: '
                    'only volume, fluid mass, heat of the volume, exergy, the report lines and the two helpers away from their differences are tied'],
    'fingerprint': [('src/hip_ra_x/hip_ra_x.py', 'HIP_RA_X.Calculate'), ('src/hip_ra_x/hip_ra_x.py', 'HIP_RA_X.PrintOutputs'),
                    ('src/hip_ra_x/hip_ra_x.py', 'main'), ('src/hip_ra/__init__.py', 'HipRaResult._parse_fields'),
                    ('src/hip_ra/HIP_RA.py', 'HIP_RA.Calculate'),
                    ('src/geophires_x/GeoPHIRESUtils.py', 'RecoverableHeat'),
                    ('src/geophires_x/GeoPHIRESUtils.py', 'UtilEff_func'), ('src/geophires_x/GeoPHIRESUtils.py', 'static_pressure_MPa')],
}
GENERATORS = (hip_tables.gen_hip_tables,)

TOL = F(1, 10 ** 9)
REQ = ['Model.HipRa']
RREQ = ['Gen.HipTables', 'Model.Fmt', 'Model.HipRa', 'Model.HipReport']
ERRCODE = {'ZeroDivisionError': 2, 'ValueError': 3}
N = {a: i for i, a in enumerate(hiprun.IN_ATTRS)}
O = {a: i for i, a in enumerate(hiprun.OUT_ATTRS)}
CLAUSES = ['volume', 'vol_rock', 'vol_fluid', 'stored_sum', 'available<=stored', 'producible<=available']


def fx(h):
    return F(float.fromhex(h))


def text_of(cfg):
    return ''.join(f'{k}, {v}\n' for k, v in cfg.items())


# ------------------------------------------------------------------------------------------------
# configurations
# ------------------------------------------------------------------------------------------------

def gen_config(rnd, style='normal'):
    def dec(lo, hi, d=2):
        return f'{rnd.uniform(lo, hi):.{d}f}'

    def sci(lo, hi):
        return f'{rnd.uniform(lo, hi):.3e}'

    r = rnd.random()
    if style == 'edge':
        tres = rnd.choice(['90', '150', '100', '373.946', '600', '50', '90.01', '149.99', '160', '601', '1000', '120'])
    elif r < 0.72:
        tres = dec(50, 370, 1)
    elif r < 0.9:
        tres = dec(370, 600, 1)
    elif r < 0.95:
        tres = rnd.choice(['90', '150', '200', '373.946', '600', '50'])
    else:
        tres = dec(600.1, 1000, 1)
    t = float(tres)
    if style == 'inverted':
        tres = dec(50, 190, 1)
        trej = dec(float(tres) + 2, 200, 1)
    elif style == 'edge' and rnd.random() < 0.25 and t <= 200:
        trej = tres
    else:
        trej = dec(0.1, min(200.0, t - 2.0), 1)
    cfg = {'Reservoir Temperature': tres, 'Rejection Temperature': trej,
           'Reservoir Porosity': dec(0.5, 45), 'Reservoir Area': dec(0.5, 900), 'Reservoir Thickness': dec(0.01, 5, 3),
           'Reservoir Life Cycle': str(rnd.randint(1, 100))}
    if style == 'edge':
        which = rnd.choice(['por0', 'por100', 'area0', 'thick0', 'rff0', 'rrh0', 'none', 'none'])
        if which == 'por0':
            cfg['Reservoir Porosity'] = '0'
        elif which == 'por100':
            cfg['Reservoir Porosity'] = '100'
        elif which == 'area0':
            cfg['Reservoir Area'] = '0'
        elif which == 'thick0':
            cfg['Reservoir Thickness'] = '0'
        elif which == 'rff0':
            cfg['Recoverable Fluid Factor'] = '0'
        elif which == 'rrh0':
            cfg['Recoverable Heat from Rock'] = '0'
            if rnd.random() < 0.5:
                cfg['Reservoir Porosity'] = '0'
    opt = [('Rock Heat Capacity', 0.5, lambda: sci(5e11, 6e12)), ('Density Of Reservoir Rock', 0.5, lambda: sci(1.5e12, 3.5e12)),
           ('Recoverable Fluid Factor', 0.6, lambda: dec(0.05, 0.95)), ('Recoverable Heat from Rock', 0.6, lambda: dec(0.05, 0.95)),
           ('Fluid Specific Heat Capacity', 0.3, lambda: dec(3, 10)), ('Density Of Reservoir Fluid', 0.3, lambda: sci(7e11, 1.05e12)),
           ('Reservoir Depth', 0.3, lambda: dec(0.3, 10)), ('Reservoir Pressure', 0.3, lambda: dec(0.5, 120))]
    for name, p, g in opt:
        if name not in cfg and rnd.random() < p:
            cfg[name] = g()
    return cfg


# accepted values at and next to the ends of every declared range (and of the 0..1 % porosity region)
BOUNDARY = {'Reservoir Porosity': ['0', '0.01', '0.5', '0.99', '1', '99', '99.99', '100'],
            'Reservoir Area': ['0', '0.001', '0.5', '1', '9999.99', '10000'],
            'Reservoir Thickness': ['0', '0.001', '0.01', '1', '9999', '10000'],
            'Reservoir Temperature': ['50', '50.01', '599.99', '600', '999.9', '1000'],
            'Rejection Temperature': ['0.1', '0.11', '199.99', '200'],
            'Reservoir Life Cycle': ['1', '2', '99', '100'],
            'Rock Heat Capacity': ['0', '1', '1e3', '9.99e13', '1e14'],
            'Fluid Specific Heat Capacity': ['3', '3.01', '9.99', '10'],
            'Density Of Reservoir Fluid': ['1e11', '1.001e11', '9.99e12', '1e13'],
            'Density Of Reservoir Rock': ['1e11', '1.001e11', '9.99e12', '1e13'],
            'Recoverable Fluid Factor': ['0', '0.001', '0.01', '0.999', '1'],
            'Recoverable Heat from Rock': ['0', '0.001', '0.01', '0.999', '1'],
            'Reservoir Depth': ['0.001', '0.002', '14.99', '15'],
            'Reservoir Pressure': ['0.001', '0.5', '900', '10000']}


def configs(ctx, n):
    rnd, out = ctx.rng, []
    for k in range(n):
        style = 'inverted' if k % 12 == 5 else 'edge' if k % 12 in (7, 11) else 'boundary' if k % 12 in (3, 9) else 'normal'
        cfg = gen_config(rnd, 'normal' if style == 'boundary' else style)
        if style == 'boundary':       # one to three inputs at / next to an end of their accepted range; porosity every other time
            names = rnd.sample(sorted(BOUNDARY), rnd.randint(1, 3)) + (['Reservoir Porosity'] if (k // 12) % 2 == 0 else [])
            for name in names:
                cfg[name] = rnd.choice(BOUNDARY[name])
        out.append((style, cfg))
    return out


def stated(text):
    """the numbers the input file states (plain 'name, value' lines without a unit) as exact rationals"""
    out = {}
    for line in text.splitlines():
        parts = [x.strip() for x in line.split(',')]
        if len(parts) >= 2 and parts[0] in _IN_NAMES and ' ' not in parts[1]:
            try:
                out[parts[0]] = F(parts[1])
            except ValueError:
                pass
    return out


def corpus_cases():
    d = fw.VERIF / 'corpus' / 'C17'
    out = []
    for p in sorted(d.glob('*.txt')) if d.exists() else []:
        out.append(('corpus:' + p.name, p.read_text()))
    ex = fw.REPO / 'tests' / 'hip_ra_x_tests' / 'examples'
    for p in sorted(ex.glob('*.txt')) if ex.exists() else []:
        out.append(('example:' + p.name, p.read_text()))
    return out


# ------------------------------------------------------------------------------------------------
# one real run -> flat model inputs / implementation result
# ------------------------------------------------------------------------------------------------

def analyse(r):
    """-> dict(flat, impl, sig, skip) for a hiprun result."""
    if r.get('read_error'):
        return {'skip': 'read_error'}
    pre = [fx(h) for h in r['pre']]
    tres, trej = float(pre[N['reservoir_temperature']]), float(pre[N['rejection_temperature']])
    fdmin, fhcmin = fx(r['mins'][0]), fx(r['mins'][1])
    if any(c[4] for c in r['calls']):
        return {'skip': 'oracle_error'}
    try:
        pres = float.fromhex(r['outs'][O['reservoir_pressure']])
    except ValueError:
        return {'skip': 'nonfinite'}

    def look(name, T):
        for c in r['calls']:
            if c[0] == name and c[1] == T and c[2] == pres and c[3] is not None:
                return F(c[3])
        try:
            return F(hiprun.oracle_direct(name, T, pres))
        except Exception:
            return None

    dens_d = pre[N['fluid_density']] < fdmin
    cp_d = pre[N['fluid_heat_capacity']] < fhcmin
    dens = look('density_water_kg_per_m3', tres) if dens_d else F(0)
    cp = look('heat_capacity_water_J_per_kg_per_K', tres) if cp_d and 0 <= tres <= 600 else F(0)
    hs = [look('enthalpy_water_kJ_per_kg', tres), look('enthalpy_water_kJ_per_kg', trej),
          look('entropy_water_kJ_per_kg_per_K', tres), look('entropy_water_kJ_per_kg_per_K', trej)]
    if dens is None or cp is None or any(x is None for x in hs):
        return {'skip': 'oracle_error'}
    dg, pg = r['provided']['reservoir_depth'], r['provided']['reservoir_pressure']
    # model inputs rounded to 15 significant digits (short decimals come back as themselves): small kernel literals;
    # no decision of Calculate is within 1e-15 of its threshold for inputs written as short decimals
    # (enthalpies and entropies stay exact: their differences cancel when the two temperatures are close)
    flat = [qconv.sig15(x) for x in pre[:12] + [F(int(dg)), pre[12], F(int(pg)), pre[13], fdmin, fhcmin, dens, cp]] + hs
    try:
        outs = [fx(h) for h in r['outs']]      # after an exception: the partially assigned outputs main() goes on to print
    except ValueError:
        return {'skip': 'nonfinite'}
    impl = ('E', ERRCODE.get(r['calc_error'], 97)) if r['calc_error'] else ('V', outs)
    rec = 'low' if tres <= 90 else 'high' if tres >= 150 else 'mid'
    sig = (dg, pg, dens_d, cp_d, rec, int(tres // 20), r['calc_error'] or 'ok', tres < trej)
    oracle_ok = hs[0] > hs[1] and hs[2] >= hs[3] and (hs[0] - hs[1]) - (F(trej) + F('273.15')) * (hs[2] - hs[3]) >= 0
    return {'skip': None, 'flat': flat, 'impl': impl, 'outs': outs, 'pre': pre, 'sig': sig, 'tres': tres, 'trej': trej,
            'oracle_ok': oracle_ok, 'error': r['calc_error']}


def clause_terms(a, tol=TOL, all_in_one=False):
    """Coq boolean terms: the clauses of the property on one implementation run."""
    p, o, t, st = a['pre'], qconv.qlist(a['outs']), qconv.q(tol), stated(a.get('text', ''))
    # the inputs as STATED in the file (the value held after read_parameters only for inputs the file does not give)
    por, area, thick, rff = (qconv.q(st.get(_IN_NAMES[N[k]], p[N[k]])) for k in
                             ('reservoir_porosity', 'reservoir_area', 'reservoir_thickness', 'recoverable_fluid_factor'))
    if all_in_one:
        return [f'chk_run {t} {por} {area} {thick} {rff} {o}']
    return [f'chk_volume {t} {area} {thick} {o}', f'chk_vol_rock {t} {por} {o}', f'chk_vol_fluid {t} {por} {rff} {o}',
            f'chk_stored_sum {t} {o}', f'chk_avail_le_stored {t} {o}', f'chk_prod_le_avail {t} {o}']


def show(a, idx):
    return {hiprun.OUT_ATTRS[i]: float(a['outs'][i]) for i in idx}


# ------------------------------------------------------------------------------------------------
# parts
# ------------------------------------------------------------------------------------------------

def part_model(ctx, labelled, results):
    """model vs Calculate on every run; the single-run clauses of the property on the implementation outputs."""
    cases, ok_runs, partial, skipped = [], [], [], {}
    for (label, text), r in zip(labelled, results):
        a = analyse(r)
        if a['skip']:
            skipped[a['skip']] = skipped.get(a['skip'], 0) + 1
            continue
        a.update(label=label, text=text)
        cases.append({'flat': a['flat'], 'impl': a['impl'], 'desc': {'label': label, 'text': text}, 'nontrivial': a['sig']})
        ok_runs.append(a)                   # runs that raised included: main() prints their partial outputs as results
        if a['error']:
            partial.append({'flat': a['flat'], 'impl': ('V', a['outs']), 'desc': {'label': label, 'text': text, 'error': a['error']},
                            'nontrivial': a['sig']})
    ctx.count('Calculate-vs-model', rejected=skipped, oracle_sign_hypotheses_hold=sum(1 for a in ok_runs if a['oracle_ok'] and not a['error']),
              inverted_temperature_runs=sum(1 for a in ok_runs if a['tres'] < a['trej'] and not a['error']),
              error_runs=sum(1 for c in cases if c['impl'][0] == 'E'))
    flatcorr.run(ctx, 'Calculate-vs-model', REQ, 'run_hip', TOL, cases, kind='corr', shard=max(8, len(cases) // 32 + 1),
                 key_of=lambda c: 'calculate:model-differs:' + c['desc']['label'].split(':')[0],
                 what='HIP_RA_X.Calculate and the Coq model hip_calc disagree (outputs in the order of hiprun.OUT_ATTRS)')
    flatcorr.run(ctx, 'partial-report-vs-model', RREQ, 'run_published', TOL, partial, kind='corr',
                 key_of=lambda c: 'partial-report:model-differs:' + c['desc']['error'],
                 what='after an exception in Calculate, the outputs main() goes on to print differ from the Coq model [published]')
    for a in ok_runs:
        for name, q in stated(a['text']).items():
            held = a['pre'][_attr_index(name)]
            want = F(int(q)) if name == 'Reservoir Life Cycle' else q
            if abs(held - want) > abs(want) * F(1, 10 ** 12):
                ctx.violate('corr', f'read:stated-value-altered:{name}',
                            f'the input file states {name} = {q} (no unit) but Calculate starts from {float(held)!r}',
                            inp={'kind': 'clause', 'clause': 'read', 'text': a['text']}, expected=str(q), observed=float(held))
    # the property itself, on what the implementation produced
    failing_runs = [ok_runs[b] for b in fw.kernel_bools(ctx, 'clauses', REQ, [clause_terms(a, all_in_one=True)[0] for a in ok_runs],
                                                        shard=max(20, len(ok_runs) // 32 + 1))]
    terms = []
    for a in failing_runs:
        terms += clause_terms(a)
    bad = fw.kernel_bools(ctx, 'clauses_detail', REQ, terms, shard=120)
    ctx.count('property-on-implementation', evaluations=6 * len(ok_runs), nontrivial_keys=[a['sig'] for a in ok_runs])
    for b in bad:
        a, cl = failing_runs[b // 6], CLAUSES[b % 6]
        regime = ('partial-report:' if a['error'] else '') + ('Tres<Trej' if a['tres'] < a['trej'] else 'Tres>Trej')
        key = f'cascade:{cl}:{regime}' if b % 6 >= 4 else f'additivity:{cl}'
        ctx.violate('property', key, f'HIP-RA-X clause "{cl}" fails on the real code ({regime})',
                    inp={'kind': 'clause', 'clause': cl, 'text': a['text']},
                    expected=cl, observed=show(a, [0, 1, 2, 13, 14, 15, 16, 17]))
    # an assumption of C17_cascade_partial that the water-property library does not meet is worth knowing
    for a in ok_runs:
        if a['tres'] > a['trej'] and not a['oracle_ok'] and not a['error']:
            ctx.note(f'water-property sign hypotheses do not hold at Tres={a["tres"]} Trej={a["trej"]} ({a["label"]})')
            break
    return ok_runs


def scaled_text(cfg, name, k):
    c = dict(cfg)
    c[name] = _dec(F(cfg[name]) * k)
    return c


def _dec(v):
    """exact decimal text of a rational with a power-of-ten-compatible denominator"""
    from decimal import Decimal, getcontext
    getcontext().prec = 60
    d = Decimal(v.numerator) / Decimal(v.denominator)
    return format(d.normalize(), 'f')


def part_scaling(ctx, bases):
    """area and thickness homogeneity on the real code: x2 (exact in binary floating point) and x k."""
    rnd = ctx.rng
    jobs = []
    for style, cfg in bases:
        for name, attr, mask in (('Reservoir Area', 'reservoir_area', 'area_mask'), ('Reservoir Thickness', 'reservoir_thickness', 'thick_mask')):
            if F(cfg[name]) == 0:
                continue
            for k in (F(2), F(rnd.choice(['0.25', '0.37', '1.7', '3.1', '6.5', '10']))):
                if F(cfg[name]) * k > 10000:
                    continue
                jobs.append((cfg, scaled_text(cfg, name, k), name, attr, mask, k))
    texts = [text_of(c) for _, c in bases] + [text_of(j[1]) for j in jobs]
    res = hiprun.run_many(ctx, texts, want_report=False)
    base_res = {id(cfg): r for (_, cfg), r in zip(bases, res[:len(bases)])}
    terms, meta = [], []
    for j, r2 in zip(jobs, res[len(bases):]):
        cfg, cfg2, name, attr, mask, k = j
        r1 = base_res[id(cfg)]
        inp = {'kind': 'scale', 'param': name, 'k': str(k), 'text': text_of(cfg), 'text2': text_of(cfg2)}
        if r1.get('read_error') or r2.get('read_error'):
            if bool(r1.get('read_error')) != bool(r2.get('read_error')):
                ctx.violate('property', f'scale:{name}:read-status', f'scaling {name} by {k} changes whether the input is accepted',
                            inp=inp, expected=r1.get('read_error'), observed=r2.get('read_error'))
            continue
        if r1['calc_error'] or r2['calc_error']:
            if r1['calc_error'] != r2['calc_error']:
                ctx.violate('property', f'scale:{name}:error-status', f'scaling {name} by {k} changes the error status of the run',
                            inp=inp, expected=r1['calc_error'], observed=r2['calc_error'])
            ctx.count('scaling', error_pairs=1)
            if r1['calc_error'] != r2['calc_error']:
                continue
        try:
            o1, o2 = [fx(h) for h in r1['outs']], [fx(h) for h in r2['outs']]
        except ValueError:
            continue
        keff = fx(r2['pre'][N[attr]]) / fx(r1['pre'][N[attr]])
        tol = F(0) if k == 2 and keff == 2 else TOL
        terms.append(f'chk_scaled {qconv.q(tol)} {qconv.q(keff)} {mask} {qconv.qlist(o1)} {qconv.qlist(o2)}')
        meta.append((inp, name, k, o1, o2, tol))
    bad = fw.kernel_bools(ctx, 'scaling', REQ, terms, shard=150)
    ctx.count('scaling', evaluations=len(terms), nontrivial_keys=[(m[1], str(m[2]), i % 97) for i, m in enumerate(meta)],
              exact_pairs=sum(1 for m in meta if m[5] == 0))
    for b in bad[:8]:
        inp, name, k, o1, o2, tol = meta[b]
        worst = max(range(len(o1)), key=lambda i: abs(float(o2[i]) - float(o1[i]) * (float(k) if _mask(name)[i] else 1.0))
                    / max(1e-300, abs(float(o2[i])), abs(float(o1[i]))))
        ctx.violate('property', f'scale:{name}:{hiprun.OUT_ATTRS[worst]}',
                    f'multiplying {name} by {k} does not scale {hiprun.OUT_ATTRS[worst]} as the property requires '
                    f'({"x k" if _mask(name)[worst] else "unchanged"} expected; tolerance {"0 (exact)" if tol == 0 else "1e-9"})',
                    inp=inp, expected=float(o1[worst]) * (float(k) if _mask(name)[worst] else 1.0), observed=float(o2[worst]))


AREA_MASK = [1, 1, 1, 0, 0, 0, 0, 1, 1, 1, 0, 0, 0, 1, 1, 1, 1, 1, 0, 1, 0, 0, 0, 0, 0]
THICK_MASK = [1, 1, 1, 0, 0, 0, 0, 1, 1, 1, 0, 0, 0, 1, 1, 1, 1, 1, 0, 1, 1, 0, 1, 0, 1]


def _mask(name):
    return AREA_MASK if name == 'Reservoir Area' else THICK_MASK


def unit_value(rnd, name, unit=None):
    """an in-range value (preferred units, decimal text) for the parameter of a unit-table row; an integer number of
    years that is a whole number of the other time unit (a year is 365.25 days)"""
    if name == 'Reservoir Life Cycle' and unit == 'week':
        return str(rnd.choice([28, 56, 84]))
    return {'Reservoir Temperature': lambda: f'{rnd.uniform(160, 350):.1f}', 'Rejection Temperature': lambda: f'{rnd.uniform(10, 80):.1f}',
            'Reservoir Area': lambda: f'{rnd.uniform(5, 400):.2f}', 'Reservoir Thickness': lambda: f'{rnd.uniform(0.05, 3):.3f}',
            'Reservoir Life Cycle': lambda: str(rnd.randint(2, 60)), 'Density Of Reservoir Fluid': lambda: f'{rnd.uniform(7e11, 1e12):.4e}',
            'Density Of Reservoir Rock': lambda: f'{rnd.uniform(2e12, 3e12):.4e}', 'Recoverable Fluid Factor': lambda: f'{rnd.uniform(0.1, 0.9):.2f}',
            'Recoverable Heat from Rock': lambda: f'{rnd.uniform(0.1, 0.9):.2f}', 'Reservoir Depth': lambda: f'{rnd.uniform(0.5, 8):.2f}',
            'Reservoir Pressure': lambda: f'{rnd.uniform(5, 90):.2f}', 'Reservoir Porosity': lambda: f'{rnd.uniform(2, 40):.1f}'}[name]()


def part_units(ctx, bases, table):
    """every row of the regenerated unit table: the same quantity written in that unit gives the same results."""
    rnd = ctx.rng
    jobs = []
    for style, cfg in bases:
        for (name, unit, f, o) in table:
            c1 = dict(cfg)
            # keep the two temperatures well apart in every pair: close temperatures make the results ill-conditioned
            # (exergy ~ dT**2) and the 1e-12 difference between the two spellings of a quantity would show at 1e-9
            c1['Reservoir Temperature'] = unit_value(rnd, 'Reservoir Temperature')
            c1['Rejection Temperature'] = unit_value(rnd, 'Rejection Temperature')
            if 'Temperature' not in name:
                c1[name] = unit_value(rnd, name, unit)
            vtxt = written_in(name, c1[name], unit)
            c2 = dict(c1)
            c2[name] = f'{vtxt} {unit}'
            jobs.append((c1, c2, name, unit, f, o, F(vtxt)))
    res = hiprun.run_many(ctx, [text_of(j[0]) for j in jobs] + [text_of(j[1]) for j in jobs], want_report=False)
    r1s, r2s = res[:len(jobs)], res[len(jobs):]
    terms, meta, read_cases = [], [], []
    for j, r1, r2 in zip(jobs, r1s, r2s):
        c1, c2, name, unit, f, o, v = j
        inp = {'kind': 'units', 'param': name, 'unit': unit, 'text': text_of(c1), 'text2': text_of(c2)}
        if r1.get('read_error'):
            ctx.count('units', base_rejected=1)
            continue
        if r2.get('read_error'):
            ctx.violate('property', f'units:read-raises:{name}:{unit}:{r2["read_error"].split(":")[0]}',
                        f'{name} written in the listed unit {unit!r} is not read (the run aborts) although the same quantity in '
                        f'preferred units is accepted', inp=inp, expected='same results as the preferred-unit input',
                        observed=r2['read_error'])
            continue
        attr = hiprun.IN_ATTRS[_attr_index(name)]
        if name != 'Reservoir Life Cycle':
            read_cases.append({'flat': [f, o, v], 'impl': ('V', [fx(r2['pre'][N[attr]])]),
                               'desc': {'param': name, 'unit': unit, 'written': str(v), 'text': text_of(c2)}, 'nontrivial': (name, unit)})
        if r1['calc_error'] or r2['calc_error']:
            if r1['calc_error'] != r2['calc_error']:
                ctx.violate('property', f'units:results-differ:{name}:{unit}', f'{name} in {unit!r}: error status differs',
                            inp=inp, expected=r1['calc_error'], observed=r2['calc_error'])
            continue
        try:
            o1, o2 = [fx(h) for h in r1['outs']], [fx(h) for h in r2['outs']]
        except ValueError:
            continue
        terms.append(f'chk_same {qconv.q(TOL)} {qconv.qlist(o1)} {qconv.qlist(o2)}')
        meta.append((inp, name, unit, o1, o2, fx(r1['pre'][N[attr]]), fx(r2['pre'][N[attr]])))
    bad = fw.kernel_bools(ctx, 'units', REQ, terms, shard=150)
    ctx.count('units', evaluations=len(terms), nontrivial_keys=[(m[1], m[2]) for m in meta])
    for b in bad:
        inp, name, unit, o1, o2, p1, p2 = meta[b]
        worst = max(range(len(o1)), key=lambda i: abs(float(o2[i]) - float(o1[i])) / max(1e-300, abs(float(o2[i])), abs(float(o1[i]))))
        trunc = name == 'Reservoir Life Cycle' and p2 == p1 - 1
        ctx.violate('property', f'units:{"int-truncation" if trunc else "results-differ"}:{name}:{unit}',
                    f'{name} written in {unit!r} gives different results than the same quantity in preferred units '
                    f'(value used {float(p2)!r} instead of {float(p1)!r}; {hiprun.OUT_ATTRS[worst]} differs)',
                    inp=inp, expected=float(o1[worst]), observed=float(o2[worst]))
    flatcorr.run(ctx, 'read-units-vs-model', REQ, 'run_read', TOL, read_cases, kind='corr',
                 key_of=lambda c: f'read:model-differs:{c["desc"]["param"]}:{c["desc"]["unit"]}',
                 what='value stored by ReadParameter differs from the affine conversion of the regenerated unit table')


_PREF = {}


def written_in(name, x, unit):
    """the number a user writes for the quantity x (preferred units) in another unit: pint's conversion, 12 digits"""
    H = hiprun.module()
    ureg = H.HIP_RA_X._ureg
    if not _PREF:
        _PREF.update({k: p.PreferredUnits.value for k, p in H.HIP_RA_X(enable_hip_ra_logging_config=False).ParameterDict.items()
                      if p.PreferredUnits is not None})
    pref = _PREF[name]
    return format(float(ureg.Quantity(float(x), ureg.Quantity(0.0, str(pref)).units).to(unit).magnitude), '.12g')


_IN_NAMES = ['Reservoir Temperature', 'Rejection Temperature', 'Reservoir Porosity', 'Reservoir Area', 'Reservoir Thickness',
             'Reservoir Life Cycle', 'Rock Heat Capacity', 'Fluid Specific Heat Capacity', 'Density Of Reservoir Fluid',
             'Density Of Reservoir Rock', 'Recoverable Fluid Factor', 'Recoverable Heat from Rock', 'Reservoir Depth', 'Reservoir Pressure']


def _attr_index(name):
    return _IN_NAMES.index(name)


def part_helpers(ctx):
    """RecoverableHeat and UtilEff_func called directly, incl. every knot / threshold and both sides of it."""
    from geophires_x import GeoPHIRESUtils as G
    rnd = ctx.rng
    pts = [90.0, 150.0, 89.999, 90.001, 149.999, 150.001, 0.0, -5.0, 1000.0] + [float(t) for t in G._T]
    pts += [float(t) + d for t in G._T for d in (-0.5, 0.5)] + [0.009, 600.001, 0.01]
    pts += [round(rnd.uniform(0, 620), 3) for _ in range(ctx.n(150, 1500))]
    rec, util = [], []
    for t in pts:
        rec.append({'flat': [F(t)], 'impl': ('V', [F(G.RecoverableHeat.__wrapped__(t))]), 'desc': {'fn': 'RecoverableHeat', 'T': t},
                    'nontrivial': ('rec', int(t // 10))})
        r = flatcorr.call_impl(G.UtilEff_func.__wrapped__, t)
        util.append({'flat': [F(t)], 'impl': r if r[0] == 'E' else ('V', [F(float(r[1]))]), 'desc': {'fn': 'UtilEff_func', 'T': t},
                     'nontrivial': ('util', int(t // 10))})
    kw = dict(kind='corr', key_of=lambda c: 'helper:model-differs:' + c['desc']['fn'])
    flatcorr.run(ctx, 'RecoverableHeat-vs-model', REQ, 'run_recoverable', F(1, 10 ** 12), rec, **kw)
    flatcorr.run(ctx, 'UtilEff-vs-model', REQ, 'run_util_eff', F(1, 10 ** 12), util, **kw)


def part_ranges(ctx):
    """the declared [Min, Max] of the live parameters are the ranges Spec.HipRaSpec.in_range_b states the theorems for."""
    _, params = hip_tables.hip_inputs()
    live = dict(params)
    attrs = hiprun.IN_ATTRS[:7] + ['rock_density', 'recoverable_fluid_factor', 'recoverable_rock_heat']
    lo = {a: F(min(live[a].AllowableRange)) if a == 'reservoir_life_cycle' else qconv.F(live[a].Min) for a in attrs}
    hi = {a: F(max(live[a].AllowableRange)) if a == 'reservoir_life_cycle' else qconv.F(live[a].Max) for a in attrs}

    def term(v, expect):
        order = ['reservoir_temperature', 'rejection_temperature', 'reservoir_porosity', 'reservoir_area', 'reservoir_thickness',
                 'reservoir_life_cycle', 'rock_heat_capacity', None, None, 'rock_density', 'recoverable_fluid_factor',
                 'recoverable_rock_heat']
        args = ' '.join(qconv.q(v[a]) if a else '(-1#1)' for a in order)
        t = f'in_range_b (Build_hin {args} false 0 false 0 0 0)'
        return t if expect else f'negb ({t})'

    terms, what = [term(lo, True), term(hi, True)], ['all minima', 'all maxima']
    for a in attrs:
        d = F(1, 1000)
        terms += [term({**lo, a: lo[a] - d}, False), term({**hi, a: hi[a] + d}, False)]
        what += [f'{a} just below its minimum {float(lo[a])}', f'{a} just above its maximum {float(hi[a])}']
    bad = fw.kernel_bools(ctx, 'ranges', REQ + ['Spec.HipRaSpec'], terms)
    ctx.count('ranges-vs-spec', evaluations=len(terms))
    for b in bad:
        ctx.violate('corr', f'ranges:{what[b]}', f'declared parameter range differs from Spec.HipRaSpec.in_range_b at: {what[b]}',
                    inp={'kind': 'ranges', 'where': what[b]})


def _fvals(hexes):
    """implementation floats -> Coq fval terms (Fin exact rational | NegZero); None when one is not finite."""
    out = []
    for h in hexes:
        try:
            x = float.fromhex(h)
        except ValueError:
            return None
        out.append('NegZero' if x == 0 and h.startswith('-') else f'Fin {qconv.q(F(x))}')
    return '[' + '; '.join(out) + ']'


def part_report(ctx, labelled, results):
    """observe_at: the two SUMMARY sections of the report are, character for character, the string model applied to the
    values the run holds (also for the partial report main() prints after an exception), and HipRaResult's parse of the
    report is the model parser's."""
    terms, meta, budget = [], [], ctx.n(80, 1000)
    for (label, text), r in zip(labelled, results):
        if r.get('read_error') or (len(meta) >= 3 * budget and not r['calc_error']):
            continue
        if not r.get('report'):
            if r.get('print_error'):
                ctx.violate('corr', 'report:print-error', f'PrintOutputs failed: {r["print_error"]}', inp={'kind': 'report', 'text': text})
            continue
        outs, ins = _fvals(r['outs']), _fvals(r['post_in'])
        if outs is None or ins is None:
            ctx.count('report-text', nonfinite_runs=1)
            continue
        b = lambda k: qconv.blit(r['provided'][k])
        flags = f'{b("reservoir_depth")} {b("reservoir_pressure")}'
        sec_in, sec_out = hiprun.sections(r['report'])
        S = lambda x: '(' + qconv.coq_bytes(x) + ')%string'
        lit = lambda lines: S(''.join(x + '\n' for x in lines))
        terms.append(f'String.eqb (section_text (result_rows {flags}) hip_out_names {outs}) {lit(sec_out)} && forallb fval_sig_ok {outs}')
        meta.append(('report:text:results', label, text))
        terms.append(f'String.eqb (section_text (input_rows {flags}) hip_in_names {ins}) {lit(sec_in)}')
        meta.append(('report:text:inputs', label, text))
        if 'client' in r:
            exp = '; '.join(f'({S(k)}, {qconv.q(fx(v))}, {"Some " + S(u) if u is not None else "None"})' for k, v, u in r['client'])
            terms.append(f'parsed_agree {qconv.q(F(1, 10 ** 12))} (parse_report {S(r["report"])}) [{exp}]')
            meta.append(('client:parse', label, text))
        else:
            ctx.violate('corr', 'client:parse-error', f'HipRaResult could not parse the report: {r.get("client_error")}',
                        inp={'kind': 'report', 'text': text})
    bad = fw.kernel_bools(ctx, 'report', RREQ, terms, shard=max(12, len(terms) // 40 + 1))
    ctx.count('report-text', evaluations=len(terms), nontrivial_keys=[(m[0], i % 61) for i, m in enumerate(meta)])
    what = {'report:text:results': 'SUMMARY OF RESULTS differs from the string model section_text (result_rows ..) on the values of the run',
            'report:text:inputs': 'SUMMARY OF INPUTS differs from the string model section_text (input_rows ..) on the values of the run',
            'client:parse': "HipRaResult's parse of the report differs from the model parser parse_report"}
    for b in bad[:6]:
        key, label, text = meta[b]
        ctx.violate('corr', key, what[key] + f' ({label})', inp={'kind': 'report', 'text': text})


def part_legacy(ctx, texts=None):
    """legacy src/hip_ra/HIP_RA.py: the quantities its method shares with HIP-RA-X against the same Coq model, its
    report lines against the same string model, its efficiency helpers against the HIP-RA-X ones where they coincide."""
    rnd, cases, terms, meta, helper = ctx.rng, [], [], [], []
    for k in range(len(texts) if texts is not None else ctx.n(16, 500)):
        tres = f'{rnd.uniform(60, 370):.1f}'
        cfg = {'Reservoir Temperature': tres, 'Rejection Temperature': f'{rnd.uniform(5, min(195.0, float(tres) - 5)):.1f}',
               'Formation Porosity': f'{rnd.uniform(1, 40):.2f}', 'Reservoir Area': f'{rnd.uniform(1, 900):.2f}',
               'Reservoir Thickness': f'{rnd.uniform(0.05, 5):.3f}', 'Reservoir Life Cycle': str(rnd.randint(2, 60))}
        if rnd.random() < 0.5:
            cfg['Reservoir Heat Capacity'] = f'{rnd.uniform(1e12, 5e12):.3e}'
        if rnd.random() < 0.4:
            cfg['Density Of Water'] = f'{rnd.uniform(7e11, 1.05e12):.3e}'
        text = texts[k] if texts is not None else text_of(cfg)
        r = hiprun.run_legacy(text, str(ctx.scratch))
        if r['error']:
            ctx.count('legacy-hip-ra', rejected=1)
            continue
        o = [fx(h) for h in r['outs']]
        if fx(r['TrejK']) != fx(r['inputs'][1]) + F('273.15') and abs(float(fx(r['TrejK']) - fx(r['inputs'][1])) - 273.15) > 1e-9:
            continue
        cases.append({'flat': [qconv.sig15(fx(h)) for h in r['inputs'][:7]] + [fx(h) for h in r['inputs'][7:]],
                      'impl': ('V', [o[1], o[3], o[2], o[4]]), 'desc': {'label': f'legacy:{k}', 'text': text, 'program': 'hip_ra'},
                      'nontrivial': ('legacy', k % 53)})
        names = '[' + '; '.join(f'(({qconv.coq_bytes(n)})%string, ({qconv.coq_bytes(u)})%string)' for n, u in r['names']) + ']'
        lines = [x for x in r['report'].split('\n') if ':' in x]
        terms.append(f'String.eqb (section_text legacy_rows {names} {_fvals(r["outs"])}) '
                     f'({qconv.coq_bytes("".join(x + chr(10) for x in lines))})%string')
        meta.append(text)
        t = float.fromhex(r['inputs'][0])
        helper.append({'flat': [F(t)], 'impl': ('V', [fx(r['helpers']['util_eff'])]), 'desc': {'fn': 'hip_ra._UtilEff_func', 'T': t},
                       'nontrivial': ('lutil', int(t // 20))})
        if t != 90.0 and t != 150.0:      # the legacy thresholds are strict (< 90, > 150): the two functions differ there
            helper.append({'flat': [F(t)], 'impl': ('V', [fx(r['helpers']['recoverable'])]),
                           'desc': {'fn': 'hip_ra._RecoverableHeat', 'T': t}, 'nontrivial': ('lrec', int(t // 20)), 'rec': True})
    kw = dict(kind='corr', key_of=lambda c: 'legacy:model-differs:' + c['desc'].get('fn', 'common'))
    flatcorr.run(ctx, 'legacy-hip-ra-common', RREQ, 'run_legacy_common', TOL, cases,
                 what='legacy HIP_RA: volume / fluid mass / heat of the volume / exergy differ from the common part of the Coq model', **kw)
    flatcorr.run(ctx, 'legacy-helpers', REQ, 'run_util_eff', F(1, 10 ** 12), [c for c in helper if not c.get('rec')], **kw)
    flatcorr.run(ctx, 'legacy-helpers', REQ, 'run_recoverable', F(1, 10 ** 12), [c for c in helper if c.get('rec')], **kw)
    bad = fw.kernel_bools(ctx, 'legacy_report', RREQ, terms, shard=max(8, len(terms) // 32 + 1))
    ctx.count('legacy-report-text', evaluations=len(terms))
    for b in bad[:3]:
        ctx.violate('corr', 'legacy:report-text', 'legacy HIP_RA report lines differ from the string model section_text legacy_rows',
                    inp={'kind': 'legacy', 'text': meta[b]})


def part_client(ctx, labelled, results_by_text):
    """the anchored entry point: HipRaXClient -> hip_ra_x.main() (which swallows an exception of Calculate and prints
    anyway) writes the report the direct read/Calculate/PrintOutputs sequence wrote, and returns its parse."""
    from hip_ra import HipRaInputParameters
    from hip_ra_x import HipRaXClient
    import contextlib, io, logging
    logging.disable(logging.CRITICAL)
    client, n_ok, n_err, quota = HipRaXClient(), 0, 0, ctx.n(3, 20)
    for label, text in labelled:
        r = results_by_text[text]
        err = bool(r.get('calc_error'))
        if r.get('read_error') or not r.get('report') or (n_err if err else n_ok) >= quota:
            continue
        p = ctx.scratch / f'client_{n_ok + n_err}.txt'
        p.write_text(text)
        inp = {'kind': 'client', 'text': text}
        try:
            with contextlib.redirect_stdout(io.StringIO()), contextlib.redirect_stderr(io.StringIO()):
                res = client.get_hip_ra_result(HipRaInputParameters(str(p)))
        except Exception as e:
            ctx.violate('corr', 'client:main-raises' + (':after-calculate-error' if err else ''),
                        f'HipRaXClient/main() raised {type(e).__name__}: {str(e)[:160]} where the model of main() prints a report', inp=inp)
            continue
        with open(res.output_file_path, encoding='UTF-8') as f:
            via_main = f.read()
        if via_main != r['report']:
            ctx.violate('corr', 'client:main-report-differs' + (':after-calculate-error' if err else ''),
                        'the report written through HipRaXClient/main() differs from the one of read_parameters/Calculate/PrintOutputs',
                        inp=inp, expected=r['report'][-300:], observed=via_main[-300:])
        got = [(k, float(v['value']).hex(), v['unit']) for k, v in res.result.items()]
        if got != [tuple(x) for x in r.get('client', [])]:
            ctx.violate('corr', 'client:result-differs', 'HipRaXClient returned a different parse than HipRaResult on the same report', inp=inp)
        n_ok, n_err = n_ok + (not err), n_err + err
    ctx.count('client', evaluations=n_ok + n_err, through_main_after_exception=n_err)


def client_session(ctx, steps, tag='session'):
    """ONE HipRaXClient instance and ONE input file path, rewritten between the calls (how a user edits a case file and
    re-runs).  steps: [(text, param|None, k|None)] - param/k say how the step relates to steps[0].  Every call is compared
    with the direct run of the text the file holds at that moment, and every scaled / re-spelled step with the first call
    by the scaling oracle on the figures the client returns (printed precision).  -> list of (kind, key, what, inp, exp, obs)."""
    from hip_ra import HipRaInputParameters
    from hip_ra_x import HipRaXClient
    import contextlib, io, logging
    logging.disable(logging.CRITICAL)
    client, path, out, got = HipRaXClient(), ctx.scratch / f'case_{tag}.txt', [], []
    inp = {'kind': 'client-session', 'steps': [list(x) for x in steps]}
    for text, _, _ in steps:
        path.write_text(text)
        try:
            with contextlib.redirect_stdout(io.StringIO()), contextlib.redirect_stderr(io.StringIO()):
                res = client.get_hip_ra_result(HipRaInputParameters(str(path)))
            got.append({k: (v['value'], v['unit']) for k, v in res.result.items()})
        except Exception as e:
            got.append(f'{type(e).__name__}: {str(e)[:120]}')
    direct = [hiprun.run_case(t, str(ctx.scratch)) for t, _, _ in steps]
    for n, (g, d) in enumerate(zip(got, direct)):
        want = {k: (float.fromhex(v), u) for k, v, u in d.get('client', [])}
        if isinstance(g, str) or g != want:
            diff = g if isinstance(g, str) else {k: (g.get(k), want.get(k)) for k in set(g) | set(want) if g.get(k) != want.get(k)}
            out.append(('corr', f'client-session:call-{min(n, 1) + 1}-differs-from-direct-run',
                        f'call {n + 1} of one HipRaXClient on one (rewritten) input file does not return the report of the text the file '
                        f'holds: {str(diff)[:300]}', inp, None, None))
    base = got[0]
    if isinstance(base, str) or direct[0].get('calc_error') or direct[0].get('read_error'):
        return out, 0
    label_attr = {v: a for a, v in direct[0]['names'].items()}
    labels = [k for k in base if k in label_attr and k not in ('Reservoir Depth', 'Reservoir Pressure')]
    terms, meta = [], []
    for n, (text, param, k) in enumerate(steps):
        if n == 0 or isinstance(got[n], str) or any(l not in got[n] for l in labels):
            continue
        mask = [bool(_mask(param)[O[label_attr[l]]]) if k is not None else False for l in labels]
        b, v = [F(base[l][0]) for l in labels], [F(got[n][l][0]) for l in labels]
        terms.append(f'chk_scaled (15#1000) {qconv.q(F(k) if k is not None else F(1))} [{"; ".join(qconv.blit(m) for m in mask)}] '
                     f'{qconv.qlist(b)} {qconv.qlist(v)}')
        meta.append((n, param, k, labels, mask, b, v))
    for i in fw.kernel_bools(ctx, f'client_{tag}', REQ, terms):
        n, param, k, labels, mask, b, v = meta[i]
        worst = max(range(len(labels)), key=lambda j: abs(float(v[j]) - float(b[j]) * (float(k) if mask[j] else 1.0)) / max(1.0, abs(float(v[j])), abs(float(b[j]))))
        what = (f'multiplying {param} by {k}' if k is not None else f're-spelling {param} in another unit') + \
            f' in the case file and re-running through the same HipRaXClient: reported "{labels[worst]}" goes {float(b[worst])!r} -> ' \
            f'{float(v[worst])!r}, expected {float(b[worst]) * (float(k) if mask[worst] else 1.0)!r} (printed precision)'
        out.append(('property', f'client-session:{"scale" if k is not None else "units"}:{param}', what, inp,
                    float(b[worst]) * (float(k) if mask[worst] else 1.0), float(v[worst])))
    return out, len(terms) + len(steps)


def part_client_session(ctx, cfgs):
    n = 0
    for j, (_, cfg) in enumerate(cfgs):
        thick_m = written_in('Reservoir Thickness', cfg['Reservoir Thickness'], 'meter')
        steps = [(text_of(cfg), None, None),
                 (text_of(scaled_text(cfg, 'Reservoir Area', F(2))), 'Reservoir Area', '2'),
                 (text_of(scaled_text(cfg, 'Reservoir Thickness', F(2))), 'Reservoir Thickness', '2'),
                 (text_of({**cfg, 'Reservoir Thickness': f'{thick_m} meter'}), 'Reservoir Thickness', None)]
        found, m = client_session(ctx, steps, tag=str(j))
        n += m
        for kind, key, what, inp, exp, obs in found:
            ctx.violate(kind, key, what, inp=inp, expected=exp, observed=obs)
    ctx.count('client-session', evaluations=n, nontrivial_keys=[('session', j) for j in range(len(cfgs))])


# ------------------------------------------------------------------------------------------------
# entry points
# ------------------------------------------------------------------------------------------------

def correspondence(ctx, proofs_ok=True):
    unit_table = hip_tables.unit_rows()[0]      # the rows Gen/HipTables.v was just regenerated from
    import time
    t0, marks = time.time(), []

    def mark(name):
        marks.append(f'{name} {time.time() - t0:.0f}s')

    cfgs = configs(ctx, ctx.n(300, 4000))
    labelled = corpus_cases() + [(f'{style}:{k}', text_of(cfg)) for k, (style, cfg) in enumerate(cfgs)]
    results = hiprun.run_many(ctx, [t for _, t in labelled], want_report=True)
    mark('runs')
    by_text = {t: r for (_, t), r in zip(labelled, results)}
    ok_runs = part_model(ctx, labelled, results)
    mark('model+clauses')
    part_report(ctx, labelled, results)
    part_helpers(ctx)
    part_ranges(ctx)
    mark('report+helpers+ranges')
    normal = [(s, c) for s, c in cfgs if s != 'edge']
    part_scaling(ctx, cfgs[:ctx.n(80, 1000)])
    mark('scaling')
    part_units(ctx, normal[:ctx.n(6, 60)], unit_table)
    mark('units')
    part_client(ctx, labelled, by_text)
    part_client_session(ctx, [c for c in normal if float(c[1]['Reservoir Area']) <= 4000 and float(c[1]['Reservoir Temperature']) <= 590
                              and float(c[1]['Reservoir Temperature']) > float(c[1]['Rejection Temperature'])][:ctx.n(3, 20)])
    part_legacy(ctx)
    mark('client+session+legacy')
    ctx.note('partial report (main() prints after Calculate raised): outside the property - on every such run the printed figures '
             'satisfy the volume, additivity, cascade and scaling checkers (and C17_partial_report_additive/_cascade prove it of the '
             'model); observation only: the report carries no error status and e.g. for T > 600 C prints a non-zero producible heat next '
             'to zero electricity and zero heat per unit area')
    ctx.note('cumulative wall time after each part: ' + ', '.join(marks))


def search(ctx):
    """model/implementation disagree but no clause failed yet: evaluate the property itself around the disagreeing inputs."""
    texts = []
    for v in ctx.violations:
        t = ((v.inp or {}).get('desc') or {}).get('text') or (v.inp or {}).get('text')
        if t and t not in texts:
            texts.append(t)
    cfgs = []
    for t in texts[:20]:
        cfg = dict(tuple(x.strip() for x in line.split(',', 1)) for line in t.splitlines() if ',' in line)
        if all(k in cfg for k in ('Reservoir Area', 'Reservoir Thickness')) and ' ' not in cfg['Reservoir Area'] + cfg['Reservoir Thickness']:
            cfgs.append(('search', cfg))
    cfgs += configs(ctx, 60)
    labelled = [(f'search:{k}', text_of(c)) for k, (_, c) in enumerate(cfgs)]
    part_model(ctx, labelled, hiprun.run_many(ctx, [t for _, t in labelled], want_report=False))
    part_scaling(ctx, cfgs)
    part_units(ctx, [c for c in cfgs if c[0] != 'edge'][:4], hip_tables.unit_rows()[0])


def replay(ctx, data):
    inp = data['input'] or {}
    kind = inp.get('kind') or ('model' if 'desc' in inp else None)
    text = inp.get('text') or (inp.get('desc') or {}).get('text')
    if kind == 'ranges':
        part_ranges(ctx)
        print('declared ranges vs Spec.HipRaSpec.in_range_b:', [v.key for v in ctx.violations] or 'agree')
        return 1 if ctx.violations else 0
    if kind == 'client-session':
        found, _ = client_session(ctx, [tuple(x) for x in inp['steps']], tag='replay')
        for n, (t, param, k) in enumerate(inp['steps']):
            print(f'--- call {n + 1}: case file rewritten to' + (f' ({param} x {k})' if k else '') + '\n' + t)
        for kind_, key, what, *_ in found:
            print(kind_, key, '-', what)
        print('property', 'VIOLATED' if any(f[0] == 'property' for f in found) else 'holds', 'through one client / one file path;',
              'client-vs-direct', 'DIFFERS' if any(f[0] == 'corr' for f in found) else 'agrees')
        return 1 if found else 0
    if text is None:
        print('replay: nothing to re-execute (', data.get('what'), ')')
        return 1
    if kind == 'legacy' or (inp.get('desc') or {}).get('program') == 'hip_ra':
        part_legacy(ctx, [text])
        print('legacy hip_ra on this input:', [v.key for v in ctx.violations] or 'agrees with the common model and the report string model')
        return 1 if ctx.violations else 0
    if kind in ('report', 'client'):
        part_report(ctx, [('replay', text)], [hiprun.run_case(text, str(ctx.scratch))])
        print('input:\n' + text + 'report / client parse vs string model:', [v.key for v in ctx.violations] or 'agree')
        return 1 if ctx.violations else 0
    if (inp.get('desc') or {}).get('fn'):
        part_helpers(ctx)
        bad = [v for v in ctx.violations]
        print('helper correspondence:', 'DISAGREES' if bad else 'agrees')
        return 1 if bad else 0
    r1 = hiprun.run_case(text, str(ctx.scratch))
    print('input:\n' + text)
    if kind in ('scale', 'units'):
        print('variant input:\n' + inp['text2'])
        r2 = hiprun.run_case(inp['text2'], str(ctx.scratch))
        if r2.get('read_error') or r1.get('read_error'):
            print('base read:', r1.get('read_error'), '| variant read:', r2.get('read_error'))
            viol = bool(r1.get('read_error')) != bool(r2.get('read_error'))
        elif r1['calc_error'] or r2['calc_error']:
            print('base error:', r1['calc_error'], '| variant error:', r2['calc_error'])
            viol = r1['calc_error'] != r2['calc_error']
        else:
            o1, o2 = [fx(h) for h in r1['outs']], [fx(h) for h in r2['outs']]
            if kind == 'scale':
                attr = hiprun.IN_ATTRS[_attr_index(inp['param'])]
                keff = fx(r2['pre'][N[attr]]) / fx(r1['pre'][N[attr]])
                tol = F(0) if keff == 2 else TOL
                mask = 'area_mask' if inp['param'] == 'Reservoir Area' else 'thick_mask'
                term = f'chk_scaled {qconv.q(tol)} {qconv.q(keff)} {mask} {qconv.qlist(o1)} {qconv.qlist(o2)}'
            else:
                term = f'chk_same {qconv.q(TOL)} {qconv.qlist(o1)} {qconv.qlist(o2)}'
            viol = bool(fw.kernel_bools(ctx, 'replay', REQ, [term]))
            for a, x, y in zip(hiprun.OUT_ATTRS, o1, o2):
                print(f'  {a:42s} base {float(x)!r:26} variant {float(y)!r}')
        print('property', 'VIOLATED' if viol else 'holds', 'on this input (outputs compared by the Coq checker chk_scaled / chk_same; '
              'read and error status compared directly)')
        return 1 if viol else 0
    if r1.get('read_error'):
        print('input rejected:', r1['read_error'])
        return 1
    a = analyse(r1)
    if a['skip']:
        print('run not comparable:', a['skip'])
        return 1
    a['text'] = text
    failing = fw.kernel_cases(ctx, 'replay', REQ, 'run_hip', TOL, [(a['flat'], a['impl'])])
    if a['error']:
        failing += fw.kernel_cases(ctx, 'replay_partial', RREQ, 'run_published', TOL, [(a['flat'], ('V', a['outs']))])
        print('Calculate raised', a['error'], '- main() goes on to print the partially assigned outputs (model: published)')
    print('implementation:', r1['calc_error'] or {k: float.fromhex(h) for k, h in zip(hiprun.OUT_ATTRS, r1['outs'])})
    print('model hip_calc agrees with the implementation:', not failing)
    viol = False
    if a['outs'] is not None:
        bad = fw.kernel_bools(ctx, 'replay_clauses', REQ, clause_terms(a))
        for i, cl in enumerate(CLAUSES):
            print(f'  clause {cl}:', 'FAILS' if i in bad else 'holds')
        viol = bool(bad)
    print('property', 'VIOLATED' if viol else 'holds', 'on this input;', 'model tie', 'BROKEN' if failing else 'intact')
    return 1 if (viol or failing) else 0
