"""C09 - the case report states what was computed."""
import ast
import json
import math
import time

from gen import c09_report as gen
from lib import c09fmt, c09report as rep, c09run, configs, framework as fw, runner

META = {
    'props': 'Props/C09.v',
    'claimed': True,
    'level_text': ('Proof (partial): (a) for every rational value (hence every finite double), width and precision the modelled text of a '
                   "'{:w.pf}' and of a '{:w,.pf}' field reads back as the value rounded half-even at the displayed place, within half a "
                   'unit of that place (4 theorems); (b) for every lifetime, construction-year count, time-steps-per-year stride, row template '
                   'and series a profile table has exactly one row per year in order, row i labelled i+offset (printed exactly) and reading '
                   'every series at index i*stride - also when the cells are expressions over the series (ratios to the first entry, /1E6, '
                   'percent of heat mined) evaluated by the float model; the cash-flow table has cy+n rows with OPEX 0 in construction years; a '
                   'table is missing only on an IndexError (7 theorems); every per-year row template of the CURRENT writers (regenerated '
                   'from the sources) starts with its year label (1 theorem); (c) the float model that computes derived figures from the snapshot '
                   'quantities: rounding to 53 bits is within half a unit of the last bit for every integer and exponent, x+y, x-y, x*y are the '
                   'exact result rounded once, printed extremes are elements of the series (5 theorems); (d) the unit clause in a small model '
                   'of (value, CurrentUnits, PreferredUnits) and the conversion pass: lines labelled from CurrentUnits state the quantity, '
                   'the full clause is REFUTED for lines labelled from PreferredUnits (holds when no unit was requested) and for value x 100 '
                   'next to the unscaled unit (holds with a literal %) (6 theorems). 23 theorems, all closed under the global context. '
                   'Tied to the code: Model/Fmt.v vs CPython on thousands of values incl. decimal ties (fixed, comma, e/E, g, repr, round, '
                   'int); Model/Float.v vs Python/numpy on thousands of operations and arrays (+ - * /, builtin sum, numpy pairwise '
                   'sum/average, max/min); the writers extracted with ast (Outputs, OutputsAddOns, OutputsS_DAC_GT, SUTRAOutputs) must match '
                   'the frozen, reviewed label -> quantity/unit/format/condition specification spec/report_spec.json; every line and table '
                   'cell of every generated report must equal the specification evaluated on the Model snapshot: leaves are snapshot values, '
                   'sums / ratios / percentages / averages / extremes are computed by the Coq float model, the text by the Coq formatting '
                   'model. Runs: shipped examples, every end-use x plant x economic-model cell, configurations targeted at every guard '
                   'conjunction of the specification (the evidence lists runs per specification line and the lines no run can reach), '
                   'lifetimes 2..100, 1..14 construction years, output-unit requests. Unit clause (label == CurrentUnits at print time of '
                   'the parameter shown; value x 100 only with %; converted columns need their unit in the header) is an oracle on the same '
                   'runs, not a theorem; it is REFUTED on the pinned tree for the input classes recorded as known findings.'),
    'level_note': ('Trusted: Coq kernel + vm_compute; the Python harness (snapshot observer, the evaluator of the LEAVES and guards of the '
                   'specification on the snapshot, the translator of printed expressions into terms of the float model, the ast generator); '
                   'the frozen specification is a reviewed copy of the pinned writers, so a figure that was already wrong when the '
                   'specification was reviewed is only caught by the unit / percent / header oracles and the review notes. Figures outside '
                   'the float model (nan, inf, -0.0, division by zero, expressions the translator does not cover) fall back to the value the '
                   'harness computed with numpy (counted in the evidence). Not claimed: OutputsRich/HTML, date/time lines, the {:e}/{:g} value '
                   'theorems (those formats are tied to CPython only), division of the float model (tied to Python only), lines behind the '
                   'external TOUGH2 executable, lifetime 1 (the simulator itself fails with IndexError before any report).'),
    'technique': 'Coq proof about an executable Gallina model + kernel-evaluated correspondence with the implementation',
    'rule': ('(a) doubles drawn from one PRNG: exact binary ties at a decimal place and their neighbours, carries near powers of ten, '
             'short decimals, raw bit patterns, specials; each formatted by CPython and by the Coq model, compared in Coq; distinct = '
             'distinct (kind, width, precision, value). (b) whole runs through GEOPHIRESv3.main(): shipped examples, every end-use x plant '
             'cell with the economic model rotating (thorough: every cell x model), lifetime/construction-year/time-step sweeps, random '
             'configurations, output-unit requests; a run is non-trivial/distinct by the set of specification lines it exercises; '
             'evaluations = printed figures checked.'),
    'trusted_base': ['Coq 8.16.1 kernel + vm_compute (no native_compute)',
                     'all C09 theorems: Closed under the global context (no axioms)',
                     'hand-written models coq/Model/Fmt.v, coq/Model/Float.v, coq/Model/Report.v tied to CPython / numpy / the report writers by kernel-evaluated '
                     'correspondence (tools/props/C09.py, tools/lib/c09*.py, tools/gen/c09_report.py: unverified Python)',
                     'spec/report_spec.json: frozen reviewed copy of what the pinned writer prints'],
    'modelled': ["CPython float formatting: format(x,'w.pf'), 'w,.pf', 'w.pe', 'w.pE', 'w.pg', repr(float), round(float,n), str(int)",
                 'Outputs.PrintOutputs line layout and the per-year loops (IndexError as None)',
                 'binary64 + - * /, Python sum, numpy pairwise sum / average / max / min (Model/Float.v; numpy 1.26 summation order)',
                 'SUTRAOutputs / OutputsAddOns / OutputsS_DAC_GT .PrintOutputs', 'pint conversion factors (checked to 1e-9)'],
    'assumptions': ['doubles in the normal range (no subnormals) for repr/round', 'the hook snapshot and the print-time snapshot are faithful copies of the Model',
                    'leaves and guards of the frozen specification are read from the snapshot by Python; fallback figures are computed with the same numpy as the writer',
                    'primitive 63-bit integers are used only as literals of the correspondence shards (Model/FloatLit.v), never in a theorem'],
    'fingerprint': [('src/geophires_x/Outputs.py', 'Outputs.PrintOutputs'), ('src/geophires_x/Outputs.py', 'Outputs._convert_units'),
                    ('src/geophires_x/OutputsAddOns.py', 'OutputsAddOns.PrintOutputs'),
                    ('src/geophires_x/OutputsS_DAC_GT.py', 'OutputsS_DAC_GT.PrintOutputs'),
                    ('src/geophires_x/SUTRAOutputs.py', 'SUTRAOutputs.PrintOutputs')],
}

GENERATORS = (gen.g,)


def corpus(part):
    """regression seeds corpus/C09/*.json of one part ('fmt' | 'report'), always run first"""
    out = []
    for f in sorted((fw.VERIF / 'corpus' / 'C09').glob('*.json')):
        d = json.loads(f.read_text())
        if d.get('part') == part:
            out.append(d)
    return out


# ---------------------------------------------------------------------------------------------------------
# part 1: the formatting model against CPython
# ---------------------------------------------------------------------------------------------------------
def fmt_correspondence(ctx):
    cs = [(k, w, p, float.fromhex(x) if isinstance(x, str) else x) for k, w, p, x in corpus('fmt')[0]['cases']] if corpus('fmt') else []
    cs += c09fmt.cases(ctx.rng, ctx.n(2000, 40000))
    terms = [c09fmt.eq_term(k, w, p, x, c09fmt.python(k, w, p, x)) for k, w, p, x in cs]
    nfmt = len(terms)
    # the readers of the theorems (parse_dec, parse_dec_comma, parse_sci) against Python's own reading of the printed text
    reads = [(c, c09fmt.parse_term(c[0], c09fmt.python(*c))) for c in cs[::3]]
    reads = [(c, t) for c, t in reads if t is not None and abs(c[3]) < 1e60]
    terms += [t for _, t in reads]
    cs = cs + [('read:' + c[0], c[1], c[2], c[3]) for c, _ in reads]
    bad = c09fmt.kernel_bools(ctx, 'fmt', ['Model.Fmt', 'Model.Float', 'Model.FloatLit'], terms)
    ctx.count('format-vs-cpython', evaluations=len(cs), nontrivial_keys=[(k, w, p, repr(x)) for k, w, p, x in cs],
              kind={k: sum(1 for c in cs if c[0] == k) for k in sorted({c[0] for c in cs})})
    ctx.sample('format-vs-cpython', [[k, w, p, repr(x), c09fmt.python(k, w, p, x)] for k, w, p, x in cs[60:63]])
    for i in bad[:5]:
        k, w, p, x = cs[i]
        if k.startswith('read:'):
            ctx.violate('corr', f'fmt:{k}:{w}.{p}', f'Model/Fmt.v reads the text {c09fmt.python(k[5:], w, p, x)!r} differently from Python',
                        inp={'part': 'fmt', 'kind': k, 'w': w, 'p': p, 'x': float(x).hex()})
            continue
        ctx.violate('corr', f'fmt:{k}:{w}.{p}', f'Model/Fmt.v and CPython disagree on format kind {k} width {w} precision {p} of {x!r}',
                    inp={'part': 'fmt', 'kind': k, 'w': w, 'p': p, 'x': float(x).hex() if k != 'I' else x},
                    observed=c09fmt.python(k, w, p, x), expected='text computed by the Coq model (see replay)')


def float_correspondence(ctx):
    """Model/Float.v (binary64 + - * /, Python sum, numpy pairwise sum / average / max / min) against Python and numpy"""
    cs = c09fmt.float_cases(ctx.rng, ctx.n(500, 6000), ctx.n(60, 700))
    bad = c09fmt.kernel_bools(ctx, 'float', ['Model.Fmt', 'Model.Float', 'Model.FloatLit'], [t for _, t in cs], shard=400)
    ctx.count('float-model-vs-numpy', evaluations=len(cs), nontrivial_keys=[repr(d) for d, _ in cs],
              kind={k: sum(1 for d, _ in cs if d[0] == k) for k in {d[0] for d, _ in cs}})
    ctx.sample('float-model-vs-numpy', [repr(d) for d, _ in cs[:3]])
    for i in bad[:5]:
        d = cs[i][0]
        ctx.violate('corr', f'float:{d[0]}', f'Model/Float.v and Python/numpy disagree on {d}', inp={'part': 'float', 'case': repr(d), 'term': cs[i][1][:3000]})


# ---------------------------------------------------------------------------------------------------------
# part 2: what the writer prints now (generator) against the frozen specification
# ---------------------------------------------------------------------------------------------------------
def sig(c, n):
    return json.dumps([c, n['parts']], sort_keys=True)


def other_nodes(tree):
    out = []

    def walk(nodes, c):
        for n in nodes:
            if n['t'] in ('set', 'def', 'call'):
                out.append((json.dumps(c), json.dumps({k: v for k, v in n.items() if k != 'id'}, sort_keys=True)))
            elif n['t'] == 'if':
                walk(n['body'], c + (('if', n['cond']),))
                walk(n['orelse'], c + (('else', n['cond']),))
            elif n['t'] == 'for':
                walk(n['body'], c + (('for', n['var'], n['iter']),))
    for _, sub in gen.parts_of(tree):
        walk(sub['body'], ())
    return out


def cosmetic(a, b):
    """two templates print the same quantities with the same words; only field width / precision / spacing differ"""
    if len(a) != len(b):
        return False
    for x, y in zip(a, b):
        if x[0] != y[0]:
            return False
        if x[0] == 'lit' and x[1].split() != y[1].split():
            return False
        if x[0] == 'fld' and (x[2] != y[2] or c09fmt.parse_spec(x[1])[0] != c09fmt.parse_spec(y[1])[0]):
            return False
        if x[0] == 'str' and x[1] != y[1]:
            return False
    return True


def spec_drift(spec, cur, cosmetics=None):
    """-> list of (frozen node id or None, label, description): lines the writer prints differently from the specification.
    Differences of layout only (width, precision, spacing) are adopted into `spec` in place and listed in `cosmetics`."""
    cosmetics = cosmetics if cosmetics is not None else []
    sw, cw = gen.writes(spec), gen.writes(cur)
    ssig = {}
    for c, n in sw:
        ssig.setdefault(sig(c, n), []).append(n)
    csig = {}
    for c, n in cw:
        csig.setdefault(sig(c, n), []).append(n)
    drift = []
    gone = [n for s, ns in ssig.items() for n in ns[len(csig.get(s, [])):]]
    new = [n for s, ns in csig.items() for n in ns[len(ssig.get(s, [])):]]
    new_by_label = {}
    for n in new:
        new_by_label.setdefault(gen.label_of(n), []).append(n)
    ctx_of = {id(n): c for c, n in cw}
    sctx_of = {id(n): c for c, n in sw}
    for n in gone:
        lab = gen.label_of(n)
        twin = new_by_label.get(lab, [])
        if twin:
            m = twin.pop(0)
            new.remove(m)
            if ctx_of[id(m)] == sctx_of[id(n)] and cosmetic(n['parts'], m['parts']):
                n['parts'] = m['parts']      # same quantities, same text: only width / precision / spacing moved
                cosmetics.append(lab)
                continue
            drift.append((n['id'], lab, f'line {m["line"]} now prints {m["parts"]} under a possibly different condition; specified {n["parts"]}'))
        else:
            drift.append((n['id'], lab, 'specified line is no longer printed (or its condition changed)'))
    for m in new:
        drift.append((None, gen.label_of(m), f'line {m["line"]} is not in the specification: {m["parts"]}'))
    so, co = other_nodes(spec), other_nodes(cur)
    for x in so:
        if x not in co:
            drift.append((('stmt', x[1]), 'stmt', f'specified statement missing from the writer: {x[1][:200]}'))
    for x in co:
        if x not in so:
            drift.append((('new', x[1]), 'stmt', f'statement not in the specification: {x[1][:200]}'))
    if spec.get('helpers') != cur.get('helpers') or spec.get('consts') != cur.get('consts'):
        drift.append((None, 'helpers', 'label helpers / constants differ from the specification'))
    return drift


# ---------------------------------------------------------------------------------------------------------
# part 3: real reports against the specification rendered on the snapshot, formatted by the Coq model
# ---------------------------------------------------------------------------------------------------------
OVERRIDES = [('Net Electricity Production', 'kW'), ('Pumping Power', 'kW'), ('Heat Extracted', 'kW'), ('Bottom-hole temperature', 'degF'),
             ('Net Electricity Production', 'GW'), ('Pumping Power', 'W'), ('Bottom-hole temperature', 'degK'), ('Heat Extracted', 'GW')]


def unit_override_lines(i):
    """output-unit requests ('Units:<output name>, <unit>') that the simulator honours; i selects which"""
    picks = [OVERRIDES[i % len(OVERRIDES)]] + ([OVERRIDES[(i * 3 + 1) % len(OVERRIDES)]] if i % 2 else [])
    return ''.join(f'Units:{n}, {u}\n' for n, u in dict(picks).items())


def override(p, pairs, drop=()):
    """replace / append (name, value) pairs in a configuration, dropping the names in `drop`; escalation start years are kept in range"""
    names = {k for k, _ in pairs} | set(drop)
    out = [(k, v) for k, v in p if k not in names] + [(k, configs.fmt(v)) for k, v in pairs]
    return [(k, str(min(int(v), 100)) if k.endswith('Escalation Start Year') else v) for k, v in out]


COST_INPUTS = ('Total Capital Cost', 'Total O&M Cost', 'Well Drilling and Completion Capital Cost', 'Reservoir Stimulation Capital Cost',
               'Surface Plant Capital Cost', 'Field Gathering System Capital Cost', 'Exploration Capital Cost', 'Wellfield O&M Cost',
               'Surface Plant O&M Cost', 'Water Cost')
ADDON = [('Do AddOn Calculations', 'True'), ('AddOn Nickname 1', 'a1'), ('AddOn CAPEX 1', 12.5), ('AddOn OPEX 1', 0.35),
         ('AddOn Electricity Gained 1', 21000), ('AddOn Heat Gained 1', 3300), ('AddOn Profit Gained 1', 1.25)]
REDRILL = [('Reservoir Model', 4), ('Drawdown Parameter', 0.02), ('Maximum Drawdown', 0.12), ('Plant Lifetime', 25)]
FRACTURES = lambda shape, volopt: [('Fracture Shape', shape), ('Fracture Height', 700), ('Fracture Width', 500), ('Number of Fractures', 12),
                                   ('Fracture Separation', 60), ('Reservoir Volume Option', volopt), ('Reservoir Volume', '3e8')]


def targeted(ctx):
    """configurations aimed at the guard conjunctions of the specification that random generation reaches rarely: fixed total capital /
    O&M cost with and without redrilling, every fracture shape x reservoir-volume option, add-on and S-DAC-GT sections in every
    sub-branch, non-pumped production wells; all with non-neutral cost components"""
    rnd = ctx.rng
    T = []

    def add(name, pairs, drop=(), **kw):
        base = configs.synthetic(rnd, addons=False, overpressure=False, **{'resmodel': 4, 'tspy': rnd.choice([1, 2, 4]), 'life': rnd.choice([5, 10, 15, 20, 30]), **kw})
        T.append((f'target:{name}', runner.params_to_text(override(base, pairs, drop))))

    for j, eu in enumerate([1, 2, 31] if ctx.quick else configs.ENDUSES):
        pl = 2 if eu != 2 else 9
        add(f'capfixed+redrill-eu{eu}', REDRILL + [('Total Capital Cost', 61.7 + j)], drop=['Total O&M Cost'], enduse=eu, plant=pl, econ=1 + j % 3)
        add(f'capfixed+oamfixed-eu{eu}', [('Total Capital Cost', 48.3 + j), ('Total O&M Cost', 2.45 + j), ('Maximum Drawdown', 1)], enduse=eu, plant=pl, econ=1 + (j + 1) % 3)
        add(f'redrill+components-eu{eu}', REDRILL + [('Well Drilling and Completion Capital Cost', 17.3), ('Reservoir Stimulation Capital Cost', 3.9)],
            drop=['Total Capital Cost', 'Total O&M Cost'], enduse=eu, plant=pl, econ=1 + (j + 2) % 3)
    for j, pl in enumerate(configs.HEAT_PLANTS if ctx.quick else configs.HEAT_PLANTS * 2):
        if pl == 7 and ctx.quick:     # district heating costs 5-10 s a run: one targeted run in the quick tier
            add('components-plant7', [], drop=COST_INPUTS, enduse=2, plant=7, econ=2, life=5, tspy=2)
            continue
        add(f'oamfixed-plant{pl}', [('Total O&M Cost', 1.85 + j)], drop=['Total Capital Cost'], enduse=2, plant=pl, econ=1 + j % 3)
        add(f'components-plant{pl}', [], drop=COST_INPUTS, enduse=2, plant=pl, econ=1 + (j + 1) % 3)
    for j, (shape, volopt, rm) in enumerate([(1, 1, 1), (2, 2, 1), (3, 3, 2), (4, 1, 2), (4, 4, 1)]):
        add(f'fractures-shape{shape}-vol{volopt}-model{rm}', FRACTURES(shape, volopt) + [('Reservoir Model', rm)],
            drop=['Drawdown Parameter'], resmodel=4, enduse=[1, 2, 31, 1, 2][j], plant=[1, 9, 2, 3, 9][j], life=rnd.choice([5, 10, 20]))
    for j, eu in enumerate([1, 2, 31, 52] if ctx.quick else configs.ENDUSES):
        pl = [2, 9, 1, 4][j % 4] if eu != 2 else 9
        add(f'addons-eu{eu}', ADDON, enduse=eu, plant=pl, econ=1 + j % 3, cy=1 if j % 2 == 0 else rnd.choice([2, 4]))
        add(f'sdac-eu{eu}', [('Do S-DAC-GT Calculations', 'True')], enduse=eu, plant=pl, econ=1 + (j + 1) % 3)
    add('addons-zero-totals', ADDON[:2] + [('AddOn CAPEX 1', 0), ('AddOn OPEX 1', 0), ('AddOn Profit Gained 1', 0.4)], enduse=1, plant=2, cy=1)
    add('addons+sdac', ADDON + [('Do S-DAC-GT Calculations', 'True')], enduse=1, plant=1, econ=3, cy=3)
    add('artesian', [('Productivity Index', 9.5), ('Injectivity Index', 8.5), ('Production Wellhead Pressure', 400), ('Reservoir Depth', 3.1)],
        drop=['Reservoir Impedance'], enduse=1, plant=3)
    return T


# shipped examples of the quick tier (the others add no report branch beyond the targeted configurations: thorough tier)
QUICK_EXAMPLES = {'Wanju_Yuan_Closed-Loop_Geothermal_Energy_Recovery.txt', 'Fervo_Norbeck_Latimer_2023.txt', 'example1_addons.txt',
                  'S-DAC-GT.txt', 'example3.txt', 'example_overpressure.txt', 'example_multiple_gradients.txt', 'example10_HP.txt',
                  'example11_AC.txt', 'example13.txt', 'example5.txt', 'example2.txt'}


def build_inputs(ctx):
    """[(name, input text)]: corpus, shipped examples, every end-use x plant cell (x economic model in the thorough tier),
    lifetime / construction-year / time-step sweeps, random configurations, runs with output-unit requests."""
    rnd = ctx.rng
    out = [(c['name'], c['input']) for c in corpus('report')]
    out += [(n, t) for n, t in configs.example_texts(ctx, slow=not ctx.quick) if not ctx.quick or n in QUICK_EXAMPLES]
    out += targeted(ctx)
    sutra = dict(configs.example_texts(ctx, slow=True)).get('SUTRAExample1.txt')
    if sutra:   # the SUTRA writer (its own PrintOutputs): the shipped example and variants through every guard of that writer
        variants = [('', [])] if ctx.quick else [('-fcr', [('Economic Model', 1), ('Fixed Charge Rate', 0.07)]),
                                                 ('-bicycle', [('Economic Model', 3), ('Inflation Rate During Construction', 0.04)]),
                                                 ('-discount9', [('Discount Rate', 0.09), ('Well Drilling Cost Correlation', 3)])]
        if ctx.quick:
            variants += [('-bicycle', [('Economic Model', 3), ('Inflation Rate During Construction', 0.04)]),
                         ('-fcr', [('Economic Model', 1), ('Fixed Charge Rate', 0.07)])]
        out += [(f'SUTRAExample1{s}', sutra + '\n' + runner.params_to_text(pairs)) for s, pairs in variants]
    ex1 = dict(configs.example_texts(ctx)).get('example1.txt', '')
    for i in range(ctx.n(2, 24)):
        out.append((f'example1+units{i}', ex1 + '\n' + unit_override_lines(i + 1)))
    if ctx.quick:   # every end-use x plant cell once, economic model rotating; then random configurations
        cells = [(eu, pl) for eu in configs.ENDUSES for pl in (configs.ELEC_PLANTS if eu != 2 else configs.HEAT_PLANTS)]
        ps = [configs.synthetic(rnd, enduse=eu, plant=pl, econ=1 + j % 3, resmodel=rnd.choice([3, 4]),
                                life=rnd.choice([2, 5, 10, 20, 25]), tspy=rnd.choice([1, 2, 4])) for j, (eu, pl) in enumerate(cells)]
        ps += configs.grid(ctx, 3, cover_cells=False)
        sweep = [(1, 1), (1, 14), (2, rnd.randint(2, 13)), (3, rnd.randint(2, 13)), (7, 1), (30, rnd.randint(2, 13)), (100, 1),
                 (100, rnd.randint(2, 14))]
    else:
        ps = configs.grid(ctx, 400)
        sweep = [(life, cy) for life in (1, 2, 3, 4, 5, 7, 10, 20, 30, 40, 50, 75, 100) for cy in (1, 2, 5, 14)]
    for i, p in enumerate(ps):
        out.append((f'grid{i}', runner.params_to_text(p)))
    for life, cy in sweep:
        tspy = rnd.choice([1, 2, 4, 12]) if life < 60 else rnd.choice([1, 2])
        p = configs.synthetic(rnd, resmodel=4, life=life, cy=cy, tspy=tspy, addons=False)
        out.append((f'sweep-life{life}-cy{cy}-tspy{tspy}', runner.params_to_text(override(p, []))))
    for i in range(ctx.n(4, 40)):
        p = configs.synthetic(rnd, resmodel=rnd.choice([3, 4]), addons=False)
        out.append((f'units{i}', runner.params_to_text(p) + unit_override_lines(i)))
    return out


def runtime_label(items):
    """the label a reader sees: the line's text before its first figure, up to the colon"""
    text = ''
    for it in items:
        if it['k'] not in ('lit', 'txt'):
            break
        text += it['s']
    return ' '.join(text.split()).split(':')[0][:70]


class Collector:
    """Coq terms of the numeric lines / tables of one batch, grouped by run (a run's terms share its `let` series)."""

    def __init__(self):
        self.groups = []      # [(run name, lets prefix, [(term, origin)])]
        self.cur = []

    def add(self, term, origin):
        self.cur.append((term, origin))

    def close_run(self, name, R):
        if self.cur:
            self.groups.append((name, R.defs(), self.cur))
        self.cur = []


def node_index(spec):
    return {n['id']: (c, n) for c, n in gen.writes(spec)}


def check_run(ctx, spec, nodes, name, text, r, col, stats):
    """One report against the specification.  Files property violations for what Python can decide (unit labels, line
    counts, literal lines); numeric lines and tables go to the collector for the Coq model."""
    snap = r.get('snap_post')
    if snap is None or r['report'] is None:      # the simulator rejected the input (or failed) before any report existed
        stats['rejected'] += 1
        stats['rejected:' + name.split('-')[0].split(':')[0]] += 1
        if stats['rejected'] <= 8:
            ctx.note(f'input {name} was rejected by the simulator: {str(r["error"])[:120]}')
        return None
    if not r['ok']:
        stats['runs_ending_in_an_error_after_calculate'] += 1
    R = rep.Renderer(spec, snap, tag=stats['runs'] + stats['rejected'] + 1)
    try:
        lines = R.run()
    except rep.SpecError as e:
        ctx.violate('corr', f'spec-eval:{str(e)[:60]}', f'the specification cannot be evaluated on the snapshot of {name}: {e}',
                    inp={'part': 'report', 'name': name, 'input': text})
        return R
    if not R.conv_pass:
        ctx.violate('corr', 'spec:no-conversion-pass', 'specification has no unit-conversion pass')
    actual = r['report'].split('\n')
    if actual and actual[-1] == '':
        actual.pop()
    pos = 0
    for ri, rec in enumerate(lines):
        if rec['t'] == 'table':
            rows = actual[pos:pos + rec['n']]
            origin = {'name': name, 'at': pos, 'kind': 'table', 'label': f'table@spec-line-{nodes[rec["nids"][0]][1]["line"]}', 'rec': rec, 'rows': rows}
            if len(rows) < rec['n']:
                ctx.violate('property', f'rows:{origin["label"]}', f'{name}: report ends inside a profile table ({len(rows)} of {rec["n"]} rows)',
                            inp={'part': 'report', 'name': name, 'input': text}, expected=rec['n'], observed=len(rows))
            else:
                col.add(rep.table_term(rec, rows), origin)
                header = ' '.join(actual[max(0, pos - 4):pos])      # a converted column needs its unit in the table header
                for src in rec['srcs']:
                    for q in (R.roots(src) if simple_figure(src) else []):
                        cur, pref = q.rec.get('cur'), q.rec.get('pref')
                        if cur != pref and q.rec.get('k') == 'out' and f'({cur})' not in header:
                            ctx.violate('property', f'table-header-unit:{origin["label"]}:{q.Name}',
                                        f'{name}: the column of {q.Name} in {origin["label"]} holds values in {cur!r} but the header does not say so',
                                        inp={'part': 'report', 'name': name, 'input': text}, expected=f'({cur})', observed=header[-200:])
                stats['cells'] += rec['n'] * (len(rec['cols']) + 1)
                stats['tables'] += 1
            pos += rec['n']
            continue
        items = rec['items']
        act = actual[pos] if pos < len(actual) else None
        pos += 1
        lab = runtime_label(items)
        if act is None:
            nxt = next((runtime_label(x['items']) for x in lines[ri:] if x['t'] == 'line'
                        and any(ch.isalpha() for ch in runtime_label(x['items']))), lab)
            kind = 'lines:missing' if r['ok'] else 'writer-abort'
            ctx.violate('property', f'{kind}:{nxt}', f'{name}: the report ends before "{nxt}"' + ('' if r['ok'] else f' (the writer aborted: {r["error"]})'),
                        inp={'part': 'report', 'name': name, 'input': text}, expected=rep.python_text(items), observed=None)
            break
        if any(it['k'] == 'vol' for it in items):
            stats['volatile'] += 1
            continue
        origin = {'name': name, 'at': pos - 1, 'kind': 'line', 'label': lab, 'items': items, 'actual': act}
        if all(it['k'] in ('lit', 'txt') for it in items):
            if ''.join(it['s'] for it in items) != act:
                ctx.violate('property', f'line:{lab}', f'{name}: report line {pos} is not the specified line "{lab}" (text changed, or a line / table row is missing or extra before it)',
                            inp={'part': 'report', 'name': name, 'input': text, 'line': pos - 1},
                            expected=''.join(it['s'] for it in items), observed=act)
                stats['runs'] += 1
                return R     # alignment with the specification is lost from here on
            stats['literal_lines'] += 1
        else:
            col.add(rep.line_term(items, act), origin)
            stats['numeric_lines'] += 1
            stats['cells'] += sum(1 for it in items if it['k'] not in ('lit', 'txt'))
        unit_clause(ctx, R, name, text, lab, items, act, stats)
    extra = actual[pos:]
    if extra:
        ctx.violate('property', 'lines:extra', f'{name}: {len(extra)} report lines after the specified report: {extra[:2]}',
                    inp={'part': 'report', 'name': name, 'input': text}, expected='end of report', observed=extra[:5])
    stats['runs'] += 1
    return R


def simple_figure(src):
    """the printed expression is the parameter's value itself (an element, its average / extreme, its negation)"""
    try:
        t = ast.parse(src, mode='eval').body
    except SyntaxError:
        return False
    while True:
        if isinstance(t, ast.Call) and len(t.args) == 1 and not t.keywords and ast.unparse(t.func) in (
                'np.average', 'np.max', 'np.min', 'np.mean', 'max', 'min', 'float', 'o'):
            t = t.args[0]
        elif isinstance(t, ast.Subscript):
            t = t.value
        elif isinstance(t, ast.UnaryOp):
            t = t.operand
        elif isinstance(t, ast.BinOp) and isinstance(t.op, ast.Mult) and isinstance(t.left, ast.UnaryOp | ast.Constant) \
                and ast.unparse(t.left) in ('-1', '1'):
            t = t.right
        elif isinstance(t, ast.Attribute) and t.attr == 'value':
            return all(isinstance(x, (ast.Attribute, ast.Name, ast.Call, ast.Load)) for x in ast.walk(t.value))
        else:
            return False


def unit_clause(ctx, R, name, text, lab, items, act, stats):
    """printed unit == CurrentUnits (at print time) of the parameter the figure is; a figure scaled by 100 is a percentage;
    a figure derived from several quantities of one kind needs them in one unit"""
    last_num = None
    inp = {'part': 'report', 'name': name, 'input': text, 'label': lab}
    for idx, it in enumerate(items):
        if it['k'] == 'num':
            last_num = it
            roots = R.roots(it['src'])
            nxt = items[idx + 1] if idx + 1 < len(items) else None
            if rep.scaled_by_100(it['src']) and roots:
                unit_item = items[idx + 2] if idx + 2 < len(items) and items[idx + 2]['k'] == 'txt' else None
                lit_pct = nxt is not None and nxt['k'] == 'lit' and nxt['s'].strip().startswith('%')
                stats['percent_lines'] += 1
                if not lit_pct and unit_item is not None and rep.UNIT_RE.match(unit_item.get('src', '')) and unit_item['s'] != '%':
                    ctx.violate('property', f'percent-unit:{lab}',
                                f'{name}: "{lab}" prints {roots[0].Name} x 100 but labels it with the unit of the unscaled quantity ({unit_item["s"]!r})',
                                inp=inp, expected=f'{it["v"]:.4g} %  (or {roots[0].value!r} {unit_item["s"]!r})', observed=act.strip())
            if len(roots) >= 2 and not simple_figure(it['src']):
                by_type = {}
                for x in roots:
                    if x.rec.get('utype') is not None and x.rec.get('cur') != x.rec.get('pref'):
                        by_type.setdefault(x.rec['utype'], set()).add(x.rec.get('cur'))
                for x in roots:
                    if x.rec.get('utype') in by_type:
                        by_type[x.rec['utype']].add(x.rec.get('cur'))
                mixed = {k: sorted(map(str, v)) for k, v in by_type.items() if len(v) > 1}
                if mixed:
                    ctx.violate('property', f'mixed-units:{lab}', f'{name}: "{lab}" combines quantities held in different units {mixed}',
                                inp=inp, expected='operands in one unit', observed=act.strip())
        elif it['k'] == 'txt' and last_num is not None:
            m = rep.UNIT_RE.match(it.get('src', ''))
            roots = R.roots(last_num['src'])
            if not m or not roots:
                continue
            if not simple_figure(last_num['src']):
                stats['unit_labels_of_derived_figures'] += 1
                continue
            stats['unit_labels'] += 1
            want = {x.CurrentUnits.value for x in roots}
            owner = R.roots(m.group(1) + '.value')
            kind = 'current' if m.group(2) == 'CurrentUnits' else 'preferred'
            own = 'own' if owner and any(owner[0] is x for x in roots) else 'other'
            stats[f'unit_source:{kind}-{own}'] += 1
            if it['s'] not in want:
                ctx.violate('property', f'unit:{kind}-{own}:{lab}',
                            f'{name}: "{lab}" shows a figure held in {sorted(want)} but labels it {it["s"]!r} (label taken from {it["src"]})',
                            inp=inp, expected=sorted(want), observed=act.strip())


def prepost_clause(ctx, name, text, r, stats):
    """the conversion pass may change a value only together with its unit, and then by that unit's factor (pint, 1e-9)"""
    pre, post = r.get('snap'), r.get('snap_post')
    if not pre or not post:
        return
    ureg = None
    for comp in ('reserv', 'wellbores', 'surfaceplant', 'economics'):
        for attr, a in pre.get(comp, {}).items():
            b = post.get(comp, {}).get(attr)
            if attr.startswith('__') or not isinstance(b, dict) or a.get('value') == b.get('value'):
                continue
            stats['converted_quantities'] += 1
            if a.get('cur') == b.get('cur'):
                if isinstance(a['value'], float) and isinstance(b['value'], float) and math.isnan(a['value']) and math.isnan(b['value']):
                    continue
                ctx.violate('property', f'prepost:{comp}.{attr}', f'{name}: {comp}.{attr} changed between Calculate() and the report '
                            f'without a unit change ({a["value"]!r} -> {b["value"]!r} {a.get("cur")})'[:300],
                            inp={'part': 'report', 'name': name, 'input': text})
                continue
            try:
                if ureg is None:
                    from geophires_x.Units import get_unit_registry, convertible_unit
                    ureg = get_unit_registry()
                import numpy as np
                want = ureg.Quantity(np.array(a['value'], dtype=float), convertible_unit(a['cur'])).to(convertible_unit(b['cur'])).magnitude
                ok = np.allclose(want, np.array(b['value'], dtype=float), rtol=1e-9, atol=1e-12)
            except Exception:
                stats['conversion_not_checked'] += 1
                continue
            if not ok:
                ctx.violate('property', f'prepost:{comp}.{attr}', f'{name}: {comp}.{attr} is not its computed value converted from {a.get("cur")} to {b.get("cur")}',
                            inp={'part': 'report', 'name': name, 'input': text})


def report_correspondence(ctx, spec, inputs, proofs_ok, batch=160):
    from collections import Counter
    stats = Counter()
    nodes = node_index(spec)
    executed = set()
    per_line = Counter()      # specification line -> number of runs that print it
    before = len(ctx.violations)
    sigs = set()
    nterms = 0
    tsim = tcoq = 0.0
    req = ['Model.Fmt', 'Model.Float', 'Model.FloatLit', 'Model.Report', 'Gen.ReportLits']
    for lo in range(0, len(inputs), batch):     # bounded memory: snapshots of one batch at a time
        chunk = inputs[lo:lo + batch]
        col = Collector()
        t0 = time.time()
        res = c09run.run_many(ctx, [t for _, t in chunk])
        tsim += time.time() - t0
        for (name, text), r in zip(chunk, res):
            R = check_run(ctx, spec, nodes, name, text, r, col, stats)
            prepost_clause(ctx, name, text, r, stats)
            if R is not None:
                col.close_run(name, R)
                executed |= R.executed | {('stmt', s) for s in R.executed_stmts}
                per_line.update(R.executed)
                sigs.add(tuple(sorted(R.executed)))
                stats.update({f'figures:{k}': v for k, v in R.translation.items()})
        del res
        nterms += sum(len(g[2]) for g in col.groups)
        t0 = time.time()
        bad = sorted(c09fmt.kernel_groups(ctx, f'report{lo}', req, [(g[1], [x[0] for x in g[2]]) for g in col.groups]))
        # second pass on what failed: is the line inside the float model at all, and does it hold with the harness's own figures?
        second = []
        for gi, ti in bad:
            o = col.groups[gi][2][ti][1]
            if o['kind'] == 'line':
                second.append((col.groups[gi][1], [rep.line_defined_term(o['items']), rep.line_term(o['items'], o['actual'], plain=True)]))
            else:
                second.append((col.groups[gi][1], [rep.table_defined_term(o['rec']), rep.table_term(o['rec'], o['rows'], plain=True)]))
        bad2 = c09fmt.kernel_groups(ctx, f'second{lo}', req, second) if second else set()
        tcoq += time.time() - t0
        texts = dict(chunk)
        reported = 0
        for si, (gi, ti) in enumerate(bad):
            o = col.groups[gi][2][ti][1]
            inp = {'part': 'report', 'name': o['name'], 'input': texts[o['name']]}
            if (si, 1) not in bad2:      # the report shows the harness-computed figure
                if (si, 0) in bad2:
                    stats['figures:outside_float_model_fallback'] += 1
                else:
                    ctx.violate('corr', f'float-model:{o["label"]}', f'{o["name"]}: Model/Float.v computes another figure for "{o["label"]}" than numpy/Python '
                                'did (the report agrees with numpy/Python)', inp=inp, observed=o.get('actual') or o.get('rows', [''])[:2])
                continue
            reported += 1
            if reported > 8:
                continue
            if o['kind'] == 'line':
                ctx.violate('property', f'line:{o["label"]}', f'{o["name"]}: the line "{o["label"]}" does not show the specified quantity rounded to the displayed precision with the specified unit text',
                            inp={**inp, 'line': o['at']}, expected=rep.python_text(o['items']), observed=o['actual'])
            else:
                rec, act = o['rec'], o['rows']
                want = rep.python_rows(rec)
                j = next((j for j, (a, b) in enumerate(zip(want, act)) if a != b), 0)
                ctx.violate('property', f'{o["label"]}', f'{o["name"]}: row {j} of the profile table {o["label"]} is not (year label {j}+{rec["off"]}, series at index {j}*{rec["k"]})',
                            inp={**inp, 'line': o['at'] + j}, expected=want[j] if j < len(want) else None, observed=act[j] if j < len(act) else None)
    ctx.count('report-vs-spec', evaluations=stats['cells'], nontrivial_keys=sigs, runs=stats['runs'], rejected_inputs=stats['rejected'])
    ctx.count('report-lines', evaluations=nterms, **{k: {k: v} for k, v in stats.items() if k not in ('cells',)})
    ctx.sample('report-vs-spec', [n for n, _ in inputs[:3]])
    ctx.note(f'report check: {stats["runs"]} runs ({stats["rejected"]} inputs rejected by the simulator), {stats["numeric_lines"]} numeric lines, '
             f'{stats["tables"]} tables, {stats["cells"]} figures, {nterms} distinct Coq evaluations; '
             f'{sum(1 for x in executed if isinstance(x, int))} of {len(nodes)} specified lines exercised; simulator {tsim:.0f} s, Coq {tcoq:.0f} s')
    def why(c):
        conds = [(x[0], x[1]) for x in c if x[0] in ('if', 'else')]
        if any(('else', s) in conds for k, s in conds if k == 'if'):
            return 'dead code: its condition repeats an earlier branch of the same if/elif chain'
        if any('TOUGH2_SIMULATOR' in s and k == 'if' for k, s in conds):
            return 'needs the external TOUGH2 executable (not available offline)'
        if any('cost_one_production_well.value != model.economics.cost_one_injection_well.value' in s and k == 'if' for k, s in conds):
            return 'SUTRAEconomics never assigns the per-well costs: both keep their default, the condition is always false'
        return 'not reached'
    wr = lambda i: 'main' if i < 10000 else 'addons' if i < 20000 else 'sdac' if i < 30000 else 'sutra'
    unex = [(f'{wr(i)}:{n["line"]}', gen.label_of(n)[:40], why(c)) for i, (c, n) in sorted(nodes.items()) if i not in executed]
    ctx.count('spec-line-coverage', exercised=sum(1 for i in nodes if i in executed), total=len(nodes),
              runs_per_line={f'{wr(i)}:{n["line"]}:{gen.label_of(n)[:32]}': per_line[i]
                             for i, (c, n) in sorted(nodes.items())})
    if unex:
        ctx.note(f'specified lines no run exercised ({len(unex)} of {len(nodes)}): {unex}')
    findings = fw.load_findings()
    return executed, sum(1 for v in ctx.violations[before:] if fw.match_finding(findings, ctx.pid, v.key) is None)


def build_shard_libraries(ctx):
    """Model/FloatLit.v (primitive-integer literals) is deliberately outside the cone of Props/C09.v; the shards need its .vo"""
    with fw.coq_lock():
        rc, log = fw.make(['Model/FloatLit.vo', 'Gen/ReportLits.vo'], timeout=600)
    if rc != 0:
        ctx.violate('proof', 'build:FloatLit', 'the literal helpers of the correspondence shards do not build: ' + log[-600:])
    return rc == 0


def correspondence(ctx, proofs_ok=True):
    if not build_shard_libraries(ctx):
        return
    fmt_correspondence(ctx)
    float_correspondence(ctx)
    spec = rep.load_spec()
    cosmetics = []
    try:
        drift = spec_drift(spec, gen.extract(), cosmetics)
    except Exception as e:
        drift = [(None, 'generator', f'the writer can no longer be read by the generator: {e!r}')]
    if cosmetics:
        ctx.note(f'layout-only changes of the writer adopted (same quantity, same words, other width/precision/spacing): {cosmetics[:20]}')
    executed, nviol = report_correspondence(ctx, spec, build_inputs(ctx), proofs_ok)
    ctx.count('writer-vs-spec', evaluations=len(gen.writes(spec)), drift=len(drift))
    for nid, lab, what in drift:
        if nviol == 0 and (nid in executed or (isinstance(nid, tuple) and nid[0] == 'new')):
            ctx.note(f'writer differs from the specification at "{lab}" but every report of this run that prints it agrees with the specification: {what[:200]}')
        else:
            ctx.violate('corr', f'spec-drift:{lab}', f'Outputs.PrintOutputs no longer matches spec/report_spec.json at "{lab}": {what[:300]}',
                        inp={'part': 'drift', 'label': lab})


def search(ctx):
    """violations without a failing input (a drifted line no run reached): run the slow families and more configurations"""
    if ctx.quick:
        spec = rep.load_spec()
        inputs = [(n, t) for n, t in configs.example_texts(ctx, slow=True) if n in configs.SLOW_EXAMPLES]
        inputs += [(f'search{i}', runner.params_to_text(p)) for i, p in enumerate(configs.grid(ctx, 60, cover_cells=False, resmodels=(1, 2, 3, 4)))]
        report_correspondence(ctx, spec, inputs, True)


def replay(ctx, data):
    inp = data.get('input') or {}
    build_shard_libraries(ctx)
    if inp.get('part') == 'fmt' and str(inp.get('kind', '')).startswith('read:'):
        x = float.fromhex(inp['x'])
        text = c09fmt.python(inp['kind'][5:], inp['w'], inp['p'], x)
        bad = c09fmt.kernel_bools(ctx, 'replay', ['Model.Fmt', 'Model.Float', 'Model.FloatLit'], [c09fmt.parse_term(inp['kind'][5:], text)])
        print('Python reads', repr(text), '-> Coq reader agrees:', not bad)
        return 1 if bad else 0
    if inp.get('part') == 'fmt':
        x = float.fromhex(inp['x']) if isinstance(inp['x'], str) else inp['x']
        want = c09fmt.python(inp['kind'], inp['w'], inp['p'], x)
        bad = c09fmt.kernel_bools(ctx, 'replay', ['Model.Fmt', 'Model.Float', 'Model.FloatLit'], [c09fmt.eq_term(inp['kind'], inp['w'], inp['p'], x, want)])
        print('CPython prints', repr(want), '-> Coq model agrees:', not bad)
        return 1 if bad else 0
    if inp.get('part') == 'float':
        bad = c09fmt.kernel_bools(ctx, 'replay', ['Model.Fmt', 'Model.Float', 'Model.FloatLit'], [inp['term']])
        print('Python/numpy:', inp['case'], '-> Coq float model agrees:', not bad)
        return 1 if bad else 0
    if inp.get('part') == 'drift':
        spec = rep.load_spec()
        drift = [d for d in spec_drift(spec, gen.extract()) if d[1] == inp.get('label')]
        for d in drift:
            print('writer vs specification:', d[1], '-', d[2])
        print('property', 'NOT SHOWN (specification tie broken)' if drift else 'holds', 'for this line')
        return 1 if drift else 0
    spec = rep.load_spec()
    before = len(ctx.violations)
    report_correspondence(ctx, spec, [(inp.get('name', 'replay'), inp['input'])], True)
    found = ctx.violations[before:]
    mine = [v for v in found if v.key == data.get('key')]
    findings = fw.load_findings()
    others = [v for v in found if v.key != data.get('key') and fw.match_finding(findings, ctx.pid, v.key) is None]
    for v in (mine + others)[:5]:
        print(f'{v.kind} [{v.key}]: {v.what}\n  specified (formatted by the Coq model): {v.expected!r}\n  report shows: {v.observed!r}')
    known = sorted({v.key for v in found} - {v.key for v in mine + others})
    if known:
        print(f'(known findings also present on this input: {known[:6]}{" ..." if len(known) > 6 else ""})')
    print('property', 'VIOLATED' if mine or others else 'holds', f'on this input (replayed key {data.get("key")!r}'
          f'{" reproduced" if mine else " not reproduced"})')
    return 1 if mine or others else 0
