"""C03 - capital and O&M totals are the sum of their parts."""
import logging
from fractions import Fraction as F
from types import SimpleNamespace as NS

from gen import wellcost
from lib import configs, econ, framework as fw, qconv, runner

TOL = F(1, 10 ** 9)
REQ = ['Model.Costs']

META = {
    'props': 'Props/C03.v',
    'claimed': True,
    'level_text': (
        'Proof: in the Coq model of the cost roll-up, for every combination of the override switches and all values, total capital '
        'cost is the sum of exploration, wells, stimulation, gathering, plant, piping and district-network cost, less the investment '
        'tax credit (exactly rate x that sum, only when a rate is provided), plus one-time fees, less incentives and grants; total O&M '
        'is wellfield + plant + water + chiller + district O&M plus (Cwell+Cstim) x redrillings / lifetime plus annual fees less tax '
        'relief; a valid user total or component is used verbatim; wellfield cost is per-well costs x well counts (+ laterals, x1.05 '
        'indirect costs unless the per-well cost is user-supplied); drilled length is additive in wells and sections; the per-well cost '
        'is the regenerated correlation table\'s quadratic (x adjustment factor) with the per-metre fall-back below 500 m (axiom-free). '
        'Tied to the current code by whole runs over random mixes of fixed / correlated components, incentives, redrilling and all '
        'end-uses (every reported component and both totals recomputed by the Coq model in the kernel, 1e-9) and by direct calls of '
        'the three drilling helpers for all 17 correlations.'),
    'level_note': (
        'Trusted: Coq kernel + vm_compute; Python harness and snapshot observer; float->rational conversion at 15 significant digits. '
        'Modelled as inputs, not verified: the surface-plant, pump and labour cost correlations (log / fractional powers), the district '
        'network cost options. SUTRA and AGS roll-ups are not covered; EavorLoop drilled length (sin) is not modelled.'),
    'rule': ('whole runs: configuration grid (all end-use x plant cells) + random configurations with each cost component independently '
             'user-fixed / adjusted / default, totals fixed in 12 %, ITC / grants / fees / incentives / tax relief, redrilling through '
             'Maximum Drawdown; helper calls: 17 correlations x depths incl. < 500 m and > 7000 m x adjustment factors, 4 configurations. '
             'Non-trivial run: at least one override and one incentive or redrilling; distinct = distinct override-flag vectors'),
    'trusted_base': ['Coq 8.16.1 kernel + vm_compute (no native_compute)',
                     'all C03 theorems: Closed under the global context (no axioms)',
                     'coq/Gen/WellCost.v regenerated from OptionList.WellDrillingCostCorrelation on every run (tools/gen/wellcost.py)',
                     'hand-written model coq/Model/Costs.v tied to Economics.Calculate by kernel-evaluated correspondence on hook '
                     'snapshots and direct helper calls (tools/props/C03.py: unverified Python)'],
    'modelled': ['capital-cost and O&M roll-up of Economics.Calculate (and its copy in SBTEconomics.Calculate, thorough tier)',
                 'Economics.calculate_cost_of_one_vertical_well', 'WellBores.calculate_total_drilling_lengths_m (4 of 5 configurations)',
                 'WellDrillingCostCorrelation.calculate_cost_MUSD'],
    'assumptions': ['plant / pump / labour correlations and district-network cost enter as reported values',
                    'IEEE rounding is not modelled (1e-9 relative comparison)'],
    'fingerprint': [('src/geophires_x/Economics.py', 'Economics.Calculate'),
                    ('src/geophires_x/Economics.py', 'calculate_cost_of_one_vertical_well'),
                    ('src/geophires_x/WellBores.py', 'calculate_total_drilling_lengths_m'),
                    ('src/geophires_x/Economics.py', 'calculate_cost_of_non_vertical_section'),
                    ('src/geophires_x/SBTEconomics.py', 'SBTEconomics.Calculate')],
}

GENERATORS = (wellcost.generate,)

B = qconv.blit
Q = econ.q15


def cost_record(R):
    s = R.s
    P = lambda a: s.p('economics', a)
    v = lambda a: P(a)['value']
    valid = lambda a: bool(P(a)['valid'])
    prov = lambda a: bool(P(a)['provided'])
    pl = lambda a, d=0.0: s.v('economics', a, d)
    corr_c1p, corr_c1i = v('cost_one_production_well'), v('cost_one_injection_well')
    f = {
        'k_ppwc_valid': B(valid('per_production_well_cost')), 'k_ppwc': Q(v('per_production_well_cost')),
        'k_piwc_provided': B(prov('per_injection_well_cost')), 'k_piwc': Q(v('per_injection_well_cost')),
        'k_nprod': Q(s.v('wellbores', 'nprod')), 'k_ninj': Q(s.v('wellbores', 'ninj')),
        'k_c1p_corr': Q(corr_c1p), 'k_c1i_corr': Q(corr_c1i), 'k_lateral': Q(v('cost_lateral_section')),
        'k_sbt': B(R.cls == 'SBTEconomics'), 'k_junction': Q(s.v('economics', 'cost_to_junction_section', 0.0)),
        'k_stim_valid': B(valid('ccstimfixed')), 'k_stim_fixed': Q(v('ccstimfixed')), 'k_stim_adj': Q(v('ccstimadjfactor')),
        'k_gath_valid': B(valid('ccgathfixed')), 'k_gath_fixed': Q(v('ccgathfixed')), 'k_gath_adj': Q(v('ccgathadjfactor')),
        'k_cpumps': Q(pl('Cpumps')),
        'k_plant_valid': B(valid('ccplantfixed')), 'k_plant_fixed': Q(v('ccplantfixed')), 'k_plant_corr': Q(v('Cplant')),
        'k_expl_valid': B(valid('ccexplfixed')), 'k_expl_fixed': Q(v('ccexplfixed')), 'k_expl_adj': Q(v('ccexpladjfactor')),
        'k_piping_len': Q(s.v('surfaceplant', 'piping_length')), 'k_dh': Q(v('dhdistrictcost')),
        'k_total_valid': B(valid('totalcapcost')), 'k_total_fixed': Q(v('totalcapcost')),
        'k_ritc_provided': B(prov('RITC')), 'k_ritc': Q(v('RITC')), 'k_flat': Q(v('FlatLicenseEtc')),
        'k_other': Q(v('OtherIncentives')), 'k_grant': Q(v('TotalGrant')),
        'k_oam_total_valid': B(valid('oamtotalfixed')), 'k_oam_total': Q(v('oamtotalfixed')),
        'k_oamplant_valid': B(valid('oamplantfixed')), 'k_oamplant_fixed': Q(v('oamplantfixed')),
        'k_oamplant_adj': Q(v('oamplantadjfactor')), 'k_labor': Q(pl('Claborcorrelation')),
        'k_oamwell_valid': B(valid('oamwellfixed')), 'k_oamwell_fixed': Q(v('oamwellfixed')), 'k_oamwell_adj': Q(v('oamwelladjfactor')),
        'k_oamwater_valid': B(valid('oamwaterfixed')), 'k_oamwater_fixed': Q(v('oamwaterfixed')),
        'k_oamwater_adj': Q(v('oamwateradjfactor')), 'k_flow': Q(s.v('wellbores', 'prodwellflowrate')),
        'k_waterloss': Q(s.v('reserv', 'waterloss')), 'k_util': Q(s.v('surfaceplant', 'utilization_factor')),
        'k_is_chiller': B(R.plant == 5), 'k_chillercapex': Q(v('chillercapex')),
        'k_chilleropex_provided': B(prov('chilleropex')), 'k_chilleropex_in': Q(v('chilleropex')),
        'k_dh_oam': Q(v('dhdistrictoandmcost')),
        'k_redrill': Q(s.v('wellbores', 'redrill')), 'k_life': Q(R.life), 'k_annual_fee': Q(v('AnnualLicenseEtc')),
        'k_taxrelief': Q(v('TaxRelief')),
    }
    out = {'o_c1p': corr_c1p, 'o_c1i': corr_c1i, 'o_cwell': v('Cwell'), 'o_cstim': v('Cstim'), 'o_cgath': v('Cgath'),
           'o_cplant': v('Cplant'), 'o_cexpl': v('Cexpl'), 'o_cpiping': v('Cpiping'), 'o_ritcvalue': v('RITCValue'), 'o_ccap': v('CCap'),
           'o_coamplant': v('Coamplant'), 'o_coamwell': v('Coamwell'), 'o_coamwater': v('Coamwater'), 'o_chilleropex': v('chilleropex'),
           'o_coam': v('Coam')}
    flags = tuple(f[k] for k in f if f[k] in ('true', 'false'))
    rec = '{| ' + '; '.join(f'{k} := {x}' for k, x in f.items()) + ' |}'
    orec = '{| ' + '; '.join(f'{k} := {Q(x)}' for k, x in out.items()) + ' |}'
    interesting = (any(valid(a) for a in ('per_production_well_cost', 'ccstimfixed', 'ccgathfixed', 'ccplantfixed', 'ccexplfixed',
                                          'totalcapcost', 'oamtotalfixed', 'oamplantfixed', 'oamwellfixed', 'oamwaterfixed'))
                   and (prov('RITC') or v('TotalGrant') or v('FlatLicenseEtc') or v('OtherIncentives') or s.v('wellbores', 'redrill') > 0))
    return f'costs_agree {qconv.q(TOL)} {rec} {orec}', flags, interesting, out


def well_cost_term(R, rows):
    """reported per-well costs vs the regenerated correlation table (only when the correlation branch is used)."""
    s = R.s
    e = lambda a: s.p('economics', a)
    if e('per_production_well_cost')['valid'] or R.cls != 'Economics':
        return None   # (SBTEconomics puts the 1.05 inside its per-well cost and uses the vertical section length)
    if s.has('wellbores', 'numnonverticalsections') and s.p('wellbores', 'numnonverticalsections')['provided']:
        return None
    depth = s.p('reserv', 'depth')
    depth_m = depth['value'] * (1000 if depth['cur'] == 'kilometer' else 1)
    corr = e('wellcorrelation')['value']['int']
    row = next(r for r in rows if r[0] == corr)
    coef = f'({qconv.q(row[2])}, {qconv.q(row[3])}, {qconv.q(row[4])})'
    return (f'close {qconv.q(TOL)} (one_vertical_well {B(row[5])} {coef} {Q(depth_m)} {Q(e("Vertical_drilling_cost_per_m")["value"])} '
            f'{Q(e("production_well_cost_adjustment_factor")["value"])}) {Q(e("cost_one_production_well")["value"])}')


def plant_term(R):
    """surface-plant capital cost incl. end-use equipment and the CHP split against Model/Costs.v (plant_cost)"""
    s = R.s
    P = lambda a: s.p('economics', a)
    mx = lambda comp, name: max(s.v(comp, name, [0.0]) or [0.0]) if isinstance(s.v(comp, name, [0.0]), list) else s.v(comp, name, 0.0)
    kind = 'PPower'
    eq_param, eq_out, max_eq = None, 0.0, 0.0
    if R.enduse == 2:
        kind = {5: 'PChiller', 6: 'PHeatPump', 7: 'PDistrict'}.get(R.plant, 'PHeat')
        if kind == 'PChiller':
            eq_param, max_eq = P('chillercapex'), mx('surfaceplant', 'cooling_produced')
            eq_out = eq_param['value']
        elif kind == 'PHeatPump':
            eq_param, max_eq = P('heatpumpcapex'), mx('surfaceplant', 'HeatProduced')
            eq_out = eq_param['value']
        elif kind == 'PDistrict':
            eq_out = P('peakingboilercost')['value']
    # the equipment-cost parameter is overwritten in place by the correlation: the user's figure is the one in the input file
    eq_in = eq_param['value'] if eq_param else 0.0
    if eq_param and eq_param['provided']:
        raw = R.snap.get('input_parameters', {}).get(eq_param['name'])
        try:
            eq_in = float(raw[0].split()[0]) if raw else eq_in
        except (ValueError, IndexError):
            pass
    eff = s.v('surfaceplant', 'enduse_efficiency_factor', 1.0)
    hp = s.v('surfaceplant', 'HeatProduced', [0.0])
    hp_over = max([x / eff for x in hp]) if isinstance(hp, list) and hp and eff else 0.0
    ratio = P('CAPEX_heat_electricity_plant_ratio')
    rec = ('{| p_kind := %s; p_cogen := %s; p_fixed_valid := %s; p_fixed := %s; p_adj := %s; p_max_he := %s; p_eq_provided := %s; '
           'p_eq_in := %s; p_max_eq := %s; p_max_peaking := %s; p_corr := %s; p_max_hp_over_eff := %s; p_ratio_provided := %s; '
           'p_ratio_in := %s |}') % (
        kind, B(R.enduse in econ.COGEN), B(P('ccplantfixed')['valid']), Q(P('ccplantfixed')['value']), Q(P('ccplantadjfactor')['value']),
        Q(mx('surfaceplant', 'HeatExtracted')), B(bool(eq_param and eq_param['provided'])), Q(eq_in),
        Q(max_eq), Q(s.v('surfaceplant', 'max_peaking_boiler_demand', 0.0)), Q(s.v('economics', 'Cplantcorrelation', 0.0)), Q(hp_over),
        B(ratio['provided']), Q(ratio['value']))
    return (f'plant_agree {qconv.q(TOL)} {rec} {Q(P("Cplant")["value"])} {Q(eq_out)} {Q(s.v("economics", "CAPEX_cost_electricity_plant", 0.0))} '
            f'{Q(s.v("economics", "CAPEX_cost_heat_plant", 0.0))} {Q(ratio["value"])}'), kind


def dh_terms(R):
    """district-heating runs: network cost and district O&M against Model/Costs.v fed the run's own inputs"""
    s = R.s
    P = lambda a: s.p('economics', a)
    units = s.p('surfaceplant', 'dh_number_of_housing_units')
    rec = ('{| d_total_provided := %s; d_total := %s; d_piping_provided := %s; d_piping_len := %s; d_road_provided := %s; d_road_len := %s; '
           'd_area := %s; d_pop_provided := %s; d_pop := %s; d_units_provided := %s; d_units := %s; d_rate := %s |}') % (
        B(P('dhtotaldistrictnetworkcost')['provided']), Q(P('dhtotaldistrictnetworkcost')['value']),
        B(P('dhpipinglength')['provided']), Q(P('dhpipinglength')['value']), B(P('dhroadlength')['provided']), Q(P('dhroadlength')['value']),
        Q(P('dhlandarea')['value']), B(P('dhpopulation')['provided']), Q(P('dhpopulation')['value']),
        B(units['provided']), Q(units['value']), Q(P('dhpipingcostrate')['value']))
    tol = qconv.q(TOL)
    out = [('district-network-cost', f'close {tol} (dh_network_cost {rec}) {Q(P("dhdistrictcost")["value"])}')]
    if not P('oamtotalfixed')['valid']:
        demand = s.v('surfaceplant', 'daily_heating_demand', [])
        out.append(('district-oam', f'close {tol} (dh_oam {B(P("dhoandmcost")["provided"])} {Q(P("dhoandmcost")["value"])} '
                                    f'{Q(P("dhdistrictcost")["value"])} {Q(sum(demand))} {Q(s.v("surfaceplant", "electricity_cost_to_buy"))}) '
                                    f'{Q(P("dhdistrictoandmcost")["value"])}'))
    how = ('total' if P('dhtotaldistrictnetworkcost')['provided'] else 'piping' if P('dhpipinglength')['provided'] else
           'road' if P('dhroadlength')['provided'] else 'population' if P('dhpopulation')['provided'] else
           'units' if units['provided'] else 'default')
    return out, how


def gen_inputs(ctx):
    rnd = ctx.rng
    cfgs = configs.grid(ctx, ctx.n(70, 2500))
    # redrilling: small Maximum Drawdown with a strong drawdown parameter
    for _ in range(ctx.n(12, 200)):
        c = configs.synthetic(rnd, resmodel=4, life=rnd.choice([10, 20, 30]))
        c = [(k, v) for k, v in c if k not in ('Maximum Drawdown', 'Drawdown Parameter')]
        c += [('Maximum Drawdown', configs.dec(rnd, 0.05, 0.3, 2)), ('Drawdown Parameter', configs.dec(rnd, 0.01, 0.04, 3))]
        cfgs.append(c)
    for _ in range(ctx.n(2, 20)):   # end-use equipment cost supplied at its minimum (0): used verbatim, not taken for "not provided"
        for pl, key in ((6, 'Heat Pump Capital Cost'), (5, 'Absorption Chiller Capital Cost')):
            c = [(k, v) for k, v in configs.synthetic(rnd, enduse=2, plant=pl) if k not in (key, 'Surface Plant Capital Cost', 'Total Capital Cost')]
            cfgs.append(c + [(key, '0')])
    # every user-fixable cost component supplied at its minimum (0): "exactly that figure is used", a supplied 0 is not "not provided"
    for key in ('Well Drilling and Completion Capital Cost', 'Reservoir Stimulation Capital Cost', 'Surface Plant Capital Cost',
                'Field Gathering System Capital Cost', 'Exploration Capital Cost', 'Wellfield O&M Cost', 'Surface Plant O&M Cost', 'Water Cost'):
        for _ in range(ctx.n(1, 6)):
            c = [(k, v) for k, v in configs.synthetic(rnd) if k not in (key, key + ' Adjustment Factor', 'Total Capital Cost', 'Total O&M Cost')]
            cfgs.append(c + [(key, '0')])
    # user-fixed per-well costs: production and injection figures both supplied and different (also injection only, and a
    # fixed production figure with no injection wells' own figure): "wellfield cost is the per-well costs reported times the
    # numbers of wells"
    for j in range(ctx.n(4, 40)):
        c = [(k, v) for k, v in configs.synthetic(rnd) if not k.startswith(('Well Drilling and Completion Capital Cost',
             'Injection Well Drilling and Completion Capital Cost', 'Total Capital Cost', 'Number of Injection Wells'))]
        c.append(('Number of Injection Wells', str(rnd.choice([1, 2, 3, 5]))))
        pc, ic = configs.dec(rnd, 2, 9, 2), configs.dec(rnd, 0.5, 12, 2)
        if j % 4 != 2:
            c.append(('Well Drilling and Completion Capital Cost', pc))
        if j % 4 != 3:
            c.append(('Injection Well Drilling and Completion Capital Cost', ic))
        cfgs.append(c)
    # a user-fixed O&M / capital component on every plant kind (the end-use specific blocks have their own guards), and cost inputs
    # stated with exactly their default value (an adjustment factor of 1 for the injection wells is a statement, not an absence)
    for (eu, pl) in ((2, 5), (2, 6), (2, 7), (2, 9), (1, 1), (31, 2), (52, 4)):
        for key in (('Surface Plant O&M Cost', 'Wellfield O&M Cost', 'Water Cost', 'Surface Plant Capital Cost')[:ctx.n(2, 4)]):
            c = [(k, v) for k, v in configs.synthetic(rnd, enduse=eu, plant=pl, resmodel=4, life=rnd.choice([5, 10, 20]))
                 if k not in (key, key + ' Adjustment Factor', 'Total Capital Cost', 'Total O&M Cost')]
            cfgs.append(c + [(key, configs.fmt(configs.dec(rnd, 0.2, 3, 2) if 'O&M' in key or key == 'Water Cost' else configs.dec(rnd, 5, 60, 1)))])
    for _ in range(ctx.n(3, 20)):
        c = [(k, v) for k, v in configs.synthetic(rnd) if not k.startswith(('Well Drilling and Completion Capital Cost',
             'Injection Well Drilling and Completion Capital Cost', 'Total Capital Cost'))]
        cfgs.append(c + [('Well Drilling and Completion Capital Cost Adjustment Factor', configs.fmt(configs.dec(rnd, 0.4, 2.5, 2))),
                         ('Injection Well Drilling and Completion Capital Cost Adjustment Factor', '1')])
    for _ in range(ctx.n(2, 12)):   # district network cost supplied with the value that happens to be the declared default (10 M$)
        c = [(k, v) for k, v in configs.synthetic(rnd, enduse=2, plant=7, resmodel=4, life=5)
             if not k.startswith(('Total District', 'District Heating Network', 'District Heating Road', 'District Heating Land', 'District Heating Pop',
                                  'Number of Housing', 'Total Capital'))]
        cfgs.append(c + [('Total District Heating Network Cost', '10')])
    for _ in range(ctx.n(6, 60)):   # district heating: every way of obtaining the network cost
        cfgs.append(configs.synthetic(rnd, enduse=2, plant=7, resmodel=4, life=rnd.choice([5, 10, 20])))
    texts = [('synthetic', runner.params_to_text(c)) for c in cfgs]
    # SBT economics (its own Calculate, not a copy of the roll-up) with a user-fixed gathering-system cost: a light closed-loop
    # configuration (~25 s) kept in the quick tier; it is the regression case of a repaired defect (see known_findings.json)
    for f in sorted((fw.VERIF / 'corpus' / 'C03').glob('*.txt')):
        texts.append(('corpus:' + f.name, f.read_text()))
    texts += [('example:' + n, t) for n, t in configs.example_texts(slow=not ctx.quick)]
    return texts


def run_part(ctx, texts, rows):
    results = runner.run_many(ctx, [t for _, t in texts])
    terms, owners = [], []
    for (origin, text), r in zip(texts, results):
        if not r['ok'] or r['snap'] is None:
            ctx.count('whole-runs', rejected={(r['error'] or 'no snapshot')[:60]: 1})
            continue
        R = econ.Run(r['snap'])
        if R.cls not in ('Economics', 'SBTEconomics') or R.sdac:
            continue
        try:
            term, flags, interesting, out = cost_record(R)
        except KeyError as e:
            ctx.count('whole-runs', rejected={f'missing field {e}': 1})
            continue
        if not econ.finite(list(out.values())):
            ctx.count('whole-runs', rejected={'non-finite cost': 1})
            continue
        desc = {'origin': origin, 'econ': R.econ, 'enduse': R.enduse, 'plant': R.plant, 'redrill': R.s.v('wellbores', 'redrill'),
                'reported': out}
        terms.append(term)
        owners.append(('roll-up', desc, text, flags if interesting else None))
        if R.cls == 'Economics':
            try:
                pt, pk = plant_term(R)
                terms.append(pt)
                owners.append(('plant-cost', desc, text, ('plant', pk, R.enduse in econ.COGEN, R.s.p('economics', 'ccplantfixed')['valid'])))
            except (KeyError, TypeError, ZeroDivisionError) as ex:
                ctx.note(f'plant-cost fields not readable: {ex!r}')
        if R.plant == 7 and R.cls == 'Economics' and not R.s.p('economics', 'totalcapcost')['valid']:
            try:
                dts, how = dh_terms(R)
                for stage, t in dts:
                    terms.append(t)
                    owners.append((stage, desc, text, ('dh', how, stage)))
            except KeyError as ex:
                ctx.note(f'district-heating fields not readable: {ex!r}')
        wt = well_cost_term(R, rows)
        if wt:
            terms.append(wt)
            owners.append(('per-well-cost', desc, text, ('well', R.s.p('economics', 'wellcorrelation')['value']['int'])))
        ctx.count('whole-runs', enduse=R.enduse, plant=R.plant, redrilled=R.s.v('wellbores', 'redrill') > 0, cls=R.cls,
                  total_fixed=R.s.p('economics', 'totalcapcost')['valid'], oam_fixed=R.s.p('economics', 'oamtotalfixed')['valid'],
                  itc=R.s.p('economics', 'RITC')['provided'])
        ctx.sample('whole-runs', desc)
    failing = fw.kernel_bools(ctx, 'costs', REQ, terms, shard=150)
    ctx.count('whole-runs', evaluations=len(terms), nontrivial_keys=[o[3] for o in owners if o[3] is not None])
    for i in failing[:6]:
        stage, desc, text, _ = owners[i]
        ctx.violate('property', f'{stage}:enduse={desc["enduse"]},plant={desc["plant"]}',
                    f'reported cost components / totals are not the documented roll-up ({stage}) on {desc}',
                    inp={'input_text': text, 'stage': stage}, observed=desc['reported'],
                    expected='value of Coq model Costs.v (see replay)')
    return failing


def helper_part(ctx, rows):
    import geophires_x.Model  # noqa: F401
    from geophires_x import Economics
    from geophires_x.OptionList import Configuration, WellDrillingCostCorrelation as W
    from geophires_x.WellBores import calculate_total_drilling_lengths_m
    rnd = ctx.rng
    stub = NS(logger=NS(warning=lambda *a, **k: None))
    terms, descs = [], []
    for m in W:
        row = next(r for r in rows if r[0] == int(m.int_value))
        coef = f'({qconv.q(row[2])}, {qconv.q(row[3])}, {qconv.q(row[4])})'
        depths = [100, 499.5, 500, 500.5, 1234.5, 3000, 6999, 7000.5, 12000] + [rnd.randint(300, 9000) for _ in range(ctx.n(3, 30))]
        for d in depths:
            per_m, adj = F(rnd.randint(800, 2500)), F(rnd.randint(5, 30), 10)
            got = Economics.calculate_cost_of_one_vertical_well(stub, float(d), m, float(per_m), 'x', float(adj))
            terms.append(f'close {qconv.q(TOL)} (one_vertical_well {B(row[5])} {coef} {qconv.q(F(str(d)))} {qconv.q(per_m)} {qconv.q(adj)}) {Q(got)}')
            descs.append({'fn': 'calculate_cost_of_one_vertical_well', 'correlation': m.name, 'depth_m': d, 'per_m': str(per_m),
                          'adj': str(adj), 'impl': got})
    cfgs = {'CfgULoop': Configuration.ULOOP, 'CfgCoaxial': Configuration.COAXIAL, 'CfgVertical': Configuration.VERTICAL, 'CfgL': Configuration.L}
    # lateral sections: every correlation x {per-metre figure supplied or not} x {cased, uncased} x lengths around the 500 m switch
    for m in W:
        row = next(r for r in rows if r[0] == int(m.int_value))
        coef = f'({qconv.q(row[2])}, {qconv.q(row[3])}, {qconv.q(row[4])})'
        for _ in range(ctx.n(3, 12)):
            nsec = rnd.choice([1, 2, 3, 5])
            lps = rnd.choice([120, 499.5, 500, 500.5, 1500, 4200, rnd.randint(300, 6000)])
            length = F(str(lps)) * nsec
            per_m, adj = F(rnd.randint(300, 2500)), F(rnd.randint(5, 30), 10)
            pm, cased = rnd.random() < 0.35, rnd.random() < 0.5
            cfg = rnd.choice([Configuration.ULOOP, Configuration.COAXIAL, Configuration.L, Configuration.VERTICAL])
            mstub = NS(logger=NS(warning=lambda *a, **k: None), wellbores=NS(Configuration=NS(value=cfg)),
                       economics=NS(Nonvertical_drilling_cost_per_m=NS(Provided=pm)))
            got = Economics.calculate_cost_of_non_vertical_section(mstub, float(length), m, float(per_m), nsec, 'x', cased, float(adj))
            terms.append(f'close {qconv.q(TOL)} (lateral_cost {B(cfg is Configuration.VERTICAL)} {B(pm)} {B(row[5])} {B(cased)} {coef} '
                         f'{qconv.q(nsec)} {qconv.q(length)} {qconv.q(per_m)} {qconv.q(adj)}) {Q(got)}')
            descs.append({'fn': 'calculate_cost_of_non_vertical_section', 'correlation': m.name, 'configuration': cfg.name, 'nsec': nsec,
                          'length_m': str(length), 'per_m': str(per_m), 'per_m_provided': pm, 'cased': cased, 'adj': str(adj), 'impl': got})
    for name, cfg in cfgs.items():
        for _ in range(ctx.n(10, 200)):
            nsec, nprod, ninj = rnd.randint(0, 6), rnd.randint(1, 5), rnd.randint(0, 5)
            nv, ind, outd = F(rnd.randint(1, 50), 10), F(rnd.randint(5, 60), 10), F(rnd.randint(5, 60), 10)
            got = calculate_total_drilling_lengths_m(cfg, nsec, float(nv), float(ind), float(outd), nprod, ninj)
            vals = '[' + '; '.join(Q(x) for x in got) + ']'
            terms.append(f'all_close {qconv.q(TOL)} (drilling_lengths {name} {qconv.q(nsec)} {qconv.q(nv)} {qconv.q(ind)} {qconv.q(outd)} '
                         f'{qconv.q(nprod)} {qconv.q(ninj)}) {vals}')
            descs.append({'fn': 'calculate_total_drilling_lengths_m', 'configuration': name, 'nsec': nsec, 'nprod': nprod, 'ninj': ninj,
                          'nonvertical_km': str(nv), 'in_km': str(ind), 'out_km': str(outd), 'impl': list(got)})
    failing = fw.kernel_bools(ctx, 'cost_helpers', REQ, terms)
    ctx.count('helper-calls', evaluations=len(terms),
              nontrivial_keys=[(d['fn'], d.get('correlation', d.get('configuration')), d.get('depth_m', d.get('nsec'))) for d in descs])
    ctx.sample('helper-calls', descs[0])
    for i in failing[:5]:
        d = descs[i]
        ctx.violate('property', f'helper:{d["fn"]}:{d.get("correlation", d.get("configuration"))}',
                    f'{d["fn"]} differs from the documented cost / length on {d}', inp={'helper': d}, observed=d['impl'])


def correspondence(ctx, proofs_ok=True):
    rows = wellcost.table()
    helper_part(ctx, rows)
    run_part(ctx, gen_inputs(ctx), rows)


def replay(ctx, data):
    rows = wellcost.table()
    inp = data['input']
    if 'input_text' in inp:
        run_part(ctx, [('replay', inp['input_text'])], rows)
    else:
        print('helper case (re-running the helper part):', inp)
        helper_part(ctx, rows)
    for v in ctx.violations:
        print(v.kind, v.key, v.what[:300])
    print('property', 'VIOLATED' if ctx.violations else 'holds', 'on this input')
    return 1 if ctx.violations else 0
