"""C13 - Monte Carlo iterations are independent draws from the requested distributions."""
import math
import re
from collections import Counter

from lib import framework as fw, mcharness as mc, qconv

REQ = ['Model.MonteCarlo', 'Model.MCRows', 'Model.MCSettings']
META = {
    'props': 'Props/C13.v',
    'claimed': True,
    'level_text': ('Proof (partial): the pool of forked workers is modelled as a state machine over raw draws (stream, position) '
                   'with the two seeding disciplines. Proved for every schedule, every number of workers and draws per task: with '
                   'a fresh distinct seed per work package (the current code) no raw draw is consumed twice and all sample vectors '
                   'differ; with forked copies (the code before 883a02d) the clause is refuted for every schedule in which two '
                   'workers run a task, and exactly the tasks of equal rank on their worker coincide. Supports of the documented '
                   'uniform / triangular / binomial transforms are proved (sqrt as an explicit premise). Row count: for the current code '
                   '(row flushed while the lock is believed held, 1d8733c) one row per finished work package is proved for every '
                   'interleaving of the pylocker protocol without time-out; it stays REFUTED by the 10 s time-out (known finding, '
                   'reproduced on the real code); the code before 1d8733c is kept as lrun_pinned with its _refuted theorem (double '
                   'acquisition loses a row) and its interleaving is forced on real work packages on every run. The settings-file reader and the '
                   "'#' feature are modelled on strings: INPUT/OUTPUT lines are kept in file order, a line without comma is an error, a "
                   'distribution word fires at most one distribution (one numpy call per INPUT line, in order), the # value comes from the '
                   'FIRST base-file line that starts with the name - which is the value the simulator uses only when no other line starts '
                   'with that name (REFUTED for a repeated parameter and for a longer name with the same beginning: two known findings, '
                   'reproduced on the real driver). Tied to the current work_package by observed runs: numpy calls made vs the modelled '
                   'dispatch, seeding discipline vs observed duplicate pattern, supports and row count evaluated by Coq-defined '
                   'checkers on the rows of real runs with 1..16 workers.'),
    'level_note': ('Trusted: Coq kernel + vm_compute; the Python harness that wraps work_package / np.random / Locker with '
                   'recording pass-throughs in the driver process before the pool forks; OS entropy gives distinct seeds '
                   '(hypothesis of the theorem); real fork, numpy internals and the statistical quality of the generator are outside '
                   'the model.'),
    'technique': 'Coq proof about an executable Gallina model + kernel-evaluated correspondence with the implementation',
    'rule': ('settings files drawn from one PRNG: 2-6 INPUT lines over normal/uniform/triangular/lognormal/binomial (both comma '
             'styles), 1-4 OUTPUT lines, HIP-RA-X base; real MC_GeoPHIRES3.main runs with os.cpu_count patched to W in '
             '{1,2,4,16} (thorough: more settings, up to 400 iterations), plus corpus seeds: fork-copy witness, two forced lock interleavings on '
             'real work packages, a run into a directory holding the stale lock of a dead process, two base files on which the # value is not the '
             "simulator's; 30% of the inputs take a parameter from the base file (#), one settings file per run names its own MC_OUTPUT_FILE and "
             'uses all five distributions; supports are evaluated in Coq on every value of every row and on the draws of row-less work packages; a '
             'run is non-trivial when at least two workers executed tasks; distinct = distinct (W, distributions used) signatures; '
             'evaluations = sampled values + rows + numpy calls checked'),
    'trusted_base': ['Coq 8.16.1 kernel + vm_compute (no native_compute)',
                     'all C13 theorems: Closed under the global context (no axioms)',
                     'hand-written model coq/Model/MonteCarlo.v tied to MC_GeoPHIRES3.work_package/main by observed real runs '
                     '(tools/lib/mc_driver.py, tools/lib/mcharness.py, tools/props/C13.py: unverified Python)'],
    'modelled': ['MC_GeoPHIRES3.work_package (seeding, distribution dispatch, guarded append)', 'MC_GeoPHIRES3.main (settings-file reader)',
                 'MC_GeoPHIRES3.check_and_replace_mean', 'pylocker.Locker acquire/release protocol',
                 'numpy.random legacy transforms (uniform, triangular, binomial) from their documentation', 'fork of pool workers'],
    'assumptions': ['np.random.seed() without argument yields pairwise distinct seeds (OS entropy)',
                    'equal raw draws is the only way two continuous samples coincide (generator quality not modelled)',
                    'sqrt is non-negative, monotone and inverts squaring (premise of the triangular support theorem)'],
    'fingerprint': [('src/geophires_monte_carlo/MC_GeoPHIRES3.py', 'work_package'), ('src/geophires_monte_carlo/MC_GeoPHIRES3.py', 'main'),
                    ('src/geophires_monte_carlo/MC_GeoPHIRES3.py', 'check_and_replace_mean')],
}
LOCK_WHAT = {'lock-double-acquire': "pylocker let two workers hold the lock and the release of this one was refused: its row was not flushed "
                                    "while the lock was held (regression of 1d8733c)",
             'lock-gave-up-early': 'the lock was given up before the 10 s time-out',
             'stale-lock-takeover': 'the work package took over the stale lock of a dead process (pylocker acquire code 2) and wrote nothing',
             'lock-timeout': 'after the 10 s lock time-out the row is silently dropped (fd is None)'}


def _q(x):
    return qconv.q(qconv.F(x))


def _b(text):
    return qconv.coq_bytes(text.encode('utf-8'))


def _sl(items):
    return '[' + '; '.join(items) + ']'


def _opt(x):
    return 'None' if x is None else f'(Some {_b(x)})'


def _inp(run, **extra):
    d = {'settings': run.settings, 'W': run.W, 'mode': run.mode, 'program': run.program}
    if run.program != 'HIP_RA_X' or run.base != mc.hiprax_base():
        d['base'] = run.base
    if getattr(run, 'settings_first', None):
        d['settings_first'] = run.settings_first
    return dict(d, **extra)


def resim_check(ctx, run, rows):
    """GEOPHIRES runs (corpus): every row is re-simulated through the client - a row must belong to an iteration whose own
    sampled inputs simulate successfully, and carry the outputs of those inputs (not of another iteration)"""
    _, outputs, _ = mc.parse_settings(run.settings, run.base)
    reports = mc.resimulate(ctx, [(run.program, run.base, r['ins']) for r in rows])
    for r, rep in zip(rows, reports):
        if rep is None:
            ctx.violate('property', 'rowcount:row-of-rejected-sample', 'the result file has a row for sampled values with which the simulation fails: '
                        'not a successfully simulated iteration', inp=_inp(run, row=r['line']), expected='no row', observed=r['line'][:300])
        elif r['outs'] != [w for w in mc.report_tokens(rep, outputs) if w is not None]:
            ctx.violate('property', 'independence:row-outputs-of-other-inputs', 'the output values of a row are not those of its own sampled inputs '
                        '(re-simulated through the client)', inp=_inp(run, row=r['line']), expected=mc.report_tokens(rep, outputs), observed=r['outs'])
    if run.program == 'TOY' and any(t['trace'] for t in run.tasks):
        # which iterations the simulator accepts is decided independently of how work_package ended: every accepted draw needs its row
        names = [n for n, w_, _ in mc.parse_settings(run.settings, run.base)[0] if mc.dist_of(w_)]
        draws = [[(n, v) for n, (_, v) in zip(names, mc.task_entries(t))] for t in run.tasks if t['trace']]
        verdicts = mc.resimulate(ctx, [(run.program, run.base, d) for d in draws])
        accepted = [tuple(v for _, v in d) for d, rep in zip(draws, verdicts) if rep is not None]
        have = [tuple(v for _, v in r['ins']) for r in rows]
        lost = [a for a in accepted if a not in have]
        if lost:
            ctx.violate('property', 'rowcount:simulated-iteration-without-row',
                        f'{len(lost)} of the {len(accepted)} iterations whose sampled inputs the simulator accepts left no row ({len(rows)} rows; '
                        f'work packages ended: {sorted({t["status"][:60] for t in run.tasks})})', inp=_inp(run), expected=len(accepted), observed=len(rows))
    ctx.count('rows-resimulated', evaluations=len(rows), nontrivial_keys=[tuple(v for _, v in r['ins']) for r in rows])


def settings_checks(ctx, run, bools):
    """settings reader and '#' feature: model vs an independent reading (Coq), independent reading vs what the run did
    (numpy call arguments: analyse), and the requested mean vs the value the simulator uses for that parameter"""
    raw, outputs, iterations, output_file = mc.parse_settings_raw(run.settings_run)
    bools.append((f'settings_agree {_sl(_b(ln) for ln in run.settings_run.splitlines(True))} {_sl(_sl(map(_b, f)) for f in raw)} '
                  f'{_sl(map(_b, outputs))} {_opt(iterations)} {_opt(output_file)}',
                  lambda: ctx.violate('corr', 'settings:reader', 'the modelled settings reader differs from the independent reading of the settings file',
                                      inp=_inp(run), expected='read_settings (Model/MCSettings.v)', observed=[raw, outputs, iterations, output_file])))
    base_lines = _sl(_b(ln) for ln in run.base.splitlines(True))
    for f in raw:
        if not any('#' in x for x in f):
            continue
        resolved, src = mc.resolve_hash(f, run.base)
        bools.append((f'opt_strings_eqb (replace_mean {_sl(map(_b, f))} {base_lines}) (Some {_sl(map(_b, resolved))})',
                      lambda f=f, resolved=resolved: ctx.violate('corr', 'settings:mean-replacement', "the modelled '#' replacement differs from the independent one",
                                                                 inp=_inp(run), expected=resolved, observed='replace_mean (Model/MCSettings.v)')))
        sim = mc.simulated_value(run.base, f[0])
        bools.append((f'opt_string_eqb (simulated_value {_b(f[0])} {base_lines}) {_opt(sim)}',
                      lambda f=f, sim=sim: ctx.violate('corr', 'settings:simulated-value', 'the modelled parameter lookup of the simulator differs from the independent one',
                                                       inp=_inp(run), expected=sim, observed='simulated_value (Model/MCSettings.v)')))
        used = next((x for x, y in zip(resolved, f) if '#' in y), None)
        # what the run really handed to numpy for that field (first traced work package), else the independent prediction
        k = [g[0] for g in raw if mc.dist_of(g[1])].index(f[0]) if mc.dist_of(f[1]) else None
        j = next(i for i, y in enumerate(f) if '#' in y) - 2
        calls = next(([c for c in t['trace'] if c[0] != 'seed'] for t in run.tasks if t['trace']), None)
        try:
            seen = float(calls[k][1][j]) if calls and k is not None and 0 <= j < len(calls[k][1]) else float(used)
            same = sim is not None and seen == float(sim)
            predicted = seen == float(used)
        except (ValueError, IndexError, TypeError):
            seen, same, predicted = used, False, True
        if not same:
            # is `sim` really what the simulator uses?  ask it: run the base file alone and read the echoed parameter
            rep = mc.resimulate(ctx, [(run.program, run.base, [])])[0]
            echo = mc.report_tokens(rep, [f[0]])[0] if rep else None
            try:
                if echo is not None and abs(float(echo) - float(sim)) > 1e-6 * abs(float(sim)):
                    ctx.violate('corr', 'settings:simulator-lookup', f'the simulator echoes {echo} for {f[0]}, the last-occurrence lookup gives {sim}',
                                inp=_inp(run), expected=sim, observed=echo)
            except (ValueError, TypeError):
                pass
            if predicted and src is not None:      # the two known ways in which the documented lookup (startswith, first line) goes wrong
                kind = 'prefix-match' if src.split(',')[0].strip() != f[0] else 'first-occurrence'
            else:
                kind = 'not-the-documented-line'
            ctx.violate('property', 'mean-replacement:' + kind,
                        f"INPUT {f[0]} asks for the base-file value ('#') of the parameter; the distribution is given {seen!r}"
                        + (f', read from the line {src.strip()[:60]!r}' if predicted and src else f' (the documented lookup gives {str(used).strip()!r})')
                        + f', while the simulator uses {sim!r} for {f[0]}', inp=_inp(run), expected=sim, observed=seen)
    ctx.count('settings-reader', evaluations=1 + sum(1 for f in raw if any('#' in x for x in f)),
              nontrivial_keys=[tuple(tuple(f[:2]) for f in raw)], hash_inputs={sum(1 for f in raw if any('#' in x for x in f)): 1})


def analyse(ctx, run, bools):
    """Oracles of one observed run.  Boolean Coq terms are appended to `bools` as (term, on_false) for one kernel pass."""
    inputs, outputs, iterations = mc.parse_settings(run.settings, run.base)
    settings_checks(ctx, run, bools)
    tasks, ok = run.tasks, run.ok_tasks
    header, rows, _ = mc.parse_result(run.result_text or '\n')
    part = f'{run.mode}-runs'
    if run.mode in ('pool', 'stalelock', 'api2') and len(tasks) != iterations:
        ctx.violate('property', 'taskcount', f'{len(tasks)} work packages were executed for ITERATIONS = {iterations}',
                    inp=_inp(run), expected=iterations, observed=len(tasks))
    # --- numpy calls vs modelled dispatch (one term per distinct observed call sequence)
    seen = set()
    for t in ok:
        calls = tuple((c[0], tuple(c[1])) for c in t['trace'] if c[0] != 'seed')
        if calls in seen:
            continue
        seen.add(calls)
        model_in = '[' + '; '.join(f'({qconv.coq_bytes(w)}, [{"; ".join(_q(x) for x in f)}])' for _, w, f in inputs) + ']'
        unknown = [c for c, _ in calls if c not in mc.DISTS]
        obs = '[' + '; '.join(f'({mc.DISTS.get(c, "DNormal")}, [{"; ".join(_q(x) for x in a if not isinstance(x, str))}])'
                              for c, a in calls) + ']'
        bools.append((f'calls_eqb (expected_calls {model_in}) {obs}' if not unknown else 'false',
                      lambda calls=calls: ctx.violate(
                          'corr', 'dispatch:' + ','.join(c for c, _ in calls),
                          'numpy calls of a work package differ from the modelled dispatch of the INPUT lines',
                          inp=_inp(run), expected='expected_calls (Model/MonteCarlo.v) of the INPUT lines', observed=[list(c) for c in calls])))
    short = [t for t in tasks if t['status'] != 'ok' and len(mc.task_entries(t)) < len([i for i in inputs if mc.dist_of(i[1])])
             and any(x['trace'] for x in tasks)]
    if short:
        ctx.violate('corr', 'dispatch:sampling-failed', f'{len(short)} work package(s) failed before drawing all their inputs: {short[0]["status"][:160]}',
                    inp=_inp(run), expected='one draw per INPUT line (C13_one_entry_per_input)', observed=[c[:2] for c in short[0]['trace']])
    # --- supports: EVERY recorded sample - every value of every row, plus the draws of the work packages that left no row
    nvals, drawn = 0, Counter()
    sampled = [i for i in inputs if mc.dist_of(i[1])]
    matched = {id(t) for _, t in mc.match_rows(run, rows)[0]}
    records = [r['ins'] for r in rows] + [[(n, v) for (n, _, _), (_, v) in zip(sampled, mc.task_entries(t))]
                                          for t in tasks if t['trace'] and id(t) not in matched]
    for rec in records:
        for (name, val), (iname, word, fields) in zip(rec, sampled):
            d = mc.dist_of(word)
            try:
                term = f'in_support {mc.DISTS[d]} [{"; ".join(_q(x) for x in fields[:3 if d == "triangular" else 2])}] {_q(float(val))}'
            except (ValueError, OverflowError):
                term = 'false'
            nvals += 1
            drawn[d] += 1
            bools.append((term if name == iname else 'false', lambda name=name, val=val, d=d, fields=fields: ctx.violate(
                'property', f'support:{d}', f'sampled value {name} = {val} is outside the support of {d}{tuple(fields)}',
                inp=_inp(run), expected=f'in_support {d} {fields}', observed=val)))
    # --- rows vs successful work packages
    traced = any(t['trace'] for t in ok)
    if traced:
        pairs, foreign, missing = mc.match_rows(run, rows)
        for r in foreign[:3]:
            ctx.violate('property', 'rowcount:foreign-row', 'a result row carries sampled values that no successful work package drew',
                        inp=_inp(run), expected='one row per successful work package', observed=r['line'][:300])
        for t in missing:
            why = mc.lock_loss_reason(t)
            if why is None and (t.get('lock') or {}).get('code') == '2':
                why = 'stale-lock-takeover'
            ctx.violate('property', f'rowcount:{why or "lost-row"}',
                        f'a successful work package left no row in the result file ({LOCK_WHAT.get(why, "lock layer reported a clean append")}): '
                        f'{len(rows)} rows for {len(ok)} successful iterations',
                        inp=_inp(run), expected=len(ok), observed={'rows': len(rows), 'lock': t.get('lock'), 'pid': t['pid']})
    elif len(rows) != len(ok):
        ctx.violate('property', 'rowcount:lost-row' if len(rows) < len(ok) else 'rowcount:extra-row',
                    f'{len(rows)} rows for {len(ok)} successful iterations', inp=_inp(run), expected=len(ok), observed=len(rows))
    # --- independence: duplicate pattern of the sample vectors vs the model's prediction for the observed discipline
    vec = {id(t): tuple(v for f, v in mc.task_entries(t) if f in mc.CONTINUOUS) for t in tasks}
    if not traced:   # draws are not made through np.random.*: fall back to the rows
        vecs = [tuple(v for (n, v), i in zip(r['ins'], inputs) if mc.dist_of(i[1]) in mc.CONTINUOUS) for r in rows]
        pids = [0] * len(rows)
        disc = None
    else:
        vecs, pids = [vec[id(t)] for t in tasks], [t['pid'] for t in tasks]
        seeded = [bool(t['trace']) and t['trace'][0][0] == 'seed' and not t['trace'][0][1] for t in tasks]
        reseeds = [sum(1 for c in t['trace'] if c[0] == 'seed') for t in tasks]
        disc = 'FreshPerTask' if all(seeded) and set(reseeds) == {1} else 'ForkCopy' if not any(reseeds) else None
        if disc is None:
            ctx.violate('corr', 'seeding:unmodelled', 'work packages seed the generator in a way the model does not cover '
                        '(expected exactly one argument-free np.random.seed() before the first draw, or none at all)',
                        inp=_inp(run), observed=[t['trace'][:2] for t in tasks[:3]])
    if vecs and vecs[0]:
        first = {}
        observed = [first.setdefault(v, i) for i, v in enumerate(vecs)]
        groups = [[i for i, c in enumerate(observed) if c == k] for k, n in Counter(observed).items() if n > 1]
        if groups:
            det = [{'pids': [pids[i] for i in g], 'sampled': list(vecs[g[0]])} for g in groups[:5]]
            ctx.violate('property', f'duplicate-samples:{disc or "untraced"}',
                        f'{len(vecs)} iterations drew only {len(set(vecs))} distinct sample vectors with {len(set(pids))} workers '
                        f'(seeding discipline observed: {disc})', inp=_inp(run), expected='all sample vectors distinct',
                        observed={'duplicate_groups': det, 'distinct': len(set(vecs)), 'iterations': len(vecs)})
        if disc:
            wid = {p: k for k, p in enumerate(dict.fromkeys(pids))}
            sched = '[' + '; '.join(str(wid[p]) for p in pids) + ']%nat'
            obs = '[' + '; '.join(map(str, observed)) + ']%nat'
            bools.append((f'nat_list_eqb (predicted_classes {disc} 1 {sched}) {obs}', lambda: ctx.violate(
                'corr', f'classes:{disc}', f'which iterations coincide differs from what the {disc} model predicts for the observed schedule',
                inp=_inp(run), expected=f'predicted_classes {disc}', observed=observed)))
    sig = (run.W, tuple(sorted({mc.dist_of(w) for _, w, _ in inputs})))
    ctx.count(part, evaluations=nvals + len(rows) + len(seen), nontrivial_keys=[sig] if len(set(pids)) > 1 or run.W == 1 else [],
              workers={len(set(pids)): 1}, iterations={iterations: 1}, samples_by_distribution=dict(drawn))
    ctx.sample(part, {'W': run.W, 'settings': run.settings, 'rows': len(rows), 'ok': len(ok), 'workers_used': len(set(pids))})
    return rows, ok


def lock_model_check(ctx, run, rows, ok, bools):
    """forced double acquisition (corpus): which rows reach the file vs Model.MonteCarlo.double_acquire_schedule under the
    current lock model (row flushed while the lock is believed held: both; before 1d8733c only B's)"""
    roles = {t['role']: t for t in run.tasks}
    if len(ok) == 2 and {'A', 'B'} <= set(roles) and mc.task_entries(roles['A']) != mc.task_entries(roles['B']):
        rowvals = [tuple(v for _, v in r['ins']) for r in rows]
        present = [k for k in 'AB' if tuple(v for _, v in mc.task_entries(roles[k])) in rowvals]
        obs = '[' + '; '.join(str('AB'.index(k)) for k in present) + ']%nat'
        bools.append((f'nat_list_eqb (file (lrun linit double_acquire_schedule)) {obs}', lambda: ctx.violate(
            'corr', 'lockmodel:double-acquire', 'the rows that reach the file under the forced double acquisition are not those the lock model predicts',
            inp=_inp(run), expected='[0; 1] (A and B)', observed=present)))
    else:
        ctx.note(f'forced double acquisition: {len(rows)} rows for {len(ok)} finished work packages, roles {sorted(roles)}')


def stale_lock_check(ctx, run, rows, ok, bools):
    """run into a directory holding the lock of a dead process (corpus): rows vs the lock model with a take-over"""
    codes = [t['lock']['code'] for t in run.tasks if t.get('lock')]
    if '2' not in codes:
        ctx.note(f'stale lock: no work package reported a take-over (acquire codes {sorted(set(codes))})')
    bools.append((f'Nat.eqb (List.length (file (lrun (lstale 7) (stale_serial_schedule {len(ok)}%nat)))) {len(rows)}%nat', lambda: ctx.violate(
        'corr', 'lockmodel:stale-lock', 'the number of rows after taking over a stale lock is not what the lock model predicts',
        inp=_inp(run), expected=len(ok), observed=len(rows))))


def pool_specs(ctx):
    rnd = ctx.rng
    every = [(n,) + (mc.HIPRAX_HASH_INPUTS.get(n) or vs)[0] for n, vs in mc.HIPRAX_INPUTS.items()]   # all five distributions, '#' fields
    if ctx.quick:
        return ([(W, 40, mc.make_settings(rnd, 40, hash_share=0.3)) for W in (1, 2, 16)]
                + [(4, 40, mc.make_settings(rnd, 40, inputs=every, n_outputs=2, output_file='{JOBDIR}/named_by_settings.txt'))])
    specs = [(W, n, mc.make_settings(rnd, n, hash_share=0.3)) for W in (1, 2, 3, 4, 8, 16) for n in (40, 300)]
    specs.append((4, 60, mc.make_settings(rnd, 60, inputs=every, n_outputs=2, output_file='{JOBDIR}/named_by_settings.txt')))
    return specs + [(rnd.choice([2, 3, 5, 7, 12, 16]), rnd.choice([7, 60, 150, 400]), mc.make_settings(rnd, 1, hash_share=0.3)) for _ in range(24)]


def correspondence(ctx, proofs_ok=True):
    bools = []
    specs = mc.corpus_specs('C13')      # seeds first: fork-copy witness and the two forced lock interleavings
    for k, (W, n, st) in enumerate(pool_specs(ctx)):
        specs.append({'name': f'pool{k}', 'W': W, 'st': re.sub(r'ITERATIONS, \d+', f'ITERATIONS, {n}', st)})
    for run in mc.run_jobs(ctx, specs, parallel=2):
        rows, ok = analyse(ctx, run, bools)
        if run.mode == 'lockrace':
            lock_model_check(ctx, run, rows, ok, bools)
        if run.mode == 'stalelock':
            stale_lock_check(ctx, run, rows, ok, bools)
        if run.program in ('GEOPHIRES', 'TOY'):
            resim_check(ctx, run, rows)
    failing = fw.kernel_bools(ctx, 'c13', REQ, [b for b, _ in bools], open_scope='string_scope')
    for i in failing:
        bools[i][1]()
    ctx.count('kernel-checks', evaluations=len(bools))
    # the framework starts the search only when no 'property' violation exists at all; the known lock time-out finding is such
    # a violation on every run, so the search is started here when everything else is only a broken tie
    fresh = [v for v in ctx.violations if v.key != 'rowcount:lock-timeout']
    if fresh and not any(v.kind == 'property' for v in fresh):
        search(ctx)


def _moments(word, f):
    d = mc.dist_of(word)
    if d == 'normal':
        return f[0], f[1]
    if d == 'uniform':
        return (f[0] + f[1]) / 2, abs(f[1] - f[0]) / math.sqrt(12)
    if d == 'triangular':
        a, c, b = f[:3]
        return (a + b + c) / 3, math.sqrt((a * a + b * b + c * c - a * b - a * c - b * c) / 18)
    if d == 'lognormal':
        m = math.exp(f[0] + f[1] ** 2 / 2)
        return m, m * math.sqrt(math.exp(f[1] ** 2) - 1)
    return f[0] * f[1], math.sqrt(f[0] * f[1] * (1 - f[1]))


def moments_check(ctx, run, rows):
    """requested distributions: sample mean of every INPUT within 8 standard errors (false alarm probability < 1e-14)"""
    inputs = [i for i in mc.parse_settings(run.settings, run.base)[0] if mc.dist_of(i[1])]
    draws = [mc.task_entries(t) for t in run.tasks if t['trace']] or [r['ins'] for r in rows]   # failed iterations drew too
    for col, (name, word, f) in enumerate(inputs):
        xs = [float(d[col][1]) for d in draws if len(d) == len(inputs)]
        mean, sd = _moments(word, f)
        if len(xs) >= 30 and abs(sum(xs) / len(xs) - mean) > 8 * sd / math.sqrt(len(xs)):
            ctx.violate('property', f'distribution:{mc.dist_of(word)}',
                        f'{len(xs)} samples of {name} requested as {word.strip()}{tuple(f)} have mean {sum(xs) / len(xs):.6g}, '
                        f'expected {mean:.6g} +- {8 * sd / math.sqrt(len(xs)):.3g}', inp=_inp(run), expected=mean, observed=sum(xs) / len(xs))


def search(ctx):
    """Model and code disagree: evaluate the property itself on fresh runs - duplicates, supports, row count (analyse) and
    the requested distributions (sample mean within 8 standard errors: false alarm probability < 1e-14 per input)."""
    if getattr(ctx, 'c13_searched', False):
        return
    ctx.c13_searched = True
    bools = []
    every = [(n,) + v for n, vs in mc.HIPRAX_INPUTS.items() for v in vs[:1]] + [('Verif Unused C', 'triangular', [1, 9, 10])]
    for k, W in enumerate((2, 16)):
        run = mc.run_job(ctx, f'search{k}', mc.make_settings(ctx.rng, 120, inputs=every, n_outputs=2), W=W)
        rows, _ = analyse(ctx, run, bools)
        moments_check(ctx, run, rows)
    for i in fw.kernel_bools(ctx, 'c13s', REQ, [b for b, _ in bools], open_scope='string_scope'):
        bools[i][1]()


def replay(ctx, data):
    inp = data['input']
    bools = []
    first = inp.get('settings_first')
    run = mc.run_job(ctx, 'replay', first or inp['settings'], W=inp['W'], mode=inp['mode'], program=inp.get('program', 'HIP_RA_X'),
                     base=inp.get('base'), settings2=inp['settings'] if first else None)
    rows, ok = analyse(ctx, run, bools)
    moments_check(ctx, run, rows)
    if run.program in ('GEOPHIRES', 'TOY'):
        resim_check(ctx, run, rows)
    for i in fw.kernel_bools(ctx, 'c13r', REQ, [b for b, _ in bools], open_scope='string_scope'):
        bools[i][1]()
    print(f'run: W={run.W} mode={run.mode} tasks={len(run.tasks)} successful={len(ok)} rows={len(rows)} '
          f'workers={len({t["pid"] for t in run.tasks})} main_error={run.main_error}')
    for v in ctx.violations:
        print(f'  {v.kind} {v.key}: {v.what[:300]}\n    observed: {str(v.observed)[:600]}')
    bad = [v for v in ctx.violations if v.key == data['key']]
    print('property', 'VIOLATED' if bad else ('holds' if not ctx.violations else 'violated differently'), 'on this input')
    return 1 if ctx.violations else 0
