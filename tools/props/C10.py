"""C10 - the client returns exactly what the report says."""
import glob
import hashlib
import json
import os
import re
from pathlib import Path

from gen import c10_tables
from lib import c10_report as R, configs, framework as fw, qconv, runner

META = {
    'props': 'Props/C10.v',
    'claimed': True,
    'level_text': (
        'Proof (partial): 31 Coq theorems about an executable model of GeophiresXResult, all closed under the global context (round 2 adds '
        '_get_profile_lines, the header column count, the carbon-revenue view, _parse_number on every printed fixed-point numeral with or '
        'without thousands separators, string-valued fields, f.readlines, and the soundness of the indexed field search the kernel check '
        'runs). For EVERY '
        'label, indentation, padding (incl. a value that overflows its column), blank-free value token (negative, huge, 1,234.5, N/A) '
        'and unit, a printed scalar line is read back as exactly that token and unit (C10_roundtrip_unit/_bare, C10_line_is_found, '
        'C10_equal_sign_partial); for every number of rows and columns the add-on style tables and the production-profile rows come '
        'back cell by cell, in order, none dropped (C10_table, C10_profile_rows); as_csv carries one row per field with a value and one '
        'per table cell at a stated position with its year, value and unit (C10_csv_fields, C10_csv_table, _defined); over the tables '
        'regenerated from the CURRENT sources (252 client fields x every label any f.write of the five report writers can print) no '
        'field marker matches a line with another label (C10_no_foreign_match, C10_no_match_in_other_lines). Refuted on the pinned '
        'tree and stated as such: the result is NOT independent of set.pop() when one label is printed with two contents '
        '(C10_deterministic_refuted; proved under the hypothesis that all copies print the same token and unit: '
        'C10_deterministic_partial), and an equal-sign label printed with two blanks is not found (C10_equal_sign_label_found_refuted). '
        'The model is tied to the current client by executing the real client on stored, freshly simulated (every economic model x '
        'end-use x plant cell, output-unit conversions, examples) and synthetic reports and comparing every field, table, the raising '
        'behaviour and the csv rows inside Coq (vm_compute); the property itself is evaluated on the real client against an '
        'independent tokenisation of each report, under PYTHONHASHSEED 0/1/2, and the .json quantities (every equally-named report line, plus every '
        'figure of the S-DAC-GT and add-on sections and profiles through a reviewed label/column -> entry map; a missing entry is a violation) are '
        'compared with the printed figures by the Coq checker json_agrees (sound: C10_json_rounds). Only tied, not proved: the titles (not the count) rebuilt by the '
        'header reconstruction, _parse_number on exponent forms and against Python float() rounding; _parse_number itself is compared token by '
        'token with the real method on every writer format and on malformed tokens. HipRaResult (one regular expression, no shared code) is '
        'checked against the tokenisation only.'),
    'level_note': (
        'Trusted: Coq kernel + vm_compute; the Python harness (runs the simulator and the client, the independent tokeniser, the '
        'literals handed to Coq); Python float()/int()/csv/re/str semantics are modelled by hand for ASCII text (reports are ASCII); '
        'a float returned by the client is compared with the decimal the model read within 1e-15 relative. Three defects of the '
        'pinned tree are recorded as known findings (C10-F1 two-unit duplicate label + set.pop(), C10-F2 BICYCLE equal-sign label, '
        'C10-F3 base-economics .json entries overwritten by the add-on dict (26 listed labels) resp. LCOH by the S-DAC-GT dict, C10-F4 SUTRA Interest Rate).'),
    'technique': 'Coq proof about an executable Gallina model + kernel-evaluated correspondence with the implementation',
    'rule': (
        'reports = corpus seeds + every stored report under tests/ + fresh simulations (all economic model x end-use x plant cells, '
        'random configurations, output-unit conversions of quantities printed in two sections, the runnable examples) + synthetic '
        'variants of those (values overflowing their column, negative, huge, thousands separators, N/A, other paddings, sections '
        'removed; a label printed twice keeps one value). Each report is parsed by the real client under hash seeds 0, 1, 2; every '
        'exposed field, every table cell, every csv row and every .json quantity with a same-named report line is one evaluation; '
        'a report is distinct/non-trivial by (origin, set of fields the client filled, set of profile tables present)'),
    'trusted_base': ['Coq 8.16.1 kernel + vm_compute (no native_compute)',
                     'all C10 theorems: Closed under the global context (no axioms)',
                     'hand-written model coq/Model/ResultParser.v tied to geophires_x_client/geophires_x_result.py by kernel-evaluated '
                     'correspondence on real, stored and synthetic reports (tools/props/C10.py, tools/lib/c10_report.py: unverified Python)',
                     'generators tools/gen/c10_tables.py (client field table read from the live class; writer labels from an ast walk of '
                     'the five writer modules with name expressions evaluated on a live model; fail-closed)'],
    'modelled': ['GeophiresXResult.__init__', '_get_result_field', '_get_equal_sign_delimited_field', '_get_profile_lines',
                 '_get_data_from_profile_lines', '_extract_addons_style_table_data', '_get_revenue_and_cashflow_profile',
                 '_get_carbon_revenue_or_ccus_legacy_profile', '_parse_number', 'as_csv (rows before csv quoting)',
                 'str.replace/split/strip, re.sub/re.split on whitespace runs, set() as the list of distinct elements, set.pop() as an '
                 'arbitrary choice, int()/float() literal grammar incl. underscores'],
    'assumptions': ['reports are ASCII without carriage returns (checked per report; others are counted and skipped)',
                    'Python float() returns the double nearest to the decimal literal: the client value is accepted within 1e-15 relative of '
                    'the exact decimal the model parsed',
                    'csv.writer quoting/escaping and repr(float) are not modelled: csv rows are compared after csv.reader, values as text',
                    'metadata entries and _get_end_use_option are checked by the tokenisation oracle only through the equal-sign fields'],
    'fingerprint': [('src/geophires_x_client/geophires_x_result.py', 'GeophiresXResult._get_result_field'),
                    ('src/geophires_x_client/geophires_x_result.py', 'GeophiresXResult._get_equal_sign_delimited_field'),
                    ('src/geophires_x_client/geophires_x_result.py', 'GeophiresXResult._extract_addons_style_table_data'),
                    ('src/geophires_x_client/geophires_x_result.py', 'GeophiresXResult._get_data_from_profile_lines'),
                    ('src/geophires_x_client/geophires_x_result.py', 'GeophiresXResult._get_profile_lines'),
                    ('src/geophires_x_client/geophires_x_result.py', 'GeophiresXResult._parse_number'),
                    ('src/geophires_x_client/geophires_x_result.py', 'GeophiresXResult.as_csv'),
                    ('src/geophires_x_client/geophires_x_result.py', 'GeophiresXResult.__init__'),
                    ('src/geophires_x/GEOPHIRESv3.py', 'main')],
}
GENERATORS = (c10_tables.gen_fields, c10_tables.gen_labels)
REQ = ['Model.ResultParser', 'Model.ResultParserFast', 'Gen.C10Fields']
TABLES = ('CT C10Fields.fields C10Fields.revenue_headers C10Fields.carbon_headers C10Fields.carbon_price_field '
          'C10Fields.ccus_legacy_name')
TABLE_KEYS = [R.POWER, R.HEAT, R.EXT, R.REV, 'CARBON/CCUS', R.SDAC]
SEEDS = (0, 1, 2)

# output quantities whose display unit a user may change ('Units:<name>, <unit>'): (plant type | None, line)
UNIT_LINES = [(5, 'Units:Cooling Produced, kW'), (7, 'Units:Annual Heating Demand, MWh/year'),
              (None, 'Units:Bottom-hole temperature, degF'), (None, 'Units:Total capital costs, KUSD'),
              (None, 'Units:Exploration cost, MEUR'), (None, 'Units:Pumping Power, kW'), (None, 'Units:Net Electricity Production, kW'),
              (None, 'Units:Heat Produced, kW'), (None, 'Units:Produced Temperature, degF')]


# ------------------------------------------------------------------------------------------ reports

def collect(ctx):
    """-> list of items {'id', 'origin', 'text', ['input', 'json', 'snap']}"""
    rnd = ctx.rng
    items, seeds = [], []
    for f in sorted(glob.glob(str(fw.VERIF / 'corpus' / 'C10' / '*.json'))):
        d = json.loads(Path(f).read_text())
        if 'text' in d:
            items.append({'id': 'corpus/' + os.path.basename(f), 'origin': 'corpus', 'text': d['text']})
        else:
            seeds.append(('corpus/' + os.path.basename(f), d['input']))
    stored = sorted(glob.glob(str(fw.REPO / 'tests' / '*.out')) + glob.glob(str(fw.REPO / 'tests' / 'examples' / '*.out')))
    for f in stored:
        t = Path(f).read_text(encoding='utf-8', errors='replace')
        items.append({'id': 'stored/' + os.path.relpath(f, fw.REPO), 'origin': 'stored', 'legacy': True, 'text': t})
    cfgs = [runner.params_to_text(p) for p in configs.grid(ctx, ctx.n(20, 400))]
    names = [f'grid{i}' for i in range(len(cfgs))]
    # output-unit conversions: the same quantity may then be printed with two unit labels
    base = [runner.params_to_text(configs.synthetic(rnd, enduse=2, plant=pl, addons=False)) for pl in (5, 5, 7)] + \
           [runner.params_to_text(configs.synthetic(rnd)) for _ in range(ctx.n(6, 60))]
    for i, b in enumerate(base):
        pl = int(re.search(r'^Power Plant Type, (\d+)', b, re.M).group(1))
        own = [l for p, l in UNIT_LINES if p == pl]
        cfgs.append(b + ''.join(x + '\n' for x in own + rnd.sample([l for p, l in UNIT_LINES if p is None], rnd.randint(0 if own else 1, 2))))
        names.append(f'units{i}')
    for n, t in configs.example_texts(ctx, slow=not ctx.quick):
        cfgs.append(t)
        names.append('example/' + n)
    for n, t in seeds:
        cfgs.append(t)
        names.append(n)
    res = runner.run_many(ctx, cfgs, want_json=True)
    ok = 0
    for n, t, r in zip(names, cfgs, res):
        if r['report']:
            ok += r['ok']
            items.append({'id': 'run/' + n, 'origin': 'run', 'text': r['report'], 'input': t, 'json': r['json'], 'snap': r['snap']})
    ctx.count('runs', attempted=len(cfgs), with_report=sum(1 for i in items if i['origin'] == 'run'), ok=ok)
    real = [i for i in items if i['origin'] in ('run', 'stored')]
    for k in range(ctx.n(80, 1500)):
        b = rnd.choice(real)
        items.append({'id': f'synthetic{k}/' + b['id'], 'origin': 'synthetic', 'legacy': b['origin'] == 'stored', 'text': R.synthesize(rnd, b['text'])})
    good = []
    for it in items:
        if all(ord(c) < 128 for c in it['text']) and '\r' not in it['text']:
            good.append(it)
        else:
            ctx.count('reports', skipped_non_ascii=1)
    return good


# ------------------------------------------------------------------------------------------ property oracle

def oracle(ctx, it, res, fields, heads):
    """the property on the real client for one report: every exposed field / table cell / csv row equals what an
    independent tokenisation of the report text reads; -> list of (key, what, expected, observed)"""
    out = []
    text = it['text']
    if res['raised']:
        return [('constructor:' + res['raised'], 'GeophiresXResult raises on this report', 'a result', res['raised'])]
    result = res['result']
    exp = R.expected_fields(text, fields)
    # the same label printed with different content in several places: the client reads ONE of them for every
    # category that lists the label (set.pop(): which one depends on the hash seed), so one category is wrong
    sl = R.scalar_lines(text)
    names_amb = {n for (c, n), e in exp.items() if e[0] == 'ambiguous'}
    for name in {n for _, n, k, _ in fields if k != 2}:
        if len({tuple(s[2]) for s in sl if s[1] == name and s[3] >= 4}) > 1:
            names_amb.add(name)
    for name in sorted(names_amb):
        lines = [l for l in text.split('\n') if f'{name}:' in l or f'{name} = ' in l]
        out.append((f'ambiguous:{name}', f'the report prints "{name}" more than once with different content; the client returns '
                    f'one of them for every category, chosen by set.pop()', lines, {c: result[c].get(name) for c, n, _, _ in fields if n == name}))
    for (cat, name), e in exp.items():
        if name in names_amb:
            continue
        got = result[cat].get(name)
        want = e[1] if e[0] == 'one' else None
        if isinstance(got, str):
            got = {'value': got, 'unit': None}            # equal-sign fields are bare strings
        if isinstance(want, str):
            want = {'value': want, 'unit': None}
        if e[0] == 'none':
            if got is not None:
                out.append((f'field:{name}:foreign', f'client reports {cat}/{name} though no line carries that label', None, got))
        elif got is None:
            out.append((f'field:{name}:missing', f'client reports nothing for {cat}/{name}', want, None))
        elif got != want:
            out.append((f'field:{name}:differs', f'client value/unit of {cat}/{name} is not what the report prints', want, got))
    # tables
    for key, hk in ((R.POWER, None), (R.HEAT, None), (R.EXT, 'extended'), (R.REV, 'revenue'), (R.SDAC, 'sdacgt'), ('CCUS PROFILE', 'ccus_legacy')):
        e = R.expected_table(text, key)
        got = result.get(key)
        if e is None:
            if got is not None:
                out.append((f'table:{key}:foreign', f'client returns a {key} the report does not contain', None, got[:2]))
            continue
        eh, rows, units = e
        if got is None:
            if rows:
                out.append((f'table:{key}:missing', f'client drops the {key} table', rows[:2], None))
            continue
        width = len(got[0] or [])
        # a row printed with blank cells (legacy tables) must keep its figures, in order, none invented
        same = lambda g, r: g == r if len(r) == width else (len(g) == width and [v for v in g if v is not None] == [v for v in r if v is not None])
        if len(got) - 1 != len(rows) or not all(same(g, r) for g, r in zip(got[1:], rows)):
            bad = next((i for i, (a, b) in enumerate(zip(got[1:], rows)) if not same(a, b)), min(len(rows), len(got) - 1))
            out.append((f'table:{key}:rows', f'{key}: client rows differ from the printed rows (first at row {bad}; '
                        f'{len(got) - 1} vs {len(rows)} rows)', rows[bad:bad + 1], got[1 + bad:2 + bad]))
        if eh is not None and got[0] != eh:
            out.append((f'table:{key}:headers', f'{key}: column titles differ from the printed heading', eh, got[0]))
        if any(len(r) != len(got[0]) for r in got[1:]):
            out.append((f'table:{key}:width', f'{key}: a row has not one value per column title', len(got[0]), sorted({len(r) for r in got[1:]})))
        if hk is not None and not it.get('legacy'):      # stored reports of older versions print other units
            hu = [m.group(1) for m in (re.search(r'\(([^()]*)\)$', h) for h in got[0][1:]) if m]
            if units and hu != units:
                out.append((f'table:{key}:units', f'{key}: hard-coded column units differ from the printed unit line', units, hu))
    # the carbon view repeats four columns of the revenue table
    cv, rv = result.get('CARBON REVENUE PROFILE'), R.expected_table(text, R.REV)
    if rv is not None and rv[1] and len(heads['carbon']) > 1 and heads['carbon'][1] in heads['revenue'] \
            and R.expected_table(text, 'CCUS PROFILE') is None and all(len(r) == len(heads['revenue']) for r in rv[1]):
        cpi = heads['revenue'].index(heads['carbon'][1])
        priced = any(r[cpi] != 0 for r in rv[1])
        if priced != (cv is not None):
            out.append(('table:CARBON REVENUE PROFILE:' + ('missing' if priced else 'foreign'),
                        'the carbon revenue view must exist exactly when the revenue table prints a non-zero carbon price',
                        'a view' if priced else 'no view', None if cv is None else cv[:2]))
    if cv is not None and rv is not None:
        idx = [heads['revenue'].index(h) for h in cv[0] if h in heads['revenue']]
        want = [[r[i] for i in idx] for r in rv[1] if len(r) == len(heads['revenue'])]
        if len(idx) != len(cv[0]) or cv[1:] != want:
            out.append(('table:CARBON REVENUE PROFILE:rows', 'the carbon revenue view is not the carbon columns of the printed revenue table',
                        want[:2], cv[:3]))
    # one object: as_csv() leaves .result alone and gives the same text every time
    if not res.get('result_kept', True):
        out.append(('csv:mutates-result', 'as_csv() changes the parsed result it exports (.result differs after the call)',
                    'the result as parsed', res.get('result_after')))
    if res['csv'] is not None and (res.get('csv2') != res['csv']):
        out.append(('csv:second-call', 'a second as_csv() on the same object does not return the same text',
                    'the same csv text', res.get('csv2_raised') or 'another text'))
    # csv
    if res['csv'] is None:
        out.append(('csv:raised', 'as_csv raises on this report', 'csv text', res['csv_raised']))
    else:
        import csv
        import io
        got = list(csv.reader(io.StringIO(res['csv'])))
        want = R.flatten_csv(result)
        if got != want:
            bad = next((i for i, (a, b) in enumerate(zip(got, want)) if a != b), min(len(got), len(want)))
            out.append(('csv:rows', f'as_csv differs from the parsed result at row {bad} ({len(got)} vs {len(want)} rows)',
                        want[bad:bad + 1], got[bad:bad + 1]))
    return out


def unit_values():
    import geophires_x.Model  # noqa: F401
    from geophires_x import Units
    import enum
    out = {}
    for k, v in vars(Units).items():
        if isinstance(v, type) and issubclass(v, enum.Enum) and k != 'Units':
            for m in v:
                out.setdefault(m.name, set()).add(m.value)
    return out


# what the S-DAC-GT and add-on writers print and the .json entry that holds it (hand-reviewed against
# OutputsS_DAC_GT.py / OutputsAddOns.py): label -> (.json key, factor), profile column -> .json key (row of year y = value[y-1])
SECTION_SPEC = {
    'sdacgteconomics': ({'LCOD using grid-based electricity only': ('Total LCOD 100% electric', 1), 'LCOD using natural gas only': ('Total LCOD natural gas', 1),
                         'LCOD using geothermal energy only': ('Total LCOD S-DAC-GT', 1),
                         'CO2 Intensity using grid-based electricity only': ('Total CO2 Intensity 100% electric', 100),
                         'CO2 Intensity using natural gas only': ('Total CO2 Intensity natural gas', 100),
                         'CO2 Intensity using geothermal energy only': ('Total CO2 Intensity S-DAC-GT', 100),
                         'Total Tonnes of CO2 Captured': ('Total Tonnes of CO2 extracted', 1)},
                        R.SDAC, {1: 'Tonnes per Year CO2 extracted', 2: 'Running Carbon Capture', 3: 'Total Cost per Year', 4: 'Running Total Cost',
                                 5: 'Running cost per Tonne of capture'}),
    'addeconomics': ({'Adjusted Project CAPEX (after incentives, grants, AddOns, etc)': ('Adjusted CAPEX', 1),
                      'Adjusted Project OPEX (after incentives, grants, AddOns, etc)': ('Adjusted OPEX', 1),
                      'Total Add-on CAPEX': ('AddOn CAPEX Total', 1), 'Total Add-on OPEX': ('AddOn OPEX Total Per Year', 1),
                      'Total Add-on Net Elec': ('AddOn Electricity Gained Total Per Year', 1), 'Total Add-on Net Heat': ('AddOn Heat Gained Total Per Year', 1),
                      'Total Add-on Profit': ('AddOn Profit Gained Total Per Year', 1), 'AddOns Payback Period': ('AddOn Payback Period', 1)},
                     R.EXT, {2: 'Annual Revenue Generated from Electricity Sales', 4: 'Annual Revenue Generated from Heat Sales',
                             5: 'Annual Revenue Generated from AddOns', 6: 'Annual AddOn Cash Flow', 7: 'Cumulative AddOn Cash Flow',
                             8: 'Annual Project Cash Flow', 9: 'Cumulative Project Cash Flow'}),
}


def json_oracle(it, uv):
    """the .json next to the report carries (i) the quantity each equally-named report line prints and (ii) every quantity of
    the S-DAC-GT / add-on sections.  -> (violations decided here, [(key, what, token, quantity)] for Coq's json_agrees)"""
    out, cmp = [], []
    if not it.get('json'):
        return out, cmp
    js = json.loads(it['json'])
    by = {}
    for k, v in js.items():
        if isinstance(v, dict):
            for nm in (k, v.get('Name'), v.get('display_name')):
                if nm:
                    by.setdefault(nm, v)
    snap = it.get('snap') or {}
    outs = lambda comps: [d for c in comps for d in (snap.get(c) or {}).values() if isinstance(d, dict) and d.get('k') == 'out']
    over = {d.get('name'): 'addons' for d in outs(('addeconomics',))}
    over.update({d.get('name'): 'sdacgt' for d in outs(('sdacgteconomics',))})        # merged last
    base = {nm: d['name'] for d in outs(('reserv', 'wellbores', 'surfaceplant', 'economics')) for nm in (d['name'], d.get('display_name')) if nm}
    sl = R.scalar_lines(it['text'])
    for sec, label, toks, ind, val in sl:
        if label in base and base[label] not in js:
            out.append((f'json:missing:{label}', f'the report prints "{label}" but the .json has no entry "{base[label]}"', ' '.join(toks), None))
        p = by.get(label)
        if p is None or not toks or isinstance(p.get('value'), (list, dict, str, bool)) or p.get('value') is None:
            continue
        jv = p['value']
        if label == 'Investment Tax Credit':
            jv = -jv                       # printed with the opposite sign by design of the report
        cls = 'overwritten-by-' + over[p.get('Name')] if label in base and p.get('Name') in over else 'value'
        what = (f'the .json entry "{p.get("Name")}" is not the quantity the report prints as "{label}"'
                + (f' (the {cls[15:]} economics object\'s entry of that name overwrites the base economics\' one)' if cls != 'value' else ''))
        if toks[0] == 'N/A':
            if jv > 0:
                out.append((f'json:{cls}:{label}', what, 'N/A', jv))
        elif jv == jv and abs(jv) != float('inf'):
            cmp.append((f'json:{cls}:{label}', what, toks[0].replace(',', ''), jv))
        if len(toks) >= 2 and ' '.join(toks[1:]) not in uv.get(p.get('CurrentUnits'), set()) | uv.get(p.get('PreferredUnits'), set()):
            out.append((f'json:{cls if cls != "value" else "unit"}:{label}', f'the .json entry "{p.get("Name")}" has another unit than the report line "{label}"',
                        ' '.join(toks[1:]), [p.get('CurrentUnits'), p.get('PreferredUnits')]))
    # every figure of the S-DAC-GT / add-on sections is in the .json
    for comp, (scalars, table, columns) in SECTION_SPEC.items():
        if comp not in snap:
            continue
        for sec, label, toks, ind, val in sl:
            if label in scalars and toks and toks[0] != 'N/A':
                key, factor = scalars[label]
                if key not in js:
                    out.append((f'json:missing:{key}', f'the report prints "{label}" but the .json has no entry "{key}"', ' '.join(toks), None))
                elif isinstance(js[key].get('value'), (int, float)):
                    cmp.append((f'json:section:{key}', f'the .json entry "{key}" is not the quantity the report prints as "{label}"',
                                toks[0].replace(',', ''), js[key]['value'] * factor))
        tb = R.expected_table(it['text'], table)
        for col, key in columns.items() if tb and tb[1] else ():
            if key not in js:
                out.append((f'json:missing:{key}', f'the report prints column {col} of the {table} but the .json has no entry "{key}"', None, None))
                continue
            arr, block = js[key].get('value'), R.table_block(it['text'], table)
            rows = [l.replace('|', ' ').split() for l in block[3:] if l.strip()]
            for r in rows:
                if len(r) > col and re.fullmatch(r'\d+', r[0]) and isinstance(arr, list) and 0 < int(r[0]) <= len(arr):
                    cmp.append((f'json:section:{key}', f'the .json entry "{key}"[{int(r[0]) - 1}] is not the figure printed in year {r[0]}, column {col} of the {table}',
                                r[col].replace(',', ''), arr[int(r[0]) - 1]))
                else:
                    out.append((f'json:section:{key}', f'year {r[0] if r else "?"} of the {table} has no counterpart in the .json entry "{key}"', r[:col + 1], None))
                    break
    return out, cmp
    js = json.loads(it['json'])
    by = {}
    for k, v in js.items():
        if isinstance(v, dict):
            for nm in (k, v.get('Name'), v.get('display_name')):
                if nm:
                    by.setdefault(nm, v)
    snap = it.get('snap') or {}
    outs = lambda comps: [d for c in comps for d in (snap.get(c) or {}).values() if isinstance(d, dict) and d.get('k') == 'out']
    add_names = {d.get('name') for d in outs(('addeconomics', 'sdacgteconomics'))}
    base = {nm: d['name'] for d in outs(('reserv', 'wellbores', 'surfaceplant', 'economics')) for nm in (d['name'], d.get('display_name')) if nm}
    for sec, label, toks, ind, val in R.scalar_lines(it['text']):
        if label in base and base[label] not in js:
            out.append((f'json:missing:{label}', f'the report prints "{label}" but the .json has no entry "{base[label]}"', ' '.join(toks), None))
        p = by.get(label)
        if p is None or not toks or isinstance(p.get('value'), (list, dict, str, bool)) or p.get('value') is None:
            continue
        jv = p['value']
        if label == 'Investment Tax Credit':
            jv = -jv                       # printed with the opposite sign by design of the report
        cls = 'addons' if p.get('Name') in add_names else 'value'
        what = (f'the .json entry "{p.get("Name")}" is not the quantity the report prints as "{label}"'
                + (' (the add-on / S-DAC-GT economics object overwrites the same-named entry of the base economics)' if cls == 'addons' else ''))
        if toks[0] == 'N/A':
            if jv > 0:
                out.append((f'json:{cls}:{label}', what, 'N/A', jv))
        elif jv == jv and abs(jv) != float('inf'):
            cmp.append((f'json:{cls}:{label}', what, toks[0].replace(',', ''), jv))
        if len(toks) >= 2 and ' '.join(toks[1:]) not in uv.get(p.get('CurrentUnits'), set()) | uv.get(p.get('PreferredUnits'), set()):
            out.append((f'json:{"addons" if cls == "addons" else "unit"}:{label}', f'the .json entry "{p.get("Name")}" has another unit than the report line "{label}"',
                        ' '.join(toks[1:]), [p.get('CurrentUnits'), p.get('PreferredUnits')]))
    return out, cmp


# ------------------------------------------------------------------------------------------ kernel correspondence

def full_term(it, res, with_csv=True):
    """Coq term (list nat): components on which model and client differ (+5000.. ambiguous fields, 3000 csv)"""
    fields = c10_tables.client_tables()[0] if not hasattr(full_term, 'f') else full_term.f
    full_term.f = fields
    names = c10_tables.client_tables()[2] if not hasattr(full_term, 'n') else full_term.n
    full_term.n = names
    raised = 'true' if res['raised'] else 'false'
    irep = R.impl_report_lit(res['result'], fields, names['carbon_name'], names['ccus_legacy_name'])
    # check_report_fast = check_report (C10_indexed_check_sound): one index per line instead of one scan per field
    t = f'(let txt := {R.text_lit(it["text"])} in (check_report_fast t txt {raised} ({irep})'
    if res['result'] is not None and with_csv:
        t += (f'\n ++ (if agree_csv (csv_all {R.cats_lit(res["result"])})\n   {R.csv_rows_lit(res["csv"])} then [] else [3000%nat])')
    return t + ')%list)'


def kernel_codes(ctx, name, terms):
    """evaluate each term (list nat) in the kernel -> list of lists of ints"""
    from concurrent.futures import ThreadPoolExecutor

    def one(kt):
        k, t = kt
        p = ctx.scratch / f'detail_{name}_{k}.v'
        p.write_text(fw.HEADER + ''.join(f'From Verif Require Import {r}.\n' for r in ['Base.Flat'] + REQ)
                     + f'Open Scope string_scope.\nEval vm_compute in (let t := {TABLES} in {t}).\n')
        rc, o, e = fw.coqc(p, cwd=p.parent, timeout=600, out_vo=p.with_suffix('.vo'))
        if rc != 0:
            raise RuntimeError(f'coqc failed on {p.name}: {(o + e)[-800:]}')
        m = re.search(r'=\s*\[(.*?)\]\s*:', ' '.join(o.split()))
        if not m:
            ctx.note(f'unparsable kernel output for {p.name}: {o[-300:]!r}')
            return [-1]
        return [int(x) for x in re.findall(r'\d+', m.group(1).replace('%nat', ''))]

    with ThreadPoolExecutor(max_workers=16) as ex:
        return list(ex.map(one, enumerate(terms)))


def run_kernel(ctx, items, results):
    """model vs client inside Coq -> ({item index: component codes}, failing item indices, evaluated indices)"""
    # quick tier: every corpus report and every fourth other report (the tokenisation oracle sees all of them)
    sel = [i for i, it in enumerate(items) if not ctx.quick or it['origin'] in ('corpus', 'history') or i % 4 == 0]
    terms = [full_term(items[i], results[i], with_csv=(k % 3 == 0 or items[i]['origin'] == 'corpus')) for k, i in enumerate(sel)]

    def body(lo, hi):
        return (f'let t := {TABLES} in let l := [\n' + ';\n'.join(terms[lo:hi])
                + '] in (List.length l, mismatches (fun r : list nat => match r with [] => true | _ => false end) 0 l)')

    failing = fw.kernel_eval(ctx, 'reports', ['Base.Flat'] + REQ, body, len(terms), shard=6, open_scope='string_scope')
    codes = kernel_codes(ctx, 'r', [terms[k] for k in failing[:24]])
    return {sel[k]: c for k, c in zip(failing, codes)}, [sel[k] for k in failing], sel


# ------------------------------------------------------------------------------------------ the check

def number_tokens(ctx):
    """_parse_number of the real client against the model on printed numerals: every writer format on extreme values,
    and malformed tokens (underscores, exponents, signs, stray points and commas)"""
    import logging
    from geophires_x_client.geophires_x_result import GeophiresXResult
    rnd = ctx.rng
    logging.disable(logging.CRITICAL)
    g = object.__new__(GeophiresXResult)
    g._logger = logging.getLogger('c10')
    toks = ['N/A', '', '-', '.', '1.', '.5', '-.5', '+1.5', '1_000', '1__0', '_1', '1_', '1_000.5', '1._5', '1e5', '1.5e3', '1.5E+300', '1.5e-7',
            '1.e2', '1,2,3', ',', '1,', '12,345.60', '--1', '+-1', '1.2.3', 'nan', 'inf', '-inf', '0x10', '1e', '1.0e+', '00012', '-0.00',
            '-0', '007.50', '1\t', 'N/A ', 'n/a', '12a', '1.5f', '½', '1 2']
    toks = [t for t in toks if all(ord(c) < 128 for c in t)]
    for _ in range(ctx.n(300, 3000)):
        x = rnd.choice([1, -1]) * rnd.choice([0.0, 1e-7, 0.004, 0.5, 7.25, 123.456, 98765.4321, 1.5e9, 3.25e13, 8.8e17]) * rnd.random()
        toks.append(rnd.choice(['{:10.2f}', '{:,.2f}', '{:10.0f}', '{:10.4f}', '{:5.3f}', '{:10.4g}', '{:10.2E}', '{:.5f}', '{:,.0f}', '{:3.0f}']).format(x).strip())
    toks = sorted(set(toks))
    vals = [g._parse_number(t) for t in toks]
    bad = fw.kernel_bools(ctx, 'numbers', ['Model.ResultParser'], [f'agree_val (parse_number {R.CS(t)}) ({R.ival(v)})' for t, v in zip(toks, vals)],
                          open_scope='string_scope')
    ctx.count('_parse_number', evaluations=len(toks), nontrivial_keys=[('shape', re.sub(r'\d', '9', t)) for t in toks])
    for i in bad[:5]:
        ctx.violate('corr', f'corr:number:{toks[i]}', f'Coq model of _parse_number and the client disagree on the token {toks[i]!r}',
                    inp={'id': 'token', 'text': f'\n      Project NPV:      {toks[i]} MUSD\n', 'token': toks[i]}, observed=repr(vals[i]),
                    expected='value of Model.ResultParser.parse_number (see replay)')


def hip_ra_reports(ctx):
    """HipRaResult (hip_ra/__init__.py, also the client of HIP-RA-X) is one regular expression, not the line/marker
    machinery modelled here: no theorem applies; the stored HIP reports and variants with wide / negative / exponent
    figures are only checked against the independent tokenisation (oracle, no Coq model)"""
    from hip_ra import HipRaResult
    rnd = ctx.rng
    files = sorted(glob.glob(str(fw.REPO / 'tests' / 'hip_ra*_tests' / '*.out')) + glob.glob(str(fw.REPO / 'tests' / 'hip_ra_x_tests' / 'examples' / '*.out')))
    texts = [(f, Path(f).read_text()) for f in files]
    line_re = re.compile(r'^( +[^:\n]+(?:\([^)\n]*\))?:)( +)(-?[\d.]+(?:e[+-]?\d+)?)((?: \S+)?)$', re.M | re.I)
    for k in range(ctx.n(40, 400)):
        f, t = rnd.choice(texts[:len(files)])
        texts.append((f'{f}#{k}', line_re.sub(lambda m: m.group(1) + m.group(2) + rnd.choice(['{:10.2f}', '{:10.2e}', '{:.2f}']).format(
            rnd.choice([1, -1]) * rnd.choice([0.001, 3.5, 4567.8, 9.9e12, 2.5e21]) * rnd.random()).strip() + m.group(4)
            if rnd.random() < 0.4 else m.group(0), t)))
    n = 0
    for name, t in texts:
        p = ctx.scratch / 'hip.out'
        p.write_text(t)
        try:
            got = HipRaResult(str(p)).result
        except Exception as e:  # noqa
            ctx.violate('property', 'hipra:raised', f'HipRaResult raises {type(e).__name__} on a HIP report [{os.path.basename(name)}]',
                        inp={'id': name, 'text': t, 'hip': True}, expected='a result', observed=repr(e))
            continue
        want = {}
        for sec, label, toks, ind, val in R.scalar_lines(t):
            if toks and re.fullmatch(r'[+-]?(\d+\.?\d*|\.\d+)(e[+-]?\d+)?', toks[0], re.I):
                want[label] = {'value': float(toks[0]), 'unit': ' '.join(toks[1:]) or None}
        n += len(want)
        for label in sorted(set(want) | set(got)):
            if want.get(label) != got.get(label):
                ctx.violate('property', f'hipra:{label}', f'HipRaResult differs from the printed line "{label}" [{os.path.basename(name)}]',
                            inp={'id': name, 'text': t, 'hip': True}, expected=want.get(label), observed=got.get(label))
    ctx.count('hip-ra-reports (oracle only)', evaluations=n, files=len(files), variants=len(texts) - len(files))


def history(ctx, items, results):
    """one client process, one path, the report file re-written between parses (what GeophiresXClient does when an input
    is edited and run again): every parse must be the parse of the text the file holds THEN, as_csv included.
    -> extra (item, result) pairs for the kernel check: the model is a function of the text (C10_parse_is_function_of_text)"""
    has = lambda i, k: results[i]['result'] is not None and k in results[i]['result']
    pool = [i for i, it in enumerate(items) if it['origin'] in ('run', 'corpus') and has(i, R.REV)]
    carbon = [i for i in pool if has(i, 'CARBON REVENUE PROFILE')]
    plain = [i for i in pool if not has(i, 'CARBON REVENUE PROFILE')]
    seq = [i for pair in zip(carbon, plain) for i in pair][:ctx.n(12, 60)] or pool[:ctx.n(12, 60)]
    seq = seq + seq[:2]                                   # ... and back to the first reports
    hist = R.history_parse(ctx, [items[i]['text'] for i in seq])
    extra = []
    show = lambda r, c: str((r['result'] or {}).get(c, r['raised']))[:300]
    for k, (i, h) in enumerate(zip(seq, hist)):
        fresh = results[i]
        same = (h['result'], h['csv'], h['raised']) == (fresh['result'], fresh['csv'], fresh['raised'])
        if not same:
            comp = next((c for c in (fresh['result'] or {}) if (h['result'] or {}).get(c) != fresh['result'].get(c)), 'csv/raised')
            prev = items[seq[k - 1]]['text'] if k else None
            ctx.violate('property', f'history:stale:{comp}', f'parsing a report file that was re-written in the same process does not give the parse of its '
                        f'new text: {comp} differs from a fresh parse (operation {k} of the history; before it the path held {items[seq[k - 1]]["id"] if k else "nothing"}) '
                        f'[{items[i]["id"]}]', inp={'id': items[i]['id'], 'text': items[i]['text'], 'history': [prev, items[i]['text']]},
                        expected=show(fresh, comp), observed=show(h, comp))
        if k % 3 == 1 and len(extra) < 6:
            extra.append((dict(items[i], id=f'history{k}/' + items[i]['id'], origin='history'), h))
    ctx.count('history (one process, one path)', evaluations=len(seq), nontrivial_keys=[('rewrite', has(i, 'CARBON REVENUE PROFILE'), has(j, 'CARBON REVENUE PROFILE'))
                                                                                          for i, j in zip(seq, seq[1:])], parses=len(seq))
    return extra


NAMED = [('case.base.out', 'Gradient 1, 50\nReservoir Depth, 3\n'), ('case.deep.out', 'Gradient 1, 65\nReservoir Depth, 4\n'), ('case.out', 'Gradient 1, 40\nReservoir Depth, 2.5\n')]
NAMED_COMMON = ('Reservoir Model, 4\nDrawdown Parameter, 0.005\nEnd-Use Option, 1\nPower Plant Type, 1\nPlant Lifetime, 5\nEconomic Model, 1\n'
                'Fixed Charge Rate, 0.07\nPrint Output to Console, 0\n')


def named_reports(ctx, uv):
    """several reports with dotted names in ONE directory: each has its own <stem>.json (where the client looks for it)
    carrying that report's quantities -> figures for json_agrees"""
    runs = [(NAMED_COMMON + extra, name) for name, extra in NAMED]
    cmp = []
    for (text, name), r in zip(runs, R.named_runs(ctx, runs)):
        inp = {'id': 'named/' + name, 'text': r['report'] or '', 'named': [list(x) for x in runs], 'name': name}
        if r['report'] is None or r['json'] is None:
            ctx.violate('property', f'json:file-missing:{name}', f'after simulating {[n for _, n in runs]} into one directory the report {name} has no '
                        f'{r["json_name"]} next to it (files: {r["files"]}; run error: {r["error"]})', inp=inp, expected=r['json_name'], observed=r['files'])
            continue
        it = {'id': 'named/' + name, 'text': r['report'], 'json': r['json'], 'snap': None, 'input': text, 'named_inp': inp}
        out, c = json_oracle(it, uv)
        for key, what, exp, obs in out:
            ctx.violate('property', key, f'{what} [named/{name}]', inp=inp, expected=exp, observed=obs)
        cmp += [(it, x) for x in c]
    ctx.count('named reports in one directory', evaluations=len(runs), files=len(runs))
    return cmp


def correspondence(ctx, proofs_ok=True):
    import time
    t0 = time.time()
    lap = lambda what: (ctx.note(f'{what}: {time.time() - lap.t:.1f} s'), setattr(lap, 't', time.time()))
    lap.t = t0
    number_tokens(ctx)
    hip_ra_reports(ctx)
    lap('number tokens + HIP-RA reports')
    fields, heads, names = c10_tables.client_tables()
    items = collect(ctx)
    lap('collect (stored reports, simulations, synthetic)')
    texts = [it['text'] for it in items]
    from concurrent.futures import ThreadPoolExecutor
    with ThreadPoolExecutor(max_workers=len(SEEDS)) as ex:
        by_seed = dict(zip(SEEDS, ex.map(lambda s: R.parse_many(ctx, texts, s, workers=6), SEEDS)))
    results = by_seed[0]
    lap('client on every report, 3 hash seeds')
    uv = unit_values()
    nfields = ncells = 0
    jcmp = []
    sigs = set()
    for idx, (it, res) in enumerate(zip(items, results)):
        try:
            viol = oracle(ctx, it, res, fields, heads)
        except Exception as e:  # noqa  (an unexpected shape of the client's answer is an observation, not a harness failure)
            viol = [('shape:' + type(e).__name__, f'the client result has an unexpected shape: {e!r}', 'a well-formed result', str(res['result'])[:300])]
        for s in SEEDS[1:]:
            o = by_seed[s][idx]
            if (o['result'], o['csv'], o['raised']) != (res['result'], res['csv'], res['raised']):
                diff = sorted({n for c, n, _, _ in fields if res['result'] and o['result'] and res['result'][c].get(n) != o['result'][c].get(n)})
                viol.append((f'ambiguous:{diff[0]}' if diff else 'hashseed:structure',
                             f'the client returns different results under PYTHONHASHSEED=0 and {s} (fields {diff})',
                             'the same result for every hash seed', diff))
        if it['origin'] == 'run':
            jv, cmp = json_oracle(it, uv)
            viol += jv
            jcmp += [(it, c) for c in cmp]
        seen = set()
        for key, what, exp, obs in viol:
            if key in seen:
                continue
            seen.add(key)
            ctx.violate('property', key, f'{what} [{it["id"]}]', inp={'id': it['id'], 'text': it['text'], 'input': it.get('input')},
                        expected=exp, observed=obs)
        if res['result']:
            filled = [n for c, n, _, _ in fields if res['result'][c].get(n) is not None]
            nfields += len(filled)
            ncells += sum(len(r) for k in TABLE_KEYS if k in res['result'] for r in res['result'][k][1:])
            sigs.add((it['origin'], hashlib.md5('|'.join(sorted(set(filled))).encode()).hexdigest()[:10], tuple(k in res['result'] for k in TABLE_KEYS)))
    # the rounding relation between a .json quantity and the printed figure is decided by Coq (json_agrees)
    from fractions import Fraction
    jcmp += named_reports(ctx, uv)
    njson = len(jcmp)
    bad = fw.kernel_bools(ctx, 'json', ['Model.ResultParser'],
                          [f'json_agrees {qconv.q(Fraction(c[3]))} {R.CS(c[2])}' for _, c in jcmp], open_scope='string_scope')
    for i in bad:
        it, (key, what, tok, jv) = jcmp[i]
        ctx.violate('property', key, f'{what} [{it["id"]}]', inp=it.get('named_inp') or {'id': it['id'], 'text': it['text'], 'input': it.get('input')},
                    expected=tok, observed=jv)
    ctx.count('client-vs-tokenisation', evaluations=nfields + ncells + njson, nontrivial_keys=sigs,
              origin={o: sum(1 for i in items if i['origin'] == o) for o in ('corpus', 'stored', 'run', 'synthetic')})
    ctx.count('client-vs-tokenisation', fields_compared=nfields, table_cells_compared=ncells, json_quantities_compared=njson)
    for it in items[:2]:
        ctx.sample('reports', {'id': it['id'], 'chars': len(it['text'])})
    lap('tokenisation oracle + json')
    extra = history(ctx, items, results)
    items, results = items + [e[0] for e in extra], results + [e[1] for e in extra]
    lap('history')
    # model vs client, inside Coq
    codes, failing, sel = run_kernel(ctx, items, results)
    lap('kernel shards')
    ctx.count('model-vs-client', evaluations=len(sel) * (len(fields) + 8), reports=len(sel))
    for i in failing:
        it = items[i]
        for c in codes.get(i, []):      # details are evaluated for the first 24 failing reports only
            if c >= 5000:
                name = fields[c - 5000][1]
                ctx.violate('property', f'ambiguous:{name}', f'the model finds several distinct matching lines for "{name}" that parse differently: '
                            f'the client\'s answer depends on set.pop() [{it["id"]}]', inp={'id': it['id'], 'text': it['text'], 'input': it.get('input')},
                            expected='one answer', observed=[l for l in it['text'].split('\n') if f'{name}:' in l][:6])
            else:
                what = (f'field {fields[c][0]}/{fields[c][1]}' if 0 <= c < 1000 else f'table {TABLE_KEYS[c - 1000]}' if 1000 <= c < 1100 else
                        'constructor raising' if c == 2000 else 'as_csv rows' if c == 3000 else 'evaluation')
                key = (f'corr:field:{fields[c][1]}' if 0 <= c < 1000 else f'corr:table:{TABLE_KEYS[c - 1000]}' if 1000 <= c < 1100 else f'corr:{c}')
                ctx.violate('corr', key, f'Coq model of the client and the client disagree on {what} [{it["id"]}]',
                            inp={'id': it['id'], 'text': it['text'], 'input': it.get('input')},
                            observed=_observed(results[i], fields, c), expected='value of Model.ResultParser (see replay)')


def _observed(res, fields, c):
    if res['result'] is None:
        return res['raised']
    if 0 <= c < 1000:
        return res['result'][fields[c][0]].get(fields[c][1])
    if 1000 <= c < 1100:
        t = res['result'].get(TABLE_KEYS[c - 1000])
        return t[:3] if t else None
    return None


def search(ctx):
    """model / proofs / tables broke but no report violated the property yet: look for a failing report
    (i) around the reports on which model and client disagree, (ii) one line per label the writers can print"""
    fields, heads, names = c10_tables.client_tables()
    bases = [v.inp['text'] for v in ctx.violations if v.kind == 'corr' and isinstance(v.inp, dict) and v.inp.get('text')][:6]
    texts = [R.synthesize(ctx.rng, b) for b in bases for _ in range(30)] + bases
    try:
        labels, _ = c10_tables.writer_lines()
        texts += ['\n' + ' ' * ind + lab + (':' if k == 0 else ' =') + '            12.34 unit\n' for ind, lab, k in sorted(labels)]
    except Exception as e:  # noqa
        ctx.note(f'search: writer labels unavailable: {e!r}')
    found = 0
    for t, r in zip(texts, R.parse_many(ctx, texts, 0)):
        for key, what, exp, obs in oracle(ctx, {'id': 'search', 'origin': 'synthetic', 'legacy': True, 'text': t}, r, fields, heads):
            if key.split(':')[0] in ('field', 'table', 'csv', 'constructor') and not key.endswith('Economic Model:missing'):
                ctx.violate('property', key, what + ' [found by search]', inp={'id': 'search', 'text': t}, expected=exp, observed=obs)
                found += 1
        if found >= 5:
            break


def replay(ctx, data):
    fields, heads, names = c10_tables.client_tables()
    inp = data['input']
    if inp.get('named'):
        from fractions import Fraction
        runs = [tuple(x) for x in inp['named']]
        bad = 0
        for (text, name), r in zip(runs, R.named_runs(ctx, runs)):
            if r['report'] is None or r['json'] is None:
                print(f'{name}: no {r["json_name"]} next to the report; files in the directory: {r["files"]}')
                bad += 1
                continue
            out, c = json_oracle({'id': name, 'text': r['report'], 'json': r['json'], 'snap': None}, unit_values())
            badj = fw.kernel_bools(ctx, 'json', ['Model.ResultParser'], [f'json_agrees {qconv.q(Fraction(x[3]))} {R.CS(x[2])}' for x in c], open_scope='string_scope')
            for x in out + [c[i] for i in badj]:
                print(f'{name}: {x[1]}: report {x[2]}, {r["json_name"]} {x[3]}')
            print(f'{name}: {len(c)} figures compared with {r["json_name"]}, {len(out) + len(badj)} differ')
            bad += len(out) + len(badj)
        print('property', 'VIOLATED' if bad else 'holds', 'on this input')
        return 1 if bad else 0
    if inp.get('history'):
        prev, cur = inp['history']
        hist = R.history_parse(ctx, ([prev] if prev is not None else []) + [cur])[-1]
        fresh = R.parse_many(ctx, [cur], 0, workers=1)[0]
        diff = [c for c in (fresh['result'] or {}) if (hist['result'] or {}).get(c) != fresh['result'].get(c)] + \
               (['as_csv'] if hist['csv'] != fresh['csv'] else []) + (['raising'] if hist['raised'] != fresh['raised'] else [])
        print('one process: write report A to P, parse P, write report B to P, parse P; compared with a parse of B alone')
        for c in diff:
            rows = lambda r: (lambda v: str(v[1:3] if isinstance(v, list) else v)[:200])((r['result'] or {}).get(c))
            print(f'  differs: {c}\n     second parse of P: {rows(hist)}\n     parse of B alone : {rows(fresh)}')
        codes = kernel_codes(ctx, 'replay', [full_term({'text': cur}, hist)])[0]
        print('model (a function of the text of B) vs second parse, component codes:', codes)
        print('property', 'VIOLATED' if diff or codes else 'holds', 'on this input')
        return 1 if diff or codes else 0
    if inp.get('hip'):
        from hip_ra import HipRaResult
        p = ctx.scratch / 'hip.out'
        p.write_text(inp['text'])
        try:
            got = HipRaResult(str(p)).result
        except Exception as e:  # noqa
            got = {'raised': repr(e)}
        bad = 0
        for sec, label, toks, ind, val in R.scalar_lines(inp['text']):
            if toks and re.fullmatch(r'[+-]?(\d+\.?\d*|\.\d+)(e[+-]?\d+)?', toks[0], re.I):
                want = {'value': float(toks[0]), 'unit': ' '.join(toks[1:]) or None}
                if got.get(label) != want:
                    print(f'report line "{label}": {want}; HipRaResult: {got.get(label)}')
                    bad += 1
        print('property', 'VIOLATED' if bad else 'holds', 'on this input')
        return 1 if bad else 0
    it = {'id': inp.get('id', 'replay'), 'origin': 'replay', 'text': inp['text'], 'input': inp.get('input')}
    if inp.get('input') and data['key'].startswith('json:'):
        r = runner.run_many(ctx, [inp['input']], want_json=True)[0]
        it.update(text=r['report'] or it['text'], json=r['json'], snap=r['snap'], origin='run')
    bad = 0
    per_seed = {s: R.parse_many(ctx, [it['text']], s, workers=1)[0] for s in range(6)}
    res = per_seed[0]
    viol = oracle(ctx, it, res, fields, heads)
    if it.get('json'):
        from fractions import Fraction
        jv, cmp = json_oracle(it, unit_values())
        badj = fw.kernel_bools(ctx, 'json', ['Model.ResultParser'],
                               [f'json_agrees {qconv.q(Fraction(c[3]))} {R.CS(c[2])}' for c in cmp], open_scope='string_scope')
        viol += jv + [cmp[i] for i in badj]
    for key, what, exp, obs in viol:
        print(f'implementation vs report text: {key}: {what}\n   report says: {exp}\n   client says: {obs}')
        bad += 1
    distinct = {json.dumps(r['result'], sort_keys=True, default=str) for r in per_seed.values()}
    print(f'hash seeds 0..5: {len(distinct)} distinct result(s)')
    bad += len(distinct) > 1
    codes = kernel_codes(ctx, 'replay', [full_term(it, res)])[0]
    print('model vs client (component codes; field index, 1000.. tables, 3000 csv, 5000+i ambiguous field i):', codes)
    bad += len(codes)
    print('property', 'VIOLATED' if bad else 'holds', 'on this input')
    return 1 if bad else 0
