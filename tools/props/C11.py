"""C11 - economic results scale the way the definitions require."""
from fractions import Fraction as F

from lib import configs, econ, framework as fw, qconv, runner

TOL = F(1, 10 ** 9)
REQ = ['Model.Lcoe']

META = {
    'props': 'Props/C11.v',
    'claimed': True,
    'level_text': (
        'Proof: in the Coq model every levelized cost (LCOE, LCOH, LCOC; FCR, standard and BICYCLE; every end-use and plant type; '
        'every lifetime and series) is homogeneous of degree one in the cost inputs (capital, O&M, electricity purchase rate, the '
        'other annual cost streams), both for the documented closed forms and - through C01 - for the code\'s vector computation; '
        'scaling the heat series by s divides LCOH by s (efficiency halved: doubled); NPV is non-decreasing in every yearly sale '
        'price when the energies sold are non-negative and strictly increasing when a year with positive energy gets a strictly '
        'higher price; zero-rate credit / zero grant / zero fees and a zero add-on change nothing (axiom-free, by induction over the '
        'series). The price-independence of the levelized costs and the non-interference of prices and cost totals with the physics '
        'are tied by metamorphic run pairs on the real code (costs pinned through the Total Capital Cost / Total O&M Cost inputs), '
        'compared inside the kernel; the models themselves are tied to the code by the C01 / C03 / C04 correspondences.'),
    'level_note': (
        'Trusted: Coq kernel + vm_compute; Python harness; "production held fixed" is realised on the real code through the '
        'cost-override inputs and checked on the snapshot (energy series identical in both runs of a pair). Float rounding: 1e-9.'),
    'rule': ('metamorphic pairs of whole runs over all end-uses / plant types / economic models: (a) cost inputs x k for k in '
             '{1/2, 2, 3}, (b) all sale prices raised by a positive amount, (c) end-use efficiency halved (direct-use heat), (d) zero '
             'ITC rate / zero grant / zero add-on added. Non-trivial pair: both runs succeed, energy series identical, lifetime >= 2; '
             'distinct = distinct (kind of pair, model, end-use, plant, k) signatures'),
    'trusted_base': ['Coq 8.16.1 kernel + vm_compute (no native_compute)',
                     'all C11 theorems: Closed under the global context (no axioms)',
                     'models coq/Model/Lcoe.v, CashFlow.v, Costs.v (tied to the code by the C01, C04, C03 checks); run pairs executed '
                     'through main() with the guarded hook (tools/props/C11.py: unverified Python)'],
    'modelled': ['Economics.CalculateLCOELCOHLCOC', 'cash-flow assembly and NPV', 'CCap adjustments', 'add-on energy/cost additions'],
    'assumptions': ['IEEE rounding is not modelled (1e-9 relative comparison)'],
    'fingerprint': [('src/geophires_x/Economics.py', 'CalculateLCOELCOHLCOC'), ('src/geophires_x/Economics.py', 'Economics.Calculate'),
                    ('src/geophires_x/EconomicsAddOns.py', 'EconomicsAddOns.Calculate')],
}

COST_KEYS = {
    'Well Drilling and Completion Capital Cost', 'Well Drilling and Completion Capital Cost Adjustment Factor',
    'Reservoir Stimulation Capital Cost', 'Reservoir Stimulation Capital Cost Adjustment Factor',
    'Surface Plant Capital Cost', 'Surface Plant Capital Cost Adjustment Factor',
    'Field Gathering System Capital Cost', 'Field Gathering System Capital Cost Adjustment Factor',
    'Exploration Capital Cost', 'Exploration Capital Cost Adjustment Factor', 'Wellfield O&M Cost', 'Wellfield O&M Cost Adjustment Factor',
    'Surface Plant O&M Cost', 'Surface Plant O&M Cost Adjustment Factor', 'Water Cost', 'Water Cost Adjustment Factor',
    'Total Capital Cost', 'Total O&M Cost', 'Injection Well Drilling and Completion Capital Cost Adjustment Factor',
    'Surface Piping Length', 'Investment Tax Credit Rate', 'One-time Grants Etc', 'One-time Flat License Fees Etc', 'Other Incentives',
    'Annual License Fees Etc', 'Tax Relief Per Year', 'Maximum Drawdown', 'Absorption Chiller Capital Cost', 'Absorption Chiller O&M Cost',
    'Heat Pump Capital Cost', 'Electricity Rate', 'Heat Rate'}


def base_config(rnd, **kw):
    c = configs.synthetic(rnd, addons=False, **kw)
    c = [(k, v) for k, v in c if k not in COST_KEYS and not k.startswith('AddOn')]
    c.append(('Maximum Drawdown', '1'))
    return c


def with_(cfg, extra):
    return runner.params_to_text(list(cfg) + [(k, configs.fmt(v)) for k, v in extra])


def gen_pairs(ctx):
    """-> list of (kind, desc, text_a, text_b)"""
    rnd = ctx.rng
    pairs = []
    cells = [(e, p) for e in configs.ENDUSES for p in (configs.ELEC_PLANTS if e != 2 else [5, 6, 9])]
    n = ctx.n(1, 12)
    for econm in (1, 2, 3):
        for (eu, pl) in cells:
            for _ in range(n):
                life = rnd.choice([2, 3, 5, 10, 20, 30])
                cfg = base_config(rnd, enduse=eu, plant=pl, econ=econm, life=life, cy=rnd.choice([1, 1, 2, 3]))
                C, O, r = configs.dec(rnd, 20, 150, 1), configs.dec(rnd, 0.5, 6, 2), configs.dec(rnd, 0.03, 0.12, 3)
                costs = lambda k: [('Total Capital Cost', float(F(str(C)) * k)), ('Total O&M Cost', float(F(str(O)) * k)),
                                   ('Electricity Rate', float(F(str(r)) * k))]
                desc = {'econ': econm, 'enduse': eu, 'plant': pl, 'life': life, 'C': C, 'O': O, 'rate': r}
                kind = rnd.choice(['scale', 'scale', 'price', 'neutral-itc', 'neutral-grant'] + (['efficiency'] * 3 if (eu, pl) == (2, 9) else []))
                if kind == 'scale':
                    k = rnd.choice([F(1, 2), F(2), F(3)])
                    pairs.append(('scale', {**desc, 'k': str(k)}, with_(cfg, costs(1)), with_(cfg, costs(k))))
                elif kind == 'price':
                    d = configs.dec(rnd, 0.005, 0.03, 3)
                    bump = [(k2, configs.fmt(round(float(v) + d, 6))) if k2.startswith(('Starting', 'Ending')) and 'Sale Price' in k2 else (k2, v)
                            for k2, v in cfg]
                    have = {k2 for k2, _ in cfg}
                    extra_a, extra_b = [], []
                    for prod, s0, e0 in (('Electricity', 0.055, 0.055), ('Heat', 0.025, 0.025), ('Cooling', 0.025, 0.025)):
                        if f'Starting {prod} Sale Price' not in have:
                            extra_a += [(f'Starting {prod} Sale Price', s0), (f'Ending {prod} Sale Price', e0)]
                            extra_b += [(f'Starting {prod} Sale Price', round(s0 + d, 6)), (f'Ending {prod} Sale Price', round(e0 + d, 6))]
                    pairs.append(('price', {**desc, 'delta': d}, with_(cfg, costs(1) + extra_a), with_(bump, costs(1) + extra_b)))
                elif kind == 'efficiency':
                    eff = next(float(v) for k2, v in cfg if k2 == 'End-Use Efficiency Factor')
                    half = [(k2, configs.fmt(eff / 2)) if k2 == 'End-Use Efficiency Factor' else (k2, v) for k2, v in cfg]
                    pairs.append(('efficiency', {**desc, 'eff': eff}, with_(cfg, costs(1)), with_(half, costs(1))))
                elif kind == 'neutral-itc':
                    # the base already carries grants / incentives / fees: a zero-rate credit must not switch anything on or off
                    other = [('One-time Grants Etc', configs.dec(rnd, 0.5, 8, 2)), ('Other Incentives', configs.dec(rnd, 0.1, 3, 2)),
                             ('One-time Flat License Fees Etc', configs.dec(rnd, 0.1, 3, 2))]
                    other = [o for o in other if rnd.random() < 0.7] or other[:1]
                    pairs.append(('neutral', {**desc, 'what': 'Investment Tax Credit Rate = 0'}, with_(cfg, costs(1) + other),
                                  with_(cfg, costs(1) + other + [('Investment Tax Credit Rate', 0)])))
                else:
                    other = [('Investment Tax Credit Rate', configs.dec(rnd, 0.05, 0.4, 2))] if rnd.random() < 0.6 else []
                    pairs.append(('neutral', {**desc, 'what': 'One-time Grants Etc = 0'}, with_(cfg, costs(1) + other),
                                  with_(cfg, costs(1) + other + [('One-time Grants Etc', 0)])))
    for _ in range(ctx.n(6, 60)):    # cost scaling with redrilling: the amortised (Cwell + Cstim) x redrillings / lifetime term of
        # O&M comes from the drilling and stimulation correlations, so their adjustment factors are cost inputs to scale too
        eu = rnd.choice(configs.ENDUSES)
        pl = rnd.choice(configs.ELEC_PLANTS if eu != 2 else [9])
        cfg = [(k2, v) for k2, v in base_config(rnd, enduse=eu, plant=pl, resmodel=4, life=rnd.choice([10, 20, 30]))
               if k2 not in ('Maximum Drawdown', 'Drawdown Parameter')]
        cfg += [('Maximum Drawdown', configs.fmt(configs.dec(rnd, 0.05, 0.3, 2))), ('Drawdown Parameter', configs.fmt(configs.dec(rnd, 0.01, 0.04, 3)))]
        C, O, r = configs.dec(rnd, 20, 150, 1), configs.dec(rnd, 0.5, 6, 2), configs.dec(rnd, 0.03, 0.12, 3)
        a, st = configs.dec(rnd, 0.5, 1.5, 2), configs.dec(rnd, 0.5, 1.5, 2)
        k = rnd.choice([F(1, 2), F(2), F(3)])
        costs = lambda kk: [('Total Capital Cost', float(F(str(C)) * kk)), ('Total O&M Cost', float(F(str(O)) * kk)),
                            ('Electricity Rate', float(F(str(r)) * kk)),
                            ('Well Drilling and Completion Capital Cost Adjustment Factor', float(F(str(a)) * kk)),
                            ('Reservoir Stimulation Capital Cost Adjustment Factor', float(F(str(st)) * kk))]
        d = dict(cfg)
        pairs.append(('scale', {'econ': int(d['Economic Model']), 'enduse': eu, 'plant': pl, 'life': int(d['Plant Lifetime']), 'k': str(k),
                                'redrilling': True, 'C': C, 'O': O, 'rate': r}, with_(cfg, costs(1)), with_(cfg, costs(k))))
    # efficiency halved with the costs left to the correlations: nothing on the cost side may depend on the end-use efficiency
    # (the O&M labour correlation switches form at 12.5 MWth of EXTRACTED heat; the bases put the peak between 12.5 and 25 MWth)
    for econm in (1, 2, 3):
        for flow in ((35, 55) if ctx.quick else (32, 35, 40, 45, 50, 55, 58)):
            cfg = [(k2, v) for k2, v in base_config(rnd, enduse=2, plant=9, econ=econm, resmodel=4, life=rnd.choice([5, 10, 20]), nseg=1)
                   if k2 not in ('Number of Production Wells', 'Number of Injection Wells', 'Production Flow Rate per Well', 'Gradient 1',
                                 'Reservoir Depth', 'Injection Temperature', 'End-Use Efficiency Factor', 'Maximum Temperature')]
            cfg += [('Number of Production Wells', '1'), ('Number of Injection Wells', '1'), ('Production Flow Rate per Well', str(flow)),
                    ('Gradient 1', '50'), ('Reservoir Depth', '3'), ('Injection Temperature', '70'), ('Maximum Temperature', '400')]
            d = dict(cfg)
            desc = {'econ': econm, 'enduse': 2, 'plant': 9, 'life': int(d['Plant Lifetime']), 'eff': 1.0, 'costs': 'correlations', 'flow': flow}
            pairs.append(('efficiency', desc, with_(cfg, [('End-Use Efficiency Factor', 1.0)]), with_(cfg, [('End-Use Efficiency Factor', 0.5)])))
    # the product's own price raised with carbon accounting switched on (the revenue total is assembled a second time there)
    for (eu, pl) in ((1, 1), (2, 9), (2, 5), (2, 6), (31, 2), (52, 1)):
        for _ in range(ctx.n(1, 4)):
            cfg = [(k2, v) for k2, v in base_config(rnd, enduse=eu, plant=pl, life=rnd.choice([3, 10, 20]), cy=rnd.choice([1, 2]))
                   if 'Carbon' not in k2 and 'Sale Price' not in k2]
            cfg += [('Do Carbon Price Calculations', 'True'), ('Starting Carbon Credit Value', configs.fmt(configs.dec(rnd, 0, 0.05, 3))),
                    ('Ending Carbon Credit Value', configs.fmt(configs.dec(rnd, 0.05, 0.2, 3)))]
            dlt = configs.dec(rnd, 0.005, 0.03, 3)
            pa, pb = [], []
            for prod, s0 in (('Electricity', 0.055), ('Heat', 0.025), ('Cooling', 0.025)):
                pa += [(f'Starting {prod} Sale Price', s0), (f'Ending {prod} Sale Price', s0)]
                pb += [(f'Starting {prod} Sale Price', round(s0 + float(dlt), 6)), (f'Ending {prod} Sale Price', round(s0 + float(dlt), 6))]
            d = dict(cfg)
            costs = [('Total Capital Cost', 80), ('Total O&M Cost', 3), ('Electricity Rate', 0.07)]
            pairs.append(('price', {'econ': int(d['Economic Model']), 'enduse': eu, 'plant': pl, 'life': int(d['Plant Lifetime']), 'delta': dlt,
                                    'carbon': True}, with_(cfg, costs + pa), with_(cfg, costs + pb)))
    # the product's own escalation rate raised (prices rise from the escalation start year towards a distant ending price)
    for (eu, pl) in ((1, 1), (2, 9), (2, 5), (2, 6), (32, 2)):
        for _ in range(ctx.n(1, 4)):
            cfg = [(k2, v) for k2, v in base_config(rnd, enduse=eu, plant=pl, life=rnd.choice([3, 10, 20]), cy=rnd.choice([1, 2]))
                   if 'Sale Price' not in k2 and 'Escalation' not in k2]
            pa, pb = [], []
            for prod, s0 in (('Electricity', 0.055), ('Heat', 0.025), ('Cooling', 0.025)):
                common = [(f'Starting {prod} Sale Price', s0), (f'Ending {prod} Sale Price', round(s0 + 0.5, 3)),
                          (f'{prod} Escalation Start Year', rnd.choice([0, 1]))]
                r0 = configs.dec(rnd, 0, 0.004, 4)
                own = prod in ({1: ('Electricity',), 2: (('Cooling',) if pl == 5 else ('Heat',))}.get(eu, ('Electricity', 'Heat')))
                pa += common + [(f'{prod} Escalation Rate Per Year', r0)]
                pb += common + [(f'{prod} Escalation Rate Per Year', round(float(r0) + 0.003, 4) if own else r0)]   # only what is sold
            d = dict(cfg)
            costs = [('Total Capital Cost', 80), ('Total O&M Cost', 3), ('Electricity Rate', 0.07)]
            pairs.append(('price', {'econ': int(d['Economic Model']), 'enduse': eu, 'plant': pl, 'life': int(d['Plant Lifetime']), 'delta': 0.003,
                                    'what': 'escalation rate'}, with_(cfg, costs + pa), with_(cfg, costs + pb)))
    for j in range(ctx.n(6, 60)):    # zero add-on; with more than one construction year the add-on report writer of the pinned tree
        # aborts after Calculate (finding of C09), so these pairs are judged on the post-Calculate snapshot
        eu = rnd.choice(configs.ENDUSES)
        pl = rnd.choice(configs.ELEC_PLANTS if eu != 2 else [9])
        cfg = base_config(rnd, enduse=eu, plant=pl, cy=(1, 2, 1, 3)[j % 4])
        extra = [('Total Capital Cost', 80), ('Total O&M Cost', 3), ('Electricity Rate', 0.07)]
        addon = [('AddOn Nickname 1', 'nothing'), ('AddOn CAPEX 1', 0), ('AddOn OPEX 1', 0), ('AddOn Electricity Gained 1', 0),
                 ('AddOn Heat Gained 1', 0), ('AddOn Profit Gained 1', 0)]
        d = dict(cfg)
        pairs.append(('neutral', {'econ': int(d['Economic Model']), 'enduse': eu, 'plant': pl, 'life': int(d['Plant Lifetime']),
                                  'what': 'zero add-on'}, with_(cfg, extra), with_(cfg, extra + addon)))
    return pairs


def outputs(R):
    e = R.e
    return {'LCOE': e('LCOE'), 'LCOH': e('LCOH'), 'LCOC': e('LCOC'), 'NPV': e('ProjectNPV'), 'CCap': e('CCap'), 'Coam': e('Coam')}


def energies(R):
    return [R.series('surfaceplant', n) for n in ('NetkWhProduced', 'HeatkWhProduced', 'cooling_kWh_Produced', 'PumpingkWh')]


def check_pairs(ctx, pairs):
    texts = [t for p in pairs for t in (p[2], p[3])]
    res = runner.run_many(ctx, texts)
    terms, owners = [], []
    q = econ.q15
    tol = qconv.q(TOL)
    for i, (kind, desc, ta, tb) in enumerate(pairs):
        ra, rb = res[2 * i], res[2 * i + 1]
        # (only the known abort of the add-on report writer for more than one construction year is tolerated: C09's finding)
        addon_cy = (kind == 'neutral' and desc.get('what') == 'zero add-on' and ra['ok'] and rb['snap'] is not None
                    and (rb['ok'] or econ.Run(ra['snap']).cy > 1))
        if not (ra['ok'] and rb['ok'] and ra['snap'] and rb['snap']) and not addon_cy:
            if kind == 'neutral' and ra['ok'] and not rb['ok']:
                # the neutral element must change nothing - in particular it must not make the run fail
                ctx.count('run-pairs', evaluations=1, nontrivial_keys=[(kind, 'crash', desc.get('what'))])
                ctx.violate('property', f'neutral:crash:{desc["what"]}',
                            f'adding the neutral element "{desc["what"]}" makes a successful run fail: {rb["error"]}',
                            inp={'pair_kind': kind, 'desc': desc, 'input_text_a': ta, 'input_text_b': tb}, observed=rb['error'],
                            expected='same results as without it')
                continue
            ctx.count('run-pairs', rejected={kind + ': ' + ((ra['error'] or rb['error'] or 'no snapshot')[:50]): 1})
            continue
        A, Bn = econ.Run(ra['snap']), econ.Run(rb['snap'])
        oa, ob = outputs(A), outputs(Bn)
        if not econ.finite(list(oa.values()) + list(ob.values())):
            ctx.count('run-pairs', rejected={kind + ': non-finite outputs': 1})
            continue
        ts = []
        same_energy = energies(A) == energies(Bn)
        if kind == 'scale':
            k = qconv.q(F(desc['k']))
            if not same_energy:
                ts.append(('production-fixed', 'false'))
            for n in ('LCOE', 'LCOH', 'LCOC', 'CCap', 'Coam'):
                ts.append((n, f'close {tol} ({k} * {q(oa[n])}) {q(ob[n])}'))
        elif kind == 'price':
            if not same_energy:
                ts.append(('production-fixed', 'false'))
            for n in ('LCOE', 'LCOH', 'LCOC', 'CCap', 'Coam'):
                ts.append((n + '-unchanged', f'Qeq_bool {econ.qx(oa[n])} {econ.qx(ob[n])}'))
            sold = [x for s in energies(A)[:3] for x in s]
            if A.kind == 'KElec':
                sold = energies(A)[0]
            elif A.kind == 'KHeat':
                sold = energies(A)[1]
            elif A.kind == 'KCool':
                sold = energies(A)[2]
            else:
                sold = energies(A)[0] + energies(A)[1]
            if sold and all(x > 0 for x in sold):
                ts.append(('NPV-increases', f'Qltb {econ.qx(oa["NPV"])} {econ.qx(ob["NPV"])}'))
            elif sold and all(x >= 0 for x in sold):
                ts.append(('NPV-nondecreasing', f'Qleb {econ.qx(oa["NPV"])} {econ.qx(ob["NPV"])}'))
        elif kind == 'efficiency':
            ts.append(('LCOH-doubles', f'close {tol} (2 * {q(oa["LCOH"])}) {q(ob["LCOH"])}'))
            ts.append(('heat-halves', 'true' if all(abs(2 * y - x) <= 1e-9 * abs(x) for x, y in zip(energies(A)[1], energies(Bn)[1])) else 'false'))
        else:
            for n in oa:
                ts.append((n + '-unchanged', f'Qeq_bool {econ.qx(oa[n])} {econ.qx(ob[n])}'))
            if desc.get('what') == 'zero add-on' and rb['snap'].get('addeconomics'):
                # the project "including add-ons" is the project: its capital, O&M and (where the add-on cash flow counts every
                # revenue of the base, i.e. electricity and heat sales only) its NPV are those of the run without the add-on
                av = lambda n: Bn.s.v('addeconomics', n)
                ts.append(('project-capex-incl-addons', f'close {tol} {q(oa["CCap"])} {q(av("AdjustedProjectCAPEX"))}'))
                ts.append(('project-opex-incl-addons', f'close {tol} {q(oa["Coam"])} {q(av("AdjustedProjectOPEX"))}'))
                carbon = any(x != 0 for x in (A.series('economics', 'CarbonRevenue') or [0]))
                cooling = any(x != 0 for x in (A.series('economics', 'CoolingRevenue') or [0]))
                if not carbon and not cooling and econ.finite([av('ProjectNPV')]):
                    ts.append(('project-npv-incl-addons', f'close {qconv.q(1e-7)} {q(oa["NPV"])} {q(av("ProjectNPV"))}'))
        for name, t in ts:
            terms.append(t)
            owners.append((kind, name, desc, ta, tb, oa, ob))
        nontriv = A.life >= 2 and same_energy or kind == 'efficiency'
        ctx.count('run-pairs', nontrivial_keys=[(kind, A.econ, A.enduse, A.plant, desc.get('k'), desc.get('what'))] if nontriv else [],
                  kind=kind, econ=A.econ, enduse=A.enduse, plant=A.plant)
        ctx.sample('run-pairs', {'kind': kind, **{k: v for k, v in desc.items()}, 'a': oa, 'b': ob}, limit=4)
    failing = fw.kernel_bools(ctx, 'pairs', ['Model.CashFlow'], terms)
    ctx.count('run-pairs', evaluations=len(terms))
    for i in failing[:8]:
        kind, name, desc, ta, tb, oa, ob = owners[i]
        ctx.violate('property', f'{kind}:{name}:econ={desc["econ"]},enduse={desc["enduse"]},plant={desc["plant"]}',
                    f'{kind} pair: {name} fails on {desc}: first run {oa}, second run {ob}',
                    inp={'pair_kind': kind, 'desc': desc, 'input_text_a': ta, 'input_text_b': tb}, observed={'a': oa, 'b': ob})
    return failing


def correspondence(ctx, proofs_ok=True):
    check_pairs(ctx, gen_pairs(ctx))


def replay(ctx, data):
    inp = data['input']
    check_pairs(ctx, [(inp['pair_kind'], inp['desc'], inp['input_text_a'], inp['input_text_b'])])
    for v in ctx.violations:
        print(v.kind, v.key, v.what[:400])
    print('property', 'VIOLATED' if ctx.violations else 'holds', 'on this pair')
    return 1 if ctx.violations else 0
