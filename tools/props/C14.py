"""C14 - Monte Carlo rows are reproducible and the statistics describe them."""
import json

from lib import framework as fw, mcharness as mc, qconv

REQ = ['Model.MonteCarlo', 'Model.MCRows', 'Model.MCStats', 'Proofs.MCRowsProofs']
TOL = '(1#1000000000)'
STATS = ['minimum', 'maximum', 'median', 'average', 'mean', 'standard deviation']
META = {
    'props': 'Props/C14.v',
    'claimed': True,
    'level_text': ('Proof (partial): the row codec of the result file is modelled on strings. Proved for every number of outputs and every '
                   'text of sampled inputs: a row assembled by work_package from tokens without comma/parenthesis/blank is re-read by the '
                   'statistics step as exactly those tokens in order; columns line up with the header iff every requested output is found '
                   'exactly once in the report (REFUTED otherwise: the code skips what it does not find - known finding, reproduced on the '
                   'real driver); every sampled input is a line of its own of the iteration input for every base file (current code, db0b708; '
                   'the earlier append without new line is kept as input_file_pinned with its _refuted theorem and a corpus seed); atomic '
                   'appends in any order give a permutation of the rows and under the lock protocol without time-out the file holds '
                   'exactly the finished work packages; a failing iteration removes its own row only; minimum, maximum, median, mean '
                   'and variance are permutation invariant and ordered (min <= median, mean <= max). Tied to the current code on every run: '
                   'every row of real runs (HIP-RA-X and GEOPHIRES, 1..16 workers, injected failing iterations) is re-simulated through the '
                   "program's client and the row recomputed by the Coq model from that report must equal the row byte for byte; header, "
                   'statistics block and JSON are recomputed by the Coq model from the rows.'),
    'level_note': ('Trusted: Coq kernel + vm_compute; the Python harness (driver process, independent row/statistics parsing, conversion of '
                   'floats to exact rationals); single write() on an O_APPEND descriptor is atomic (no torn rows) - observed, not proved; '
                   'standard deviation is compared through its square; floating-point rounding of numpy within 1e-9 relative.'),
    'technique': 'Coq proof about an executable Gallina model + kernel-evaluated correspondence with the implementation',
    'rule': ('settings files from one PRNG (2-6 inputs over the five distributions, 1-4 outputs) on the HIP-RA-X base with 1/4/16 workers, '
             'one with a distribution that straddles a parameter bound (failing iterations), one GEOPHIRES run, two settings files with an '
             'OUTPUT label that no report carries, a forced arrival at the lock while another work package is inside (pass phrases observed), two API '
             'calls in one process onto the same output path, settings with one / two short-valued outputs (output part of a row <= 10 characters); every one of '
             'the ITERATIONS work packages must have been executed and rows = iterations whose own simulation succeeds; every row is re-simulated; a row is non-trivial when its sampled vector is new; '
             'evaluations = rows replayed + statistics compared + headers'),
    'trusted_base': ['Coq 8.16.1 kernel + vm_compute (no native_compute)',
                     'all C14 theorems: Closed under the global context (no axioms)',
                     'hand-written models coq/Model/MCRows.v, MCStats.v, MonteCarlo.v (lock) tied to MC_GeoPHIRES3.work_package/main by '
                     'byte-exact recomputation of real result files (tools/lib/mc_driver.py, mcharness.py, tools/props/C14.py: unverified Python)'],
    'modelled': ['MC_GeoPHIRES3.work_package (get_output, row assembly)', 'MC_GeoPHIRES3.main (header, row parsing, statistics, JSON)',
                 'numpy nanmin/nanmax/nanmedian/average/nanmean/nanstd (axis 0) over exact rationals', 'Python str.strip/split/partition/replace'],
    'assumptions': ['a row is handed to the file object by one fd.write(result_s) followed by fd.flush(): TextIOWrapper and BufferedWriter pass it '
                    'to the raw file as one write() whatever its length (shorter than the buffer: at flush; longer: directly), so only the '
                    'operating system could split it (partial write); observed on every run: exactly one complete raw write() per row, and '
                    'the largest row is recorded next to the buffer size (evidence: row-writes); C14_row_length_bound bounds a row by its tokens',
                    'names and values of sampled inputs contain neither a new line nor ", " (true of every settings file: lines are split on commas)',
                    'a row is written by one write() on an O_APPEND descriptor (atomic)',
                    'pylocker mutual exclusion is NOT assumed (C13_row_count_partial); rows lost by the lock time-out are reported under C13'],
    'fingerprint': [('src/geophires_monte_carlo/MC_GeoPHIRES3.py', 'work_package'), ('src/geophires_monte_carlo/MC_GeoPHIRES3.py', 'main')],
}


def _b(text):
    return qconv.coq_bytes(text.encode('utf-8'))


def _slist(items):
    return '[' + '; '.join(items) + ']'


def _q(x):
    return qconv.q(qconv.F(x))


def _inp(run, **extra):
    d = {'settings': run.settings, 'W': run.W, 'mode': run.mode, 'program': run.program}
    if getattr(run, 'settings_first', None):
        d['settings_first'] = run.settings_first
    if run.program != 'HIP_RA_X' or run.base != mc.hiprax_base():
        d['base'] = run.base
    return dict(d, **extra)


def analyse(ctx, run, bools, reports):
    inputs, outputs, iterations = mc.parse_settings(run.settings, run.base)
    names = [n for n, w, _ in inputs if mc.dist_of(w)]
    part = f'{run.program}-rows'
    if run.result_text is None:
        ctx.violate('property', 'summary:no-result-file', f'no result file was written ({run.main_error})', inp=_inp(run))
        return
    lines = run.result_text.split('\n')
    header, rows, rest = mc.parse_result(run.result_text)
    # --- header
    bools.append((f'String.eqb (render_header {_slist(map(_b, outputs))} {_slist(_b(n) for n, _, _ in inputs)}) {_b(lines[0] + chr(10))}',
                  lambda: ctx.violate('corr', 'header', 'header line differs from the modelled one', inp=_inp(run),
                                      expected='render_header outputs inputs', observed=lines[0])))
    if header != outputs + [n for n, _, _ in inputs]:
        ctx.violate('property', 'alignment:header', 'header columns are not the requested outputs followed by the sampled inputs, the order in '
                    'which every row is written', inp=_inp(run), expected=outputs + [n for n, _, _ in inputs], observed=header)
    # --- a failing iteration costs its own row only: every one of the ITERATIONS work packages was started, and the file holds
    #     result_rows (C14_failure_local) of the per-iteration outcomes (rows dropped by the lock layer are C13's)
    if len(run.tasks) != iterations:
        ctx.violate('property', 'failure-local:iterations-not-run',
                    f'{len(run.tasks)} of the {iterations} iterations were executed ({len(run.tasks) - len(run.ok_tasks)} failed): iterations that '
                    'did not fail themselves left no row', inp=_inp(run), expected=iterations,
                    observed={'started': len(run.tasks), 'failed': len(run.tasks) - len(run.ok_tasks), 'rows': len(rows)})
    lock_lost = sum(1 for t in run.ok_tasks if mc.lock_loss_reason(t) in ('lock-timeout',))
    flags = _slist('Some tt' if t['status'] == 'ok' else 'None' for t in run.tasks)
    bools.append((f'Nat.eqb (List.length (result_rows (fun t => nth t {flags} None) (seq 0 {len(run.tasks)}%nat))) {len(rows) + lock_lost}%nat',
                  lambda: ctx.violate('property', 'failure-local:rowcount', f'{len(rows)} rows for {len(run.ok_tasks)} iterations whose own simulation '
                                      f'succeeded ({len(run.tasks)} executed)', inp=_inp(run), expected=len(run.ok_tasks), observed=len(rows))))
    # --- two API requests with the default output file: each result keeps its own file, the first one still holds its own run
    if getattr(run, 'default_output', False) and len(run.api) == 2:
        a0, a1 = run.api
        if a0['path'] == a1['path'] or a0['result_text_after'] != a0['result_text'] or a0['json_text_after'] != a0['json_text']:
            ctx.violate('property', 'summary:api-default-output-shared', 'after a second request with the default output file the first MonteCarloResult no longer '
                        f'points at its own run: paths {"equal" if a0["path"] == a1["path"] else "differ"}, its result file now has '
                        f'{len(mc.parse_result(a0["result_text_after"] or chr(10))[1])} rows (the first run wrote {len(mc.parse_result(a0["result_text"])[1])})',
                        inp=_inp(run, default_output=True), expected='two result files, the first unchanged',
                        observed={'paths': [a0['path'], a1['path']], 'first_unchanged': a0['result_text_after'] == a0['result_text']})
    # --- the lock: one pass phrase per work package (the model's pass = identity), and no entry while another is inside
    passes = [t['lock_pass'] for t in run.tasks if t.get('lock_pass')]
    if len(set(passes)) < len(passes):
        ctx.violate('corr', 'append:shared-lock-pass', f'{len(passes)} work packages took the result-file lock under {len(set(passes))} pass phrase(s): '
                    'pylocker grants the lock at once to a contender whose pass phrase is the stored one (C14_distinct_pass_excludes needs distinct ones)',
                    inp=_inp(run), expected='a fresh pass phrase per work package', observed=sorted(set(passes))[:3])
    if run.mode == 'lockoverlap':
        roles = {t['role']: t for t in run.tasks}
        seen = [roles[k].get('overlap') for k in 'AB' if k in roles]
        if len(seen) == 2 and None not in seen:
            inside = bool(seen[0] or seen[1])
            if inside:
                ctx.violate('property', 'append:no-mutual-exclusion', 'a work package was let into the critical section of the result file while another one '
                            'was held inside it (its pass phrase verified in the lock file): appends are not serialised, rows can interleave',
                            inp=_inp(run), expected='the second work package polls until the first has released',
                            observed={'B acquired while A inside': seen, 'pass phrases distinct': len(set(passes)) == len(passes)})
            bools.append((f'Bool.eqb (phase_eqb (phases (lrun_pass (fun t => t) true linit overlap_schedule) 1%nat) PIdle) {str(not inside).lower()}',
                          lambda: ctx.violate('corr', 'lockmodel:overlap', 'whether the second work package gets in while the first is inside differs from the lock model',
                                              inp=_inp(run), expected='stays outside (PIdle)', observed=seen)))
        else:
            ctx.note(f'forced overlap: could not be observed ({seen})')
    # --- every successful work package left one well-formed row, nothing else is in the row area
    found_all = None
    if any(t['trace'] for t in run.ok_tasks):
        pairs, foreign, missing = mc.match_rows(run, rows)
        # the atomic-append premise of C14_interleave: each row reaches the raw file as ONE complete write() of exactly the row
        nbytes = [len((r['line'] + chr(10)).encode('utf-8')) for r, _ in pairs]
        for (r, t), n in zip(pairs, nbytes):
            if t.get('writes') and t['writes'] != [[n, n]]:
                ctx.violate('corr', 'append:not-single-write', f'a row of {n} bytes reached the result file as write() calls {t["writes"]} '
                            '(asked, written): appends are not atomic, C14_interleave does not apply', inp=_inp(run, row=r['line']),
                            expected=[[n, n]], observed=t['writes'])
        if nbytes:
            ctx.count('row-writes', evaluations=len(nbytes), max_row_bytes={max(nbytes): 1},
                      file_buffer_bytes={(pairs[0][1].get('blksize') or 0): 1})
        for r in foreign[:2]:
            ctx.violate('property', 'rows:foreign', 'a row of the result file carries sampled values no successful iteration drew '
                        '(torn, interleaved or written by a failed iteration)', inp=_inp(run), observed=r['line'][:300])
        if missing:
            ctx.note(f'{run.name}: {len(missing)} finished work package(s) without a row ({[mc.lock_loss_reason(t) for t in missing]}): row loss is C13')
    # --- re-simulate the rows and recompute them with the model
    chosen = rows[:len(reports)]
    fresh = set()
    for r, rep in zip(chosen, reports):
        key = tuple(v for _, v in r['ins'])
        if rep is None:
            ctx.violate('property', 'replay:row-of-failing-input', 'a row records sampled values with which the simulation fails',
                        inp=_inp(run, row=r['line']), observed=r['line'][:300])
            continue
        want = mc.report_tokens(rep, outputs)
        found_all = found_all is not False and all(w is not None for w in want)
        term = (f'String.eqb (render_row {_slist(map(_b, outputs))} {_slist(_b(ln) for ln in rep.splitlines(True))} '
                f'{_slist(f"({_b(n)}, {_b(v)})" for n, v in r["ins"])}) {_b(r["line"] + chr(10))}')

        def bad(r=r, want=want):
            if [n for n, _ in r['ins']] == names and r['outs'] != [w for w in want if w is not None]:
                glued = not run.base.endswith(chr(10))
                ctx.violate('property', 'replay:base-without-final-newline' if glued else 'replay:outputs-differ',
                            'simulating the base input with the sampled values recorded in a row does not give the output values of that row'
                            + (' (the base file does not end with a new line: the first sampled input is glued to its last line)' if glued else ''),
                            inp=_inp(run, row=r['line']), expected=want, observed=r['outs'])
            elif [n for n, _ in r['ins']] != names:
                ctx.violate('property', 'rows:malformed', 'a row does not carry the requested inputs in the header order',
                            inp=_inp(run, row=r['line']), expected=names, observed=[n for n, _ in r['ins']])
            else:
                ctx.violate('corr', 'rowcodec', 'row differs from the one the model assembles from the re-simulated report',
                            inp=_inp(run, row=r['line']), expected='render_row (Model/MCRows.v)', observed=r['line'][:300])
        bools.append((term, bad))
        # the statistics step reads the row back as the tokens an independent reading sees (they feed the recomputed statistics)
        if r['outs']:
            bools.append((f'opt_strings_eqb (parse_row {_b(r["line"] + chr(10))}) (Some {_slist(map(_b, r["outs"]))})',
                          lambda r=r: ctx.violate('corr', 'rowparse', 'the modelled re-reading of a row differs from the independent one',
                                                  inp=_inp(run, row=r['line']), expected=r['outs'], observed='parse_row (Model/MCRows.v)')))
        fresh.add(key)
    missing_labels = found_all is False or (rows and any(len(r['outs']) != len(outputs) for r in rows))
    if missing_labels:
        ctx.violate('property', 'alignment:output-not-found',
                    f'a requested OUTPUT is not found (exactly once) in the reports: rows carry {sorted({len(r["outs"]) for r in rows})} value '
                    f'columns under a header of {len(outputs)}; summary: {run.main_error or "completed"}',
                    inp=_inp(run), expected=f'{len(outputs)} aligned columns and a summary', observed={'first_row': rows[0]['line'][:200] if rows else None,
                                                                                                     'main_error': run.main_error})
    # --- row area ends where the statistics start; statistics, text and JSON recomputed from the rows
    nstats = 0
    if not missing_labels:
        cols = [{r['outs'][j] for r in rows} for j in range(len(outputs))] if rows else []
        flat_big = [outputs[j] for j, c in enumerate(cols) if len(c) == 1 and abs(float(next(iter(c)))) >= 2 ** 52]
        if run.main_error and 'IndexError: index -9223372036854775808' in run.main_error and flat_big:
            ctx.violate('property', 'summary:histogram-constant-large-column',
                        f'the histogram step failed on the constant column {flat_big[0]} = {next(iter(cols[outputs.index(flat_big[0])]))} '
                        f'({len(rows)} row(s)): {run.main_error}; no JSON summary', inp=_inp(run), expected='text and JSON statistics of the rows',
                        observed=run.main_error)
        elif run.main_error is None and (run.json_text is None or run.stray_json):
            ctx.violate('property', 'summary:json-not-beside-result-file',
                        f'the run completed, rows and text summary are in {run.result_path.rsplit("/", 1)[-1]}, but its JSON summary is '
                        f'{"missing" if run.json_text is None else "present"} and JSON files were written elsewhere: {run.stray_json}',
                        inp=_inp(run), expected='<result file>.json and no other summary', observed=run.stray_json)
        elif run.main_error or run.json_text is None:
            ctx.violate('property', 'summary:crash', f'the summary step failed although every output was found: {run.main_error}', inp=_inp(run),
                        observed=run.main_error)
        elif rows:
            if not rest.startswith(f'{outputs[0]}:\n'):
                ctx.violate('property', 'rows:torn', 'lines that are neither rows nor statistics follow the rows', inp=_inp(run),
                            observed=rest[:300])
            js, txt = json.loads(run.json_text), mc.parse_stats_text(rest, outputs)
            if run.api:      # the summary as the client API delivers it (MonteCarloResult.result['output']) is the one that is checked
                if run.api[-1]['output'] != js:
                    ctx.violate('property', 'summary:api-json-stale', "the JSON summary returned by get_monte_carlo_result() (result.result['output']) is "
                                f'not the one of this run ({run.api[-1]["tasks"]} iterations; an earlier call in the same process wrote to the same path)',
                                inp=_inp(run), expected=js, observed=run.api[-1]['output'])
                js = run.api[-1]['output']
            for j, o in enumerate(outputs):
                try:
                    col = [qconv.F(float(r['outs'][j])) for r in rows]
                    rep = [qconv.F(float(js[o][s])) for s in STATS]
                    tx = [qconv.F(txt[o][s]) for s in STATS]
                except (KeyError, ValueError, IndexError) as e:
                    ctx.violate('property', 'stats:missing', f'statistics of {o} are missing or unreadable ({e!r})', inp=_inp(run),
                                observed={'json': js.get(o), 'text': txt.get(o)})
                    continue
                nstats += 2
                bools.append((f'stats_agree {TOL} {_slist(map(qconv.q, col))} {_slist(map(qconv.q, rep))}',
                              lambda o=o, js=js: ctx.violate('property', 'stats:json', f'reported statistics of {o} are not those of the '
                                                             f'{len(rows)} rows of the result file', inp=_inp(run, result_file=run.result_text[:6000]),
                                                             expected='MCStats.stats_agree on the column', observed=js[o])))
                bools.append(('forallb (fun p => text_agrees (fst p) (snd p)) ' + _slist(f'({qconv.q(a)}, {qconv.q(b)})' for a, b in zip(tx, rep)),
                              lambda o=o, js=js, txt=txt: ctx.violate('property', 'stats:text-vs-json', f'text summary of {o} differs from the JSON summary',
                                                                      inp=_inp(run), expected=js[o], observed=txt[o])))
    negative = sum(1 for r in rows for x in r['outs'] if x.startswith('-'))
    if 'negative' in run.name and not negative:
        ctx.note(f'{run.name}: no negative output value in the rows - the seed no longer tracks what it is there for')
    ctx.count(part, evaluations=len(chosen) + nstats + 1, nontrivial_keys=list(fresh), negative_output_values={negative: 1},
              workers={run.W: 1}, failing_iterations={len(run.tasks) - len(run.ok_tasks): 1})
    ctx.sample(part, {'W': run.W, 'settings': run.settings, 'rows': len(rows), 'failed': len(run.tasks) - len(run.ok_tasks)})


def judge(ctx, runs, bools, max_rows):
    """re-simulate the rows of all runs in one pool, then apply the oracles run by run"""
    todo = [[(run.program, run.base, r['ins']) for r in mc.parse_result(run.result_text or chr(10))[1][:max_rows]] for run in runs]
    reports = mc.resimulate(ctx, [j for js in todo for j in js])
    for run, js in zip(runs, todo):
        analyse(ctx, run, bools, reports[:len(js)])
        del reports[:len(js)]


def specs(ctx):
    rnd, q = ctx.rng, ctx.quick
    # + Project NPV (negative for example1: the sign must survive extraction, re-reading and statistics)
    # + a label that is a substring of another report line ('Drilling and completion costs per well'): the match must be exact
    geo_st = (mc.MC_TESTS / 'MC_GEOPHIRES_Settings_file.txt').read_text().rsplit('ITERATIONS', 1)[0] + 'OUTPUT, Drilling and completion costs\nOUTPUT, Project NPV\n'
    geo2_st = (mc.MC_TESTS / 'MC_GEOPHIRES_Settings_file-2.txt').read_text().rsplit('ITERATIONS', 1)[0]
    geo = (mc.MC_TESTS / 'GEOPHIRES-example1.txt').read_text()
    geo2 = (mc.MC_TESTS / 'GEOPHIRES-example_SHR-2.txt').read_text()
    failing = [('Reservoir Temperature', 'uniform', [40, 70]), ('Reservoir Area', 'uniform', [50.0, 120.0]),
               ('Reservoir Porosity', 'normal', [97, 3])]
    out = [dict(name='contended', W=16, st=mc.make_settings(rnd, 24 if q else 300)),
           dict(name='serial', W=1, st=mc.make_settings(rnd, 6 if q else 60)),
           dict(name='named', W=2, st=mc.make_settings(rnd, 6 if q else 30, output_file='{JOBDIR}/named_by_settings/MC_named.txt')),
           dict(name='failing', W=2, st=mc.make_settings(rnd, 20 if q else 200, inputs=failing, n_outputs=3)),
           dict(name='geophires', W=3, st=geo_st + f'ITERATIONS, {5 if q else 24}\n', program='GEOPHIRES', base=geo)]
    # a row longer than the buffer of the result-file object (st_blksize, 4096): 24 sampled inputs with 190-character names
    # that the simulator ignores (main() draws one histogram per input, so few long names rather than many short ones)
    many = [('Verif Unused ' + 'x' * 175 + f'{k:02d}', 'uniform', [k, k + 1]) for k in range(24)]
    out.append(dict(name='longrow', W=4, st=mc.make_settings(rnd, 4 if q else 40, inputs=many, n_outputs=2)))
    if not q:
        out += [dict(name=f'extra{k}', W=rnd.choice([2, 3, 8, 16]), st=mc.make_settings(rnd, rnd.choice([25, 80]))) for k in range(8)]
        out += [dict(name='geophires2', W=4, st=geo2_st + 'ITERATIONS, 12\n', program='GEOPHIRES', base=geo2)]
    return mc.corpus_specs('C14', q) + [o for o in out if not (q and o['name'] == 'serial')]     # seeds first: the witnesses of the two refuted clauses


def correspondence(ctx, proofs_ok=True):
    bools = []
    judge(ctx, mc.run_jobs(ctx, specs(ctx), parallel=4), bools, max_rows=16 if ctx.quick else 120)
    for i in fw.kernel_bools(ctx, 'c14', REQ, [b for b, _ in bools], shard=40, open_scope='string_scope'):
        bools[i][1]()
    ctx.count('kernel-checks', evaluations=len(bools))


def replay(ctx, data):
    inp = data['input']
    bools = []
    first = inp.get('settings_first')
    run = mc.run_job(ctx, 'replay', first or inp['settings'], W=inp['W'], mode=inp.get('mode', 'pool'), program=inp.get('program', 'HIP_RA_X'),
                     base=inp.get('base'), settings2=inp['settings'] if first else None, default_output=inp.get('default_output', False))
    judge(ctx, [run], bools, 120)
    for i in fw.kernel_bools(ctx, 'c14r', REQ, [b for b, _ in bools], shard=40, open_scope='string_scope'):
        bools[i][1]()
    header, rows, _ = mc.parse_result(run.result_text or '\n')
    print(f'run: program={run.program} W={run.W} tasks={len(run.tasks)} successful={len(run.ok_tasks)} rows={len(rows)} main_error={run.main_error}')
    print('header:', header)
    for v in ctx.violations:
        print(f'  {v.kind} {v.key}: {v.what[:300]}\n    expected: {str(v.expected)[:300]}\n    observed: {str(v.observed)[:400]}')
    bad = [v for v in ctx.violations if v.key == data['key']]
    print('property', 'VIOLATED' if bad else ('holds' if not ctx.violations else 'violated differently'), 'on this input')
    return 1 if ctx.violations else 0
