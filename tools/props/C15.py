"""C15 - pumping power and modelled pressures stay physical."""
import contextlib
import json
import os
import math
import re
import types
from fractions import Fraction as F

from lib import configs, flatcorr, framework as fw, qconv, runner, snapshot

META = {
    'props': 'Props/C15.v',
    'claimed': True,
    'level_text': ('Proof (partial where stated): 18 axiom-free Coq theorems. For EVERY lifetime, steps per year, hydrostatic pressure, '
                   'overpressure >= 100 % and depletion rate in (0, 100*k] the modelled production-reservoir series starts at p0*op/100, '
                   'never rises, drops by exactly (overpressure)/int(100k/rate) per step, reaches and never undercuts hydrostatic '
                   '(closed form max(p0, ...)); the decline is never slower than stated and exact when 100k/rate is whole; the injection '
                   'series is p0 + rate/k*t. Both clauses "the series exists" are REFUTED by the faithful model and on the real code '
                   '(rate > 100*k: ZeroDivisionError; overpressure without injection-reservoir depth/inflation rate: '
                   'UnboundLocalError) and proved under the missing hypothesis (_partial). Pumping power of both hydraulic models is '
                   '>= 0 at every step for any inputs and total = injection + production exactly (list induction). Friction: laminar '
                   'DP = c/D^4 exact and monotone; any regime monotone under the premise "friction factor grows slower than D^5", '
                   'which is checked on the real WellPressureDrop in every run (partial). Tie: predictors executed on exact '
                   'rationals and compared for equality in the Coq kernel; hook snapshots of whole runs (both hydraulic models, '
                   'pumped/flash, overpressure) re-evaluated by the models and by reflective checkers inside Coq.'),
    'level_note': ('Trusted: Coq kernel + vm_compute; Python harness; CoolProp density/viscosity, pi and the Colebrook iterate enter the '
                   'friction/pumping models as data read from the implementation; float rounding is outside the theorems '
                   '(whole-run comparisons use 1e-9, sign and monotonicity checks on implementation data are exact).'),
    'technique': 'Coq proof about an executable Gallina model + kernel-evaluated correspondence with the implementation',
    'rule': ('(a) predictor tuples (lifetime, steps/yr, p0, overpressure, rate): exhaustive small domain + seeded random, called on '
             'fractions.Fraction (exact) and on floats; non-trivial = overpressure != 100 with a distinct (k, step count, floor '
             'reached?) signature; (b) whole runs through main() with hook snapshots over hydraulic model x pumped/flash x '
             'overpressure/split reservoir x artesian/thermosiphon settings; non-trivial = distinct (model, pumping, which clamps '
             'are active, overpressure) signature; (c) diameter sweeps of the real WellPressureDrop/InjectionWellPressureDrop with '
             'random temperature/flow/depth incl. laminar flow and the regime switch; non-trivial = distinct (regime pair, well); '
             '(d) the four hydraulic functions (index and impedance model, production and injection) called on the real friction '
             'factors with everything equal but one diameter, with and without the friction term, plus whole-run pairs through '
             'main() differing in one well diameter (Ramey off): pump pressure, its friction share and pumping power must not grow; '
             '(e) static pressure and the hydrostatic correlation on random and on every run\'s inputs, intermediates recorded from '
             'the real functions; (f, thorough) every offline example incl. SBT / SUTRA / cylindrical wellbores: pumping power >= 0'),
    'trusted_base': ['Coq 8.16.1 kernel + vm_compute (no native_compute)',
                     'all C15 theorems: Closed under the global context (no axioms)',
                     'hand-written models coq/Model/Pressure.v, Pumping.v, Friction.v tied to WellBores.py by exact-call and '
                     'snapshot correspondence evaluated in the kernel (tools/props/C15.py: unverified Python)'],
    'modelled': ['WellBores.ReservoirPressurePredictor', 'WellBores.InjectionReservoirPressurePredictor',
                 'overpressure branch of WellBores.Calculate', 'pumping-power formulas and clamps of both hydraulic models',
                 'Darcy-Weisbach pressure loss and laminar friction factor; CoolProp density/viscosity, Colebrook iterate, pi: data',
                 'GeoPHIRESUtils.static_pressure_MPa, WellBores.get_hydrostatic_pressure_kPa (math.exp, ** and CoolProp density: data recorded '
                 'from the real call)', 'second WellBores.Calculate pass of district-heating runs (Model.Calculate)',
                 'composition of DPProdWell / DPInjWell / DPOverall from friction, gravity, drawdown and wellhead terms in the four '
                 'hydraulic functions (vapour pressure / wellhead and plant-outlet pressure: data)'],
    'assumptions': ['float rounding of the arithmetic is not modelled (predictors are also executed on exact rationals)',
                    'int((100.0/rate)*k) is computed in floats by the code; inputs where float and exact truncation differ '
                    '(e.g. rate 0.07, k 21: 29999 vs 30000) are counted and only checked qualitatively',
                    'turbulent friction clause is conditional on the growth premise, checked numerically on every run'],
    'fingerprint': [('src/geophires_x/WellBores.py', f) for f in (
        'ReservoirPressurePredictor', 'InjectionReservoirPressurePredictor', 'WellPressureDrop', 'InjectionWellPressureDrop',
        'ProdPressureDropsAndPumpingPowerUsingImpedenceModel', 'InjPressureDropsAndPumpingPowerUsingImpedenceModel',
        'ProdPressureDropAndPumpingPowerUsingIndexes', 'InjPressureDropAndPumpingPowerUsingIndexes', 'WellBores.Calculate',
        'get_hydrostatic_pressure_kPa')] + [('src/geophires_x/GeoPHIRESUtils.py', 'static_pressure_MPa')],
}
META['level_text'] += (' Round 2: the static column rho*g*depth and the rational part of the built-in hydrostatic correlation are modelled (positive; '
                       'monotone in depth up to the vertex 1/(CT*grad), refuted beyond; lower bound by the corrected linear column), with exp / '
                       'Trock**-0.552 / CoolProp density recorded from the real call; velocity, Reynolds number (= rho v D/mu), the laminar/'
                       'turbulent switch (2300 goes to the turbulent branch, one branch per series decided by the average Re) and the per-step '
                       'Darcy-Weisbach loss are proved and each intermediate is read out of the real functions; the second WellBores.Calculate '
                       'of district-heating runs is modelled (TypeError with overpressure: refuted clause + finding); thorough tier checks '
                       'pumping power >= 0 on every offline example of every wellbore class (SBT, SUTRA, ...).')
META['level_text'] += (' The friction term is proved to enter every pump pressure with a plus sign (C15_friction_enters_with_plus_sign), so pump '
                       'pressure and clamped pumping power of both models never grow with the diameter under the same premise '
                       '(C15_prod/inj_pump_vs_diameter_partial, C15_impedance_vs_friction); tied by calling the four real hydraulic functions '
                       'with and without friction over diameter sweeps and by whole-run pairs differing in one diameter.')

TOL = F(1, 10 ** 9)
TINY = F(1, 10 ** 12)
K_ZERO = 'prod-pressure:ZeroDivisionError:depletion-rate>100*steps-per-year'
K_UNBOUND = 'inj-pressure:UnboundLocalError:overpressure-without-injection-reservoir'
K_SECOND = 'inj-pressure:TypeError:second-wellbores-pass(district-heating)-with-overpressure'
CORPUS = fw.VERIF / 'corpus' / 'C15'
Q, QL = qconv.q, qconv.qlist


def _shard(n, lo=5):
    """shard size that spreads n kernel cases over the 16 coqc workers"""
    return max(lo, -(-n // 16))


def _flat_jobs(ctx, jobs):
    """jobs: (part, requires, run_expr, tol, cases, kind, key_of, what) - flatcorr.run for several models side by side
    (kernel evaluation concurrently, counting and filing in the order given, so the outcome is deterministic)"""
    from concurrent.futures import ThreadPoolExecutor
    ev = lambda j: fw.kernel_cases(ctx, j[0], j[1], j[2], j[3], [(c['flat'], flatcorr.res_of(c['impl'])) for c in j[4]],
                                   max(3, -(-len(j[4]) // 8)))
    with ThreadPoolExecutor(max_workers=3) as ex:
        fails = list(ex.map(ev, jobs))
    for (part, _, run, _, cases, kind, key_of, what), failing in zip(jobs, fails):
        ctx.count(part, evaluations=len(cases), nontrivial_keys=[c['nontrivial'] for c in cases if c.get('nontrivial') is not None])
        for c in cases[:2]:
            ctx.sample(part, c['desc'])
        for i in failing[:5]:
            c = cases[i]
            ctx.violate(kind, key_of(c), f'{what} on {c["desc"]}', inp={'part': part, 'desc': c['desc'], 'flat': [str(x) for x in c['flat']]},
                        observed=flatcorr._show(c['impl']), expected=f'value of Coq model {run} (see replay)')
        if len(failing) > 5:
            ctx.note(f'{part}: {len(failing)} disagreeing cases, first 5 reported')


def _W():
    import geophires_x.Model  # noqa: F401  (circular import: Model first)
    from geophires_x import WellBores
    return WellBores


def _steps(rate, k):
    """(exact, float) value of int((100.0/rate)*k); None when the division raises"""
    if rate == 0:
        return None, None
    return int(F(100) / rate * k), int((100.0 / float(rate)) * k)


class _RecFloat(float):
    """a float that records what ** returns (Trock ** (-0.552) inside get_hydrostatic_pressure_kPa)"""
    rec = None

    def __pow__(self, e):
        r = float.__pow__(self, e)
        self.rec.append(r)
        return r


@contextlib.contextmanager
def _recording(W):
    """run real WellBores functions while recording the intermediates they hand to library calls: math.exp (argument, value),
    CoolProp density, np.average (the Reynolds series) and whether np.log10 (the Colebrook branch) was used"""
    rec = {'exp': [], 'rho': [], 'pow': [], 'average': [], 'log10': 0}
    real = (W.math, W.np, W.density_water_kg_per_m3)

    class Proxy:
        def __init__(self, mod, **over):
            self._mod, self._over = mod, over

        def __getattr__(self, a):
            return self._over.get(a) or getattr(self._mod, a)

    def exp(x):
        r = real[0].exp(x)
        rec['exp'].append((x, r))
        return r

    def average(x, *a, **k):
        rec['average'].append([float(v) for v in x])
        return real[1].average(x, *a, **k)

    def log10(x):
        rec['log10'] += 1
        return real[1].log10(x)

    def rho(*a, **k):
        r = real[2](*a, **k)
        rec['rho'].append(r)
        return r

    W.math, W.np, W.density_water_kg_per_m3 = Proxy(real[0], exp=exp), Proxy(real[1], average=average, log10=log10), rho
    try:
        yield rec
    finally:
        W.math, W.np, W.density_water_kg_per_m3 = real


def hydro_case(W, Trock, Tsurf, depth_m, grad, desc):
    """the real get_hydrostatic_pressure_kPa on these inputs -> (pressure, flat case for Hydrostatic.run_hydro)"""
    from geophires_x.GeoPHIRESUtils import quantity, static_pressure_MPa
    t = _RecFloat(Trock)
    with _recording(W) as rec:
        t.rec = rec['pow']
        p = W.get_hydrostatic_pressure_kPa(t, Tsurf, depth_m, grad, quantity(static_pressure_MPa(1000.0, depth_m), 'MPa'))
    (x, e), = rec['exp']
    return p, {'flat': [_f(rec['rho'][-1]), _f(rec['pow'][-1]), _f(grad), _f(depth_m), _f(e)], 'impl': ('V', [_f(x), _f(p)]),
               'desc': desc, 'nontrivial': None}


def static_case(rho, depth_m, desc):
    from geophires_x.GeoPHIRESUtils import static_pressure_MPa
    return {'flat': [_f(rho), _f(depth_m)], 'impl': ('V', [_f(static_pressure_MPa(rho, depth_m))]), 'desc': desc, 'nontrivial': None}


# ------------------------------------------------------------------------------------------------
# (a) the two predictors, called directly
# ------------------------------------------------------------------------------------------------
def pred_case(W, fn, life, k, p0, rate, op=None, exact=True):
    vals = [p0, rate] if fn == 'inj' else [p0, op, rate]
    vals = [F(v) if exact else F(float(v)) for v in vals]
    args = vals if exact else [float(v) for v in vals]
    f = W.InjectionReservoirPressurePredictor if fn == 'inj' else W.ReservoirPressurePredictor
    impl = flatcorr.call_impl(f, life, k, *args)
    d = {'part': 'predictor', 'fn': fn, 'life': life, 'k': k, 'p0': str(p0), 'rate': str(rate), 'exact': exact}
    c = {'flat': [F(life), F(k)] + vals, 'impl': impl, 'desc': d, 'vals': vals, 'nontrivial': None, 'quirk': False}
    n = life * k
    if fn == 'prod':
        d['op'] = str(op)
        p0v, opv, rv = vals
        ex, fl = _steps(rv, k)
        c['quirk'] = ex != fl
        if c['quirk']:   # float and exact truncation differ: the model gets the step count the float expression gives
            c['flat'] = [F(life), F(k), p0v, opv, F(fl)]
        c['inq'] = n > 0 and opv >= 100 and rv > 0 and p0v >= 0
        if opv != 100 and ex:
            c['nontrivial'] = (k, min(ex, 50), ex < n, exact)
    else:
        c['inq'] = n > 0
        if vals[1] != 0:
            c['nontrivial'] = (k, min(n, 40), vals[1] > 0, exact)
    return c


def pred_cases(ctx, W):
    rnd, cs = ctx.rng, []
    for s in json.loads((CORPUS / 'predictor_seeds.json').read_text()):
        cs.append(pred_case(W, s['fn'], s['life'], s['k'], F(s['p0']), F(s['rate']), F(s['op']) if 'op' in s else None, s['exact']))
    hi = ctx.n(3, 5)
    for life in range(0, hi + 1):
        for k in range(0 if life == 1 else 1, hi + 1):
            for op in (F(100), F('100.5'), F(155), F(300), F(90)):
                for rate in (F(0), F(-10), F('0.5'), F(7), F(10), F(100 * k) / 3, F(100 * k), F(100 * k) + F('0.01'), F(1000)):
                    cs.append(pred_case(W, 'prod', life, k, F('29430.5'), rate, op))
            for rate in (F(0), F(-40), F(7, 3), F(202)):
                cs.append(pred_case(W, 'inj', life, k, F('9854.25'), rate))
    n_small = len(cs)
    dec = lambda lo, hi_, d: F(rnd.randint(int(lo * 10 ** d), int(hi_ * 10 ** d)), 10 ** d)
    for _ in range(ctx.n(300, 1500)):
        life = rnd.choice([1, 2, 3, 5, 8, 12, 20, 30] + ([] if ctx.quick else [35, 60, 100]))
        k = rnd.choice([1, 2, 3, 4, 6] + ([] if ctx.quick else [12, 21, 100]))
        cap = ctx.n(120, 300 if rnd.random() < 0.9 else 1200)   # series length the kernel evaluates comfortably
        if life * k > cap:
            life = max(1, cap // k)
        exact = rnd.random() < 0.6
        p0 = dec(1000, 90000, 2)
        if rnd.random() < 0.7:
            op = F(100) if rnd.random() < 0.05 else dec(100, 400, rnd.choice([0, 1, 2]))
            r = rnd.random()
            rate = (F(100 * k, rnd.randint(1, 3 * life * k)) if r < 0.25 else dec(0.1, 60, rnd.choice([0, 1, 2])) if r < 0.85
                    else dec(100 * k - 5, 100 * k + 5, 2))
            cs.append(pred_case(W, 'prod', life, k, p0, rate, op, exact))
        else:
            cs.append(pred_case(W, 'inj', life, k, p0, dec(-100, 1500, 1), None, exact))
    ctx.count('predictor-domain', small_exhaustive=n_small, random=len(cs) - n_small)
    return cs


def check_pred(ctx, cs, equality=True):
    """equality with the proved closed form (exact calls: tol 0) + the property clauses evaluated on the implementation's lists"""
    what = 'pressure series differs from the closed form proved of the Coq model (C15_prod_pressure_closed_form / C15_inj_pressure)'
    key = lambda c: '%s-pressure:series:%s' % (c['desc']['fn'], 'exact' if c['desc']['exact'] else 'float')
    jobs = []
    for fn, run, quirk in (('prod', 'run_prod_pressure', False), ('prod', 'run_prod_pressure_steps', True), ('inj', 'run_inj_pressure', False)):
        for exact in (True, False) if equality else ():
            sel = [c for c in cs if c['desc']['fn'] == fn and c['desc']['exact'] == exact and c['quirk'] == quirk]
            jobs.append((f'{fn}-predictor-{"exact" if exact else "float"}' + ('-float-step-count' if quirk else ''),
                         ['Model.Pressure'], run, F(0) if exact else TOL, sel, 'property', key, what))
    _flat_jobs(ctx, jobs)
    ctx.count('predictor-domain', float_trunc_quirk=sum(c['quirk'] for c in cs), errors=sum(c['impl'][0] == 'E' for c in cs))
    terms, owners = [], []
    for c in cs:
        d, v = c['desc'], c['vals']
        if not c['inq']:
            continue
        if c['impl'][0] == 'E':
            if d['fn'] == 'prod' and v[1] != 100:
                fast = v[2] > 100 * d['k']
                ctx.violate('property', K_ZERO if fast else 'prod-pressure:error:rate<=100*steps-per-year',
                            f'ReservoirPressurePredictor raises (error code {c["impl"][1]}) for overpressure >= 100 and rate > 0: {d}',
                            inp={'desc': d}, expected='a pressure series', observed=flatcorr._show(c['impl']))
            elif d['fn'] == 'inj':
                ctx.violate('property', 'inj-pressure:error', f'InjectionReservoirPressurePredictor raises on {d}', inp={'desc': d},
                            expected='a pressure series', observed=flatcorr._show(c['impl']))
            continue
        l = flatcorr.flatten(c['impl'][1])
        tol = Q(0) if d['exact'] else Q(TINY)
        if d['fn'] == 'prod':
            terms.append(f'check_prod_series {tol} {Q(v[0])} {Q(v[1])} {QL(l)}')
        else:
            terms.append(f'check_inj_series {Q(0) if d["exact"] else Q(TOL)} {Q(v[0])} {Q(v[1])} {d["k"]}%nat {QL(l)}')
        owners.append(c)
    bad = fw.kernel_bools(ctx, 'pred_checkers', ['Model.Pressure'], terms, shard=_shard(len(terms)))
    ctx.count('predictor-property-checkers', evaluations=len(terms))
    for i in bad[:5]:
        d = owners[i]['desc']
        ctx.violate('property', f'{d["fn"]}-pressure:not-physical:{"exact" if d["exact"] else "float"}',
                    ('production pressure does not start at p0*op/100, rises, or undercuts hydrostatic' if d['fn'] == 'prod' else
                     'injection pressure does not rise by rate/k per step') + f' on {d}',
                    inp={'desc': d}, expected='check_*_series = true (Coq)', observed=flatcorr._show(owners[i]['impl']))


# ------------------------------------------------------------------------------------------------
# (b) whole runs (hook snapshots)
# ------------------------------------------------------------------------------------------------
HYD_KEYS = ('Reservoir Impedance', 'Productivity Index', 'Injectivity Index')
OP_KEYS = ('Overpressure Percentage', 'Overpressure Depletion Rate', 'Injection Reservoir Initial Pressure',
           'Injection Reservoir Inflation Rate', 'Injection Reservoir Depth', 'Injection Reservoir Temperature')


def make_config(ctx, hyd, flash, op, dh=False):
    """hyd: 'imp'|'idx'; flash: self-flowing production; op: None|'split'|'artesian'|'fast'|'nosplit'|'toofast'"""
    rnd = ctx.rng
    dec = lambda lo, hi, d=2: configs.dec(rnd, lo, hi, d)
    life = rnd.choice([2, 3, 5, 8, 12] + ([] if ctx.quick else [20, 30]))
    k = rnd.choice([1, 2, 3, 4, 6] + ([] if ctx.quick or life > 12 else [12]))
    enduse = 1 if flash else 2 if dh else rnd.choice([1, 2, 31, 51])
    plant = rnd.choice([3, 4]) if flash else 7 if dh else (rnd.choice([1, 2]) if enduse != 2 else 9)   # 7: district heating
    p = dict(configs.synthetic(rnd, enduse=enduse, plant=plant, resmodel=rnd.choice([3, 4]), life=life, tspy=k,
                               overpressure=False, addons=False))
    for key in HYD_KEYS + OP_KEYS:
        p.pop(key, None)
    if rnd.random() < 0.5:
        p['Production Well Diameter'], p['Injection Well Diameter'] = dec(5, 14), dec(5, 14)
    if hyd == 'imp':
        p['Reservoir Impedance'] = rnd.choice([dec(0.0002, 0.003, 4), dec(0.01, 0.3, 3)])
        if rnd.random() < 0.5:   # deep and hot: buoyancy can exceed the friction and reservoir losses
            p['Reservoir Depth'], p['Gradient 1'], p['Maximum Temperature'] = dec(3.5, 5, 1), dec(50, 70, 0), 400
    else:
        p['Productivity Index'] = dec(3, 15, 1)
        p['Injectivity Index'] = rnd.choice([dec(3, 15, 1), dec(100, 3000, 0)])
        if rnd.random() < 0.3:
            p['Production Wellhead Pressure'] = dec(300, 3000, 0)
        if rnd.random() < 0.3 and not flash:
            p['Plant Outlet Pressure'] = dec(500, 5000, 0)
    if op:
        p['Overpressure Percentage'] = {'artesian': dec(180, 320, 0)}.get(op, rnd.choice([dec(100, 200, 1), 100.0, dec(101, 130, 2)]))
        rate = {'fast': dec(100.0 / life, 100 * k, 1), 'toofast': dec(100 * k + 0.1, 100 * k + 50, 1)}.get(
            op, rnd.choice([dec(0.5, 30, 1), 100.0 * k / rnd.randint(1, 2 * life * k)]))
        p['Overpressure Depletion Rate'] = rate
        if op != 'nosplit':
            if rnd.random() < 0.7:
                p['Injection Reservoir Depth'] = dec(500, 3000, 0)
            if 'Injection Reservoir Depth' not in p or rnd.random() < 0.6:
                p['Injection Reservoir Inflation Rate'] = rnd.choice([dec(20, 900, 1), dec(20, 900, 1), 0])
            if rnd.random() < 0.5:
                p['Injection Reservoir Temperature'] = dec(60, 150, 0)
            if rnd.random() < 0.3:
                p['Injection Reservoir Initial Pressure'] = dec(5000, 20000, 0)
        if rnd.random() < 0.5:
            p['Reservoir Hydrostatic Pressure'] = dec(12000, 45000, 0)
    return {'tag': f'{hyd}/{"flash" if flash else "dh" if dh else "pumped"}/{op or "plain"}', 'text': runner.params_to_text(p)}


def run_configs(ctx):
    cfgs = [dict(c) for c in json.loads((CORPUS / 'run_seeds.json').read_text())]
    m = ctx.n(1, 3)
    for hyd, flash in (('idx', False), ('idx', True), ('imp', False)):
        for op, w in ((None, 8), ('split', 7), ('artesian', 4), ('fast', 4), ('nosplit', 1), ('toofast', 1)):
            cfgs += [make_config(ctx, hyd, flash, op) for _ in range(w * m)]
    # district heating: Model.Calculate runs the wellbores a second time on the same model
    cfgs += [make_config(ctx, hyd, False, op, dh=True) for hyd, op in (('idx', None), ('imp', None), ('idx', 'split'), ('imp', 'split'))
             for _ in range(m)]
    return cfgs


def _wb_frame(trace):
    fr = re.findall(r'File "[^"]*WellBores\.py", line (\d+), in (\w+)', trace or '')
    return fr[-1] if fr else None


def _f(x):
    return [qconv.F(v) for v in x] if isinstance(x, list) else qconv.F(x)


def _series(x, n):
    return _f(x) if isinstance(x, list) else [qconv.F(x)] * n


def check_runs(ctx, cfgs, results):
    W = _W()
    from geophires_x.GeoPHIRESUtils import quantity, static_pressure_MPa
    flat = {k: [] for k in ('run_index', 'run_impedance', 'run_prod_pressure', 'run_prod_pressure_steps', 'run_inj_stage', 'run_inj_stage2', 'run_hydro', 'run_static')}
    terms, owners, nsnap = [], [], 0
    for cfg, r in zip(cfgs, results):
        inp = {'desc': {'part': 'run', 'tag': cfg['tag'], 'text': cfg['text']}}
        params = dict(l.split(', ', 1) for l in cfg['text'].splitlines())
        has = lambda name: name in params
        snap = r['snap']
        if snap is None:
            fr, err = _wb_frame(r.get('trace')), str(r['error'])
            opv, rate, k = (float(params.get(x, d)) for x, d in (('Overpressure Percentage', 100), ('Overpressure Depletion Rate', 0),
                                                                 ('Time steps per year', 4)))
            if fr and fr[1] == 'ReservoirPressurePredictor' and 'ZeroDivisionError' in err and opv >= 100 and rate > 100 * k:
                ctx.violate('property', K_ZERO, f'run fails in ReservoirPressurePredictor: {err} (rate {rate} %/yr, {k} steps/yr)',
                            inp=inp, expected='a production-reservoir pressure series', observed=err)
                ctx.count('whole-run', known_crash='rate>100k')
            elif fr and fr[1] == 'Calculate' and 'UnboundLocalError' in err and has('Overpressure Percentage') and not (
                    has('Injection Reservoir Depth') or has('Injection Reservoir Inflation Rate')):
                ctx.violate('property', K_UNBOUND, f'run fails in WellBores.Calculate: {err}', inp=inp,
                            expected='an injection-reservoir pressure series', observed=err)
                # the model of the branch must raise on the same flags (5 = Pressure.E_UNBOUND)
                flat['run_inj_stage'].append({'flat': [F(1), F(0), F(0), F(1), F(1), F(1), F(1), F(1)], 'impl': ('E', 5),
                                              'desc': inp['desc'], 'nontrivial': ('inj', 'unbound')})
                ctx.count('whole-run', known_crash='unbound')
            elif fr and fr[1] == 'Calculate' and 'TypeError' in err and "'list' and 'int'" in err and has('Overpressure Percentage') \
                    and params.get('Power Plant Type') == '7':
                ctx.violate('property', K_SECOND, f'run fails in the second WellBores.Calculate of a district-heating run (line {fr[0]}): {err}',
                            inp=inp, expected='an injection-reservoir pressure series', observed=err)
                # the model of the second pass must raise on the same flags (6 = Pressure.E_TYPE)
                flat['run_inj_stage2'].append({'flat': [F(1), F(has('Injection Reservoir Depth')), F(has('Injection Reservoir Inflation Rate')),
                                                        F(1), F(1), F(1), F(1), F(1)], 'impl': ('E', 6), 'desc': inp['desc'],
                                               'nontrivial': ('inj', 'second-pass-crash')})
                ctx.count('whole-run', known_crash='second-pass')
            elif fr and fr[1] != 'RameyCalc':
                ctx.violate('property', f'crash:WellBores.{fr[1]}:{err.split(":")[0]}',
                            f'accepted input crashes in WellBores.{fr[1]} (line {fr[0]}): {err}', inp=inp,
                            expected='pumping power and pressure series', observed=err)
            else:
                ctx.count('whole-run', rejected=err.split(':')[0][:40])
            continue
        nsnap += 1
        S = snapshot.S(snap)
        wb = lambda a: S.v('wellbores', a)
        pp = wb('PumpingPower')
        n = len(pp)
        life, k = int(S.v('surfaceplant', 'plant_lifetime')), int(S.v('economics', 'timestepsperyear'))
        nprod, ninj, q = F(wb('nprod')), F(wb('ninj')), _f(wb('prodwellflowrate'))
        wl, eff = _f(S.v('reserv', 'waterloss')), _f(S.v('surfaceplant', 'pump_efficiency'))
        rhop, rhoi = _series(wb('rhowaterprod'), n), _series(wb('rhowaterinj'), n)
        imp, pumping = bool(wb('impedancemodelused')), bool(wb('productionwellpumping'))
        sig = {'imp': imp, 'pumping': pumping}
        case = lambda fl, out, nt=None: {'flat': fl, 'impl': ('V', out), 'desc': inp['desc'], 'nontrivial': nt}
        owners.append((inp, 'PumpingPower'))
        terms.append(f'all_nonneg {QL(_f(pp))}')
        if imp:
            dpo = _series(wb('DPOverall'), n)
            sig['clamp'] = any(x < 0 for x in dpo)
            flat['run_impedance'].append(case(
                [F(n), ninj, q, wl, eff] + _series(wb('DPReserv'), n) + _series(wb('DPProdWell'), n) + _series(wb('DPBouyancy'), n)
                + _series(wb('DPInjWell'), n) + rhoi, dpo + _f(pp), ('imp', sig['clamp'], all(x < 0 for x in dpo))))
        else:
            ppp, ppi = _f(wb('PumpingPowerProd')), _f(wb('PumpingPowerInj'))
            dpp, dpi = _series(wb('DPProdWell'), n), _series(wb('DPInjWell'), n)
            sig['clamp'] = (any(x < 0 for x in dpp), any(x < 0 for x in dpi))
            flat['run_index'].append(case([F(n), F(pumping), nprod, q, wl, eff] + dpp + dpi + rhop + rhoi, ppp + ppi + _f(pp),
                                          ('idx', pumping) + sig['clamp']))
            for nm, l in (('PumpingPowerProd', ppp), ('PumpingPowerInj', ppi)):
                owners.append((inp, nm))
                terms.append(f'all_nonneg {QL(l)}')
            owners.append((inp, 'total=sum'))
            terms.append(f'sum_ok {Q(TINY)} {QL(_f(pp))} {QL(ppi)} {QL(ppp) if pumping else QL([F(0)] * n)}')
        # pressures
        prs, irs = _f(wb('production_reservoir_pressure')), _f(wb('injection_reservoir_pressure'))
        opp = S.p('wellbores', 'overpressure_percentage')
        op, rate = _f(opp['value']), _f(wb('overpressure_depletion_rate'))
        d = S.p('reserv', 'depth')
        depth_m = d['value'] * 1000 if str(d['cur']).startswith('k') else d['value']
        flat['run_static'] += [static_case(1000.0, depth_m, inp['desc']), static_case(S.v('reserv', 'rhorock'), depth_m, inp['desc'])]
        if not wb('usebuiltinhydrostaticpressurecorrelation'):
            p0 = _f(wb('Phydrostatic')) if op != 100 else prs[0]
        else:   # the built-in correlation: the real function on the snapshot's inputs, its rational part re-evaluated by the model
            p0, hc = hydro_case(W, S.v('reserv', 'Trock'), S.v('reserv', 'Tsurf'), depth_m, S.v('reserv', 'averagegradient'), inp['desc'])
            p0 = _f(p0)
            flat['run_hydro'].append(hc)
        ex, fl = _steps(rate, k) if op != 100 else (1, 1)
        sig['op'] = 'none' if not opp['provided'] else '100' if op == 100 else 'floor' if ex < n else 'declining'
        if ex == fl:
            flat['run_prod_pressure'].append(case([F(life), F(k), p0, op, rate], prs, ('prod', sig['op'], k) if op != 100 else None))
        else:
            flat['run_prod_pressure_steps'].append(case([F(life), F(k), p0, op, F(fl)], prs, ('prod-steps', sig['op'], k)))
        if op >= 100 and rate > 0:
            owners.append((inp, 'production pressure'))
            terms.append(f'check_prod_series {Q(TOL)} {Q(p0)} {Q(op)} {QL(prs)}')
        infl = _f(wb('injection_reservoir_inflation_rate'))
        dprov, iprov = (S.p('wellbores', a)['provided'] for a in ('injection_reservoir_depth', 'injection_reservoir_inflation_rate'))
        pinj = _f(wb('injection_reservoir_initial_pressure'))
        flat['run_inj_stage'].append(case([F(bool(opp['provided'])), F(dprov), F(iprov), F(life), F(k), pinj, infl] + prs, irs,
                                          ('inj', dprov, iprov, infl > 0) if opp['provided'] else None))
        if params.get('Power Plant Type') == '7':   # the snapshot is what the second pass left
            flat['run_inj_stage2'].append(case([F(bool(opp['provided'])), F(dprov), F(iprov), F(life), F(k), pinj, infl] + prs, irs, ('inj', 'second-pass')))
        if opp['provided']:
            owners.append((inp, 'injection pressure'))
            terms.append(f'check_inj_series {Q(TOL)} {Q(irs[0])} {Q(infl)} {k}%nat {QL(irs)}')
        ctx.count('whole-run', evaluations=1, nontrivial_keys=[json.dumps(sig, sort_keys=True)], tag=cfg['tag'],
                  signature=' '.join(f'{a}={b}' for a, b in sorted(sig.items())),
                  outputs='report-ok' if r['ok'] else 'report-failed:' + str(r['error'])[:60])
    if nsnap * 2 < len(cfgs):
        ctx.violate('corr', 'whole-run:few-snapshots', f'only {nsnap} of {len(cfgs)} generated configurations reached the hook')
    what = {'run_index': 'index-model pumping power (clamped production, injection, total)',
            'run_impedance': 'impedance-model overall pressure drop and clamped pumping power',
            'run_prod_pressure': 'production-reservoir pressure series of the run',
            'run_prod_pressure_steps': 'production-reservoir pressure series of the run (float-evaluated step count)',
            'run_hydro': 'built-in hydrostatic correlation (exponent and pressure) on the run\'s inputs',
            'run_static': 'static pressure rho*g*depth on the run\'s depth',
            'run_inj_stage2': 'injection-reservoir pressure series after the second wellbores pass (district heating)', 'run_inj_stage': 'injection-reservoir pressure series of the run'}
    jobs = []
    for run, cs in flat.items():
        req = ['Model.Hydrostatic'] if run in ('run_hydro', 'run_static') else ['Model.Pressure'] if 'pressure' in run or 'stage' in run else ['Model.Pumping']
        prop = req == ['Model.Pressure']
        jobs.append(('snapshot-' + run, req, run, TOL, cs, 'property' if prop else 'corr',
                     lambda c, run=run: f'whole-run:{run}:{c["desc"]["tag"]}',
                     what[run] + (' differs from the proved closed form' if prop else ' differs from the Coq model')))
    _flat_jobs(ctx, jobs)
    bad = fw.kernel_bools(ctx, 'run_checkers', ['Model.Pressure', 'Model.Pumping'], terms, shard=_shard(len(terms)))
    ctx.count('whole-run-property-checkers', evaluations=len(terms))
    for i in bad[:6]:
        inp, nm = owners[i]
        ctx.violate('property', f'whole-run:{nm}:{inp["desc"]["tag"]}',
                    {'total=sum': 'total pumping power is not injection + production power',
                     'production pressure': 'production-reservoir pressure does not start at p0*op/100, rises, or undercuts hydrostatic',
                     'injection pressure': 'injection-reservoir pressure does not rise by rate/k per step'}.get(nm, f'{nm} is negative at some time step')
                    + f' in a {inp["desc"]["tag"]} run', inp=inp, expected='checker = true (Coq)', observed=terms[i][:300])


# ------------------------------------------------------------------------------------------------
# (c) friction against diameter, on the real WellPressureDrop / InjectionWellPressureDrop
# ------------------------------------------------------------------------------------------------
def sweep_spec(ctx):
    rnd = ctx.rng
    dec = lambda lo, hi, d=2: configs.dec(rnd, lo, hi, d)
    well = rnd.choice(['prod', 'inj'])
    low = rnd.random() < 0.4
    s = {'part': 'friction', 'well': well, 'depth': dec(800, 6000, 0), 'q': dec(1, 2.5, 2) if low else dec(5, 150, 1),
         'T': [dec(*((20, 45) if low else (60, 230)), 1) for _ in range(3)] if well == 'prod' else dec(20, 45 if low else 95, 1)}
    if well == 'inj':
        s.update(nprod=rnd.randint(1, 4), ninj=rnd.randint(1, 4), wl=dec(0, 0.1, 2))
    d = dec(0.03, 0.1, 3) if not low else dec(0.12, 0.45, 3)
    s['diam'] = []
    while len(s['diam']) < 6 and d <= 0.77:
        s['diam'].append(round(d, 4))
        d *= 1 + dec(0.04, 0.5, 2)
    return s


def sweep_cases(s):
    import numpy as np
    from geophires_x.GeoPHIRESUtils import quantity, static_pressure_MPa, viscosity_water_Pa_sec
    W = _W()
    P = quantity(static_pressure_MPa(1000.0, s['depth']), 'MPa')
    T = s['T'] if s['well'] == 'prod' else [s['T']] * 3
    model = types.SimpleNamespace(reserv=types.SimpleNamespace(hydrostatic_pressure=lambda: P),
                                  wellbores=types.SimpleNamespace(ProducedTemperature=types.SimpleNamespace(value=[0.0] * 3)))
    mu = [viscosity_water_Pa_sec(t, pressure=P) for t in T]
    out = []
    for d in s['diam']:
        with _recording(W) as rec:   # the code's own Reynolds series (argument of np.average) and branch (log10 used or not)
            if s['well'] == 'prod':
                dp, f, v, rho = W.WellPressureDrop(model, np.array(T), s['q'], d, True, s['depth'])
                head = [F(3), _f(s['q'])]
            else:
                dp, f, v, rho = W.InjectionWellPressureDrop(model, s['T'], s['q'], d, True, s['depth'], s['nprod'], s['ninj'], s['wl'])
                head = [F(3), F(s['nprod']), F(s['ninj']), _f(s['q']), _f(s['wl'])]
        re, lam = rec['average'][-1], rec['log10'] == 0
        ambiguous = abs(sum(re) / 3 / 2300.0 - 1) < 1e-6
        out.append({'flat': head + [_f(math.pi), _f(s['depth']), _f(d)] + _f(rho.tolist()) + _f(mu) + _f(f.tolist()),
                    'impl': ('V', [F(lam)] + _f(v.tolist()) + _f(re) + _f(f.tolist()) + _f(dp.tolist())), 'desc': s, 'lam': lam,
                    'ambiguous': ambiguous, 'd': _f(d), 'f': _f(f.tolist()), 'dp': _f(dp.tolist()), 'nontrivial': None})
    return out


def check_friction(ctx, specs):
    groups = [sweep_cases(s) for s in specs]
    _flat_jobs(ctx, [('friction-' + well, ['Model.Friction'], run, TOL,
                      [c for g in groups for c in g if c['desc']['well'] == well and not c['ambiguous']], 'corr',
                      lambda c: 'friction:formula:' + c['desc']['well'],
                      'regime / velocity / Reynolds number / friction factor / Darcy-Weisbach pressure loss differ from the Coq model')
                     for well, run in (('prod', 'run_friction'), ('inj', 'run_friction_inj'))])
    terms, owners = [], []
    for g in groups:
        for a, b in zip(g, g[1:]):
            terms += [f'le_series {QL(b["dp"])} {QL(a["dp"])}', f'growth_ok_series {Q(a["d"])} {Q(b["d"])} {QL(a["f"])} {QL(b["f"])}']
            owners += [(a, b, 'dp'), (a, b, 'growth')]
            ctx.count('friction-monotone', evaluations=1, nontrivial_keys=[(a['desc']['well'], a['lam'], b['lam'])],
                      regime=('laminar' if a['lam'] else 'turbulent') + '->' + ('laminar' if b['lam'] else 'turbulent'))
    bad = fw.kernel_bools(ctx, 'friction_checkers', ['Model.Friction'], terms, shard=_shard(len(terms)))
    for i in bad[:6]:
        a, b, what = owners[i]
        inp = {'desc': dict(a['desc'], diam=[float(a['d']), float(b['d'])])}
        if what == 'dp':
            ctx.violate('property', 'friction:increases-with-diameter:' + a['desc']['well'],
                        f'frictional pressure loss grows when only the diameter grows from {float(a["d"])} to {float(b["d"])} m: {a["desc"]}',
                        inp=inp, expected='DP(larger D) <= DP(smaller D) at every step',
                        observed={'dp_small_d': [float(x) for x in a['dp']], 'dp_large_d': [float(x) for x in b['dp']]})
        else:
            ctx.violate('corr', 'friction:growth-premise:' + a['desc']['well'],
                        f'premise of C15_friction_turbulent_partial (f grows slower than D^5) fails between {float(a["d"])} and '
                        f'{float(b["d"])} m: {a["desc"]}', inp=inp, observed={'f_small_d': [float(x) for x in a['f']],
                                                                              'f_large_d': [float(x) for x in b['f']]})


# ------------------------------------------------------------------------------------------------
# (d) how the friction term enters pump pressure and pumping power: the four hydraulic functions called on the output of
#     the real WellPressureDrop / InjectionWellPressureDrop, everything equal but one well diameter
# ------------------------------------------------------------------------------------------------
def pump_spec(ctx):
    rnd = ctx.rng
    dec = lambda lo, hi, d=2: configs.dec(rnd, lo, hi, d)
    s = {'part': 'pump', 'vary': rnd.choice(['prod', 'inj']), 'depth': dec(1000, 5000, 0), 'q': dec(10, 120, 1),
         'Tprod': [dec(90, 230, 1) for _ in range(3)], 'Tinj': dec(30, 90, 1), 'Trock': dec(100, 350, 0),
         'nprod': rnd.randint(1, 4), 'ninj': rnd.randint(1, 4), 'wl': dec(0, 0.1, 2), 'eff': dec(0.6, 0.9, 2),
         'PI': dec(3, 15, 1), 'II': dec(3, 15, 1), 'imp': dec(0.2, 300, 1), 'rhores': dec(850, 990, 1),
         'pwh': dec(300, 6000, 0), 'usepp': rnd.random() < 0.5, 'useout': rnd.random() < 0.5, 'pout': dec(300, 5000, 0),
         'phyd': [dec(9000, 50000, 0) for _ in range(3)], 'pinj': [dec(5000, 40000, 0) for _ in range(3)],
         'dfixed': dec(0.1, 0.3, 3), 'diam': []}
    d = dec(0.06, 0.12, 3)
    while len(s['diam']) < 4 and d <= 0.42:
        s['diam'].append(round(d, 4))
        d *= 1 + dec(0.12, 0.6, 2)
    return s


def pump_cases(s):
    """one record per diameter: what the real functions return with the real friction factors and with friction switched off"""
    import contextlib
    import io
    import numpy as np
    from geophires_x.GeoPHIRESUtils import quantity, static_pressure_MPa
    W = _W()
    P = quantity(static_pressure_MPa(1000.0, s['depth']), 'MPa')
    ns = types.SimpleNamespace
    wb = ns(ProducedTemperature=ns(value=[0.0] * 3), injection_reservoir_pressure=ns(value=list(s['pinj'])),
            production_reservoir_pressure=ns(quantity=lambda: quantity(np.array(s['phyd']), 'kPa')))
    model = ns(reserv=ns(hydrostatic_pressure=lambda: P), wellbores=wb, logger=ns(warning=lambda *a, **k: None))
    q, depth, nprod, ninj, wl, eff = (s[k] for k in ('q', 'depth', 'nprod', 'ninj', 'wl', 'eff'))
    out = []
    for d in s['diam']:
        dp_, di_ = (d, s['dfixed']) if s['vary'] == 'prod' else (s['dfixed'], d)
        _, f3, vp, rhop = W.WellPressureDrop(model, np.array(s['Tprod']), q, dp_, True, depth)
        _, f1, vi, rhoi = W.InjectionWellPressureDrop(model, s['Tinj'], q, di_, True, depth, nprod, ninj, wl)
        r = {'d': _f(d), 'desc': s}
        with contextlib.redirect_stdout(io.StringIO()):
            for tag, k3, k1 in (('', 1.0, 1.0), ('0', 0.0, 0.0)):   # '0': same calls without friction
                _, ppp, dpp, pwh = W.ProdPressureDropAndPumpingPowerUsingIndexes(
                    model, True, s['usepp'], s['Trock'], depth, s['pwh'], s['PI'], q, f3 * k3, vp, dp_, nprod, eff, rhop)
                ppi, dpi, pout, _ = W.InjPressureDropAndPumpingPowerUsingIndexes(
                    model, True, s['usepp'], s['useout'], s['Trock'], depth, s['pwh'], s['II'], q, f1 * k1, vi, di_, nprod, ninj, wl,
                    eff, rhoi, s['pout'])
                dpo, _, dppw, _, _ = W.ProdPressureDropsAndPumpingPowerUsingImpedenceModel(
                    f3 * k3, vp, rhoi, rhop, s['rhores'], depth, q, dp_, s['imp'], nprod, wl, eff)
                dpo2, ppimp, dpiw = W.InjPressureDropsAndPumpingPowerUsingImpedenceModel(f1 * k1, vi, rhoi, depth, q, di_, ninj, wl, eff, dpo)
                L = lambda x: _f(np.asarray(x, dtype=float).tolist())
                r.update({'dpp' + tag: L(dpp), 'ppp' + tag: L(ppp), 'dpi' + tag: L(dpi), 'ppi' + tag: L(ppi), 'dpo' + tag: L(dpo2),
                          'ppimp' + tag: L(ppimp), 'dppw' + tag: L(dppw), 'dpiw' + tag: L(dpiw)})
        f3, vp, rhop, f1, vi, rhoi = (L(x) for x in (f3, vp, rhop, f1, vi, rhoi))
        r['flat'] = {
            'run_prod_index': ([F(3), F(1), _f(pwh), _f(q), _f(s['PI']), _f(depth), _f(dp_), F(nprod), _f(eff)] + _f(s['phyd']) + f3 + vp + rhop,
                               r['dpp'] + r['ppp']),
            'run_inj_index': ([F(3), _f(q), _f(wl), F(nprod), F(ninj), _f(s['II']), _f(depth), _f(di_), _f(eff), _f(pout)] + _f(s['pinj'])
                              + f1 + vi + rhoi, r['dpi'] + r['ppi'])}
        r['imp'] = [([_f(q), _f(wl), F(nprod), F(ninj), _f(eff), _f(s['imp']), _f(s['rhores']), _f(depth), _f(dp_), _f(di_),
                      f3[i], vp[i], rhop[i], f1[i], vi[i], rhoi[i]], [r['dppw'][i], r['dpiw'][i], r['dpo'][i], r['ppimp'][i]]) for i in range(3)]
        out.append(r)
    return out


def check_pump(ctx, specs):
    groups = [pump_cases(s) for s in specs]
    mk = lambda fl, out, s: {'flat': fl, 'impl': ('V', out), 'desc': s, 'nontrivial': None}
    jobs = [('pump-' + run, ['Model.WellDP'], run, TOL, [mk(*r['flat'][run], r['desc']) for g in groups for r in g], 'corr',
             lambda c, run=run: f'pump:composition:{run}',
             'pump pressure / power of the index model is not (other terms) + friction as in the Coq model')
            for run in ('run_prod_index', 'run_inj_index')]
    jobs.append(('pump-run_imp_step', ['Model.WellDP'], 'run_imp_step', TOL,
                 [mk(fl, out, r['desc']) for g in groups for r in g for fl, out in r['imp']], 'corr',
                 lambda c: 'pump:composition:impedance', 'impedance-model pressure drops / power differ from the Coq model'))
    _flat_jobs(ctx, jobs)
    sub = lambda a, b: [x - y for x, y in zip(a, b)]
    terms, owners = [], []
    for g in groups:
        v = g[0]['desc']['vary']
        for a, b in zip(g, g[1:]):
            series = ([('friction share of the production pump pressure', sub(a['dpp'], a['dpp0']), sub(b['dpp'], b['dpp0'])),
                       ('production pump pressure DPProdWell', a['dpp'], b['dpp']), ('PumpingPowerProd', a['ppp'], b['ppp']),
                       ('impedance-model DPProdWell', a['dppw'], b['dppw'])] if v == 'prod' else
                      [('friction share of the injection pump pressure', sub(a['dpi'], a['dpi0']), sub(b['dpi'], b['dpi0'])),
                       ('injection pump pressure DPInjWell', a['dpi'], b['dpi']), ('PumpingPowerInj', a['ppi'], b['ppi']),
                       ('impedance-model DPInjWell', a['dpiw'], b['dpiw'])])
            series += [('friction share of the impedance-model overall drop', sub(a['dpo'], a['dpo0']), sub(b['dpo'], b['dpo0'])),
                       ('impedance-model pumping power', a['ppimp'], b['ppimp'])]
            for nm, xa, xb in series:
                terms.append(f'le_series {QL(xb)} {QL(xa)}')
                owners.append((a, b, nm, xa, xb))
            ctx.count('pump-vs-diameter', evaluations=len(series), nontrivial_keys=[(v, any(x > 0 for x in b['ppp']), any(x > 0 for x in b['ppi']),
                                                                                    any(x > 0 for x in b['ppimp']))])
    bad = fw.kernel_bools(ctx, 'pump_checkers', ['Model.Friction'], terms, shard=_shard(len(terms)))
    for i in bad[:6]:
        a, b, nm, xa, xb = owners[i]
        s = a['desc']
        ctx.violate('property', f'pump:{nm}:grows-with-{s["vary"]}-well-diameter',
                    f'{nm} grows when only the {s["vary"]} well diameter grows from {float(a["d"])} to {float(b["d"])} m '
                    f'(real hydraulic functions, all other arguments equal): {s}', inp={'desc': dict(s, diam=[float(a['d']), float(b['d'])])},
                    expected='value at the larger diameter <= value at the smaller one, at every step',
                    observed={'smaller_d': [float(x) for x in xa], 'larger_d': [float(x) for x in xb]})


# whole runs through main() that differ in one well diameter only (Ramey off: fluid properties do not depend on it)
def pair_configs(ctx):
    out = []
    for i in range(ctx.n(6, 20)):
        hyd = 'idx' if i % 3 else 'imp'
        c = make_config(ctx, hyd, False, None)
        p = dict(l.split(', ', 1) for l in c['text'].splitlines())
        p['Ramey Production Wellbore Model'] = 0
        p.setdefault('Production Wellbore Temperature Drop', 3.0)
        which = ['Production Well Diameter', 'Injection Well Diameter'][i % 2]
        small = configs.dec(ctx.rng, 5, 9, 1)
        texts = []
        for dval in (small, round(small * configs.dec(ctx.rng, 1.2, 1.8, 2), 2)):
            p[which] = dval
            texts.append(runner.params_to_text(p))
        out.append({'part': 'runpair', 'tag': c['tag'], 'which': which, 'texts': texts})
    return out


def check_pairs(ctx, pairs, results):
    terms, owners = [], []
    for pr, (ra, rb) in zip(pairs, zip(results[0::2], results[1::2])):
        if ra['snap'] is None or rb['snap'] is None:
            ctx.count('run-pairs', rejected=str(ra['error'] or rb['error'])[:40])
            continue
        A, B = snapshot.S(ra['snap']), snapshot.S(rb['snap'])
        imp = bool(A.v('wellbores', 'impedancemodelused'))
        names = (['DPProdWell'] if 'Production' in pr['which'] else ['DPInjWell']) + (
            ['DPOverall', 'PumpingPower'] if imp else ['PumpingPowerProd' if 'Production' in pr['which'] else 'PumpingPowerInj', 'PumpingPower'])
        n = len(A.v('wellbores', 'PumpingPower'))
        for nm in names:
            terms.append(f'le_series {QL(_series(B.v("wellbores", nm), n))} {QL(_series(A.v("wellbores", nm), n))}')
            owners.append((pr, nm))
        ctx.count('run-pairs', evaluations=1, nontrivial_keys=[(imp, pr['which'])])
    bad = fw.kernel_bools(ctx, 'pair_checkers', ['Model.Friction'], terms, shard=_shard(len(terms)))
    for i in bad[:6]:
        pr, nm = owners[i]
        ctx.violate('property', f'run-pair:{nm}:grows-with:{pr["which"]}:{pr["tag"].split("/")[0]}',
                    f'{nm} grows at some time step when only {pr["which"]} is enlarged ({pr["tag"]} run, Ramey off)',
                    inp={'desc': pr}, expected=f'{nm} of the larger-diameter run <= that of the smaller-diameter run', observed=terms[i][:300])


# ------------------------------------------------------------------------------------------------
# (e) static pressure and the built-in hydrostatic correlation, called directly
# ------------------------------------------------------------------------------------------------
def hydro_spec(ctx):
    rnd = ctx.rng
    dec = lambda lo, hi, d=2: configs.dec(rnd, lo, hi, d)
    per_km = rnd.random() < 0.25     # the gradient argument in degC/km (as one call site passes it): vertex within metres
    return {'part': 'hydro', 'Trock': dec(40, 400, 1), 'Tsurf': dec(0, 30, 1), 'grad': dec(20, 90, 1) if per_km else dec(0.02, 0.09, 4),
            'rhorock': dec(2000, 3300, 0), 'depths': sorted(dec(2, 60, 1) if per_km else dec(300, 7000, 0) for _ in range(4))}


def check_hydro(ctx, specs):
    W, cs, st, terms, owners = _W(), [], [], [], []
    for s in specs:
        row = []
        for d in s['depths']:
            p, c = hydro_case(W, s['Trock'], s['Tsurf'], d, s['grad'], dict(s, depths=[d]))
            cs.append(c)
            st += [static_case(1000.0, d, s), static_case(s['rhorock'], d, s)]
            ctg = F(9, 10000) / (F(30796, 1000) * c['flat'][1]) * _f(s['grad'])
            row.append((_f(d), _f(p), ctg))
        for (d1, p1, ctg), (d2, p2, _) in zip(row, row[1:]):
            if d1 < d2 and ctg * d2 <= 1:    # hypotheses of C15_hydrostatic_positive / _monotone_partial
                terms.append(f'Qltb 0 {Q(p1)} && Qleb {Q(p1)} {Q(p2)}')
                owners.append((s, float(d1), float(d2), float(p1), float(p2)))
        ctx.count('hydrostatic-domain', beyond_vertex=sum(ctg * d > 1 for d, _, ctg in row), within=sum(ctg * d <= 1 for d, _, ctg in row))
    _flat_jobs(ctx, [('hydrostatic-correlation', ['Model.Hydrostatic'], 'run_hydro', TOL, cs, 'corr', lambda c: 'hydrostatic:formula',
                      'exponent / pressure of get_hydrostatic_pressure_kPa differ from the Coq model'),
                     ('static-pressure', ['Model.Hydrostatic'], 'run_static', TOL, st, 'corr', lambda c: 'static-pressure:formula',
                      'static_pressure_MPa differs from rho*g*depth of the Coq model')])
    bad = fw.kernel_bools(ctx, 'hydro_checkers', [], terms, shard=_shard(len(terms)))
    ctx.count('hydrostatic-property-checkers', evaluations=len(terms))
    for i in bad[:5]:
        s, d1, d2, p1, p2 = owners[i]
        ctx.violate('property', 'hydrostatic:not-positive-or-decreasing-with-depth',
                    f'built-in hydrostatic pressure is {p1} kPa at {d1} m and {p2} kPa at {d2} m (same temperatures and gradient): {s}',
                    inp={'desc': dict(s, depths=[d1, d2])}, expected='0 < p(d1) <= p(d2) below the vertex depth 1/(CT*gradient)',
                    observed=[p1, p2])


# ------------------------------------------------------------------------------------------------
# (f) every example that runs offline, all wellbore classes (SBT, SUTRA, cylindrical ...): pumping power never negative
# ------------------------------------------------------------------------------------------------
EX_SERIES = ('PumpingPower', 'PumpingPowerProd', 'PumpingPowerInj')
EX_CHILD = """
import json, sys
from lib import runner, snapshot
inp, out, scratch = sys.argv[1:4]
runner._init_worker(scratch)
r = runner.run_text(open(inp).read(), scratch)
S = snapshot.S(r['snap']) if r['snap'] else None
json.dump({'ok': r['ok'], 'error': r['error'], 'cls': r['snap']['wellbores']['__class__'] if S else None,
           'series': {a: S.v('wellbores', a, None) for a in %r} if S else None}, open(out, 'w'))
""" % (EX_SERIES,)


def examples_start(ctx, names=None):
    """the slow examples (SBT, SUTRA, district heating) each in a process of its own, started first so that they overlap with
    the kernel work and can be abandoned at a deadline; the fast ones go through the worker pool when collecting"""
    import subprocess
    import time
    todo = [(n, t) for n, t in configs.example_texts(slow=True) if names is None or n in names]
    procs = []
    for n, t in todo:
        if n in configs.SLOW_EXAMPLES:
            inp = ctx.scratch / ('ex_' + n)
            inp.write_text(t)
            out = inp.with_suffix('.json')
            procs.append((n, subprocess.Popen([fw.PY, '-B', '-c', EX_CHILD, str(inp), str(out), str(ctx.scratch)],
                                              stdout=subprocess.DEVNULL, stderr=subprocess.DEVNULL), out))
    return {'t0': time.time(), 'slow': procs, 'fast': [(n, t) for n, t in todo if n not in configs.SLOW_EXAMPLES]}


def examples_collect(ctx, st, deadline_s=720):
    import time
    res = []
    for (n, _), r in zip(st['fast'], runner.run_many(ctx, [t for _, t in st['fast']])):
        S = snapshot.S(r['snap']) if r['snap'] else None
        res.append((n, {'error': r['error'], 'cls': r['snap']['wellbores']['__class__'] if S else None,
                        'series': {a: S.v('wellbores', a, None) for a in EX_SERIES} if S else None}))
    for n, proc, out in st['slow']:
        try:
            proc.wait(timeout=max(1, st['t0'] + deadline_s - time.time()))
            res.append((n, json.loads(out.read_text())))
        except Exception:   # not finished by the deadline (or no result written): abandoned, counted, not a verdict
            proc.kill()
            ctx.count('examples', abandoned=n)
    terms, owners = [], []
    for n, r in res:
        if not r.get('series'):
            ctx.count('examples', no_snapshot=f'{n}: {str(r.get("error"))[:50]}')
            continue
        lists = {a: v for a, v in r['series'].items() if isinstance(v, list) and v and all(isinstance(x, (int, float)) for x in v)}
        for a, v in lists.items():
            terms.append(f'all_nonneg {QL(_f(v))}')
            owners.append((n, a, v))
        ctx.count('examples', evaluations=1, nontrivial_keys=[(r['cls'], tuple(sorted(lists)))], wellbore_class=r['cls'])
    bad = fw.kernel_bools(ctx, 'example_checkers', ['Model.Pumping'], terms, shard=_shard(len(terms)))
    for i in bad[:6]:
        n, a, v = owners[i]
        ctx.violate('property', f'example:{n}:{a}:negative', f'{a} is negative at some time step in tests/examples/{n} (min {min(v)})',
                    inp={'desc': {'part': 'example', 'name': n}}, expected=f'{a} >= 0 at every time step', observed=v[:40])


# ------------------------------------------------------------------------------------------------
def correspondence(ctx, proofs_ok=True):
    import time
    W, t = _W(), [time.time()]
    lap = lambda name: (t.append(time.time()), ctx.note(f'{name}: {t[-1] - t[-2]:.1f} s'))
    only = os.environ.get('VERIF_C15_PARTS')      # debugging aid (mutation trials): comma-separated subset of the parts below
    want = lambda part: not only or part in only.split(',')
    if only:
        ctx.note(f'PARTIAL RUN, parts: {only}')
    examples = examples_start(ctx) if want('examples') and (not ctx.quick or os.environ.get('VERIF_C15_EXAMPLES')) else None
    if want('pred'):
        check_pred(ctx, pred_cases(ctx, W))
        lap('predictors')
    if want('friction'):
        check_friction(ctx, json.loads((CORPUS / 'friction_seeds.json').read_text()) + [sweep_spec(ctx) for _ in range(ctx.n(35, 400))])
        lap('friction sweeps')
    if want('pump'):
        check_pump(ctx, json.loads((CORPUS / 'pump_seeds.json').read_text()) + [pump_spec(ctx) for _ in range(ctx.n(12, 150))])
        lap('hydraulic functions vs diameter')
    if want('hydro'):
        check_hydro(ctx, json.loads((CORPUS / 'hydro_seeds.json').read_text()) + [hydro_spec(ctx) for _ in range(ctx.n(25, 300))])
        lap('hydrostatic correlation')
    if want('runs'):
        cfgs, pairs = run_configs(ctx), pair_configs(ctx)
        results = runner.run_many(ctx, [c['text'] for c in cfgs] + [t for pr in pairs for t in pr['texts']])
        lap('whole runs')
        check_runs(ctx, cfgs, results[:len(cfgs)])
        check_pairs(ctx, pairs, results[len(cfgs):])
        lap('snapshot checks')
    if examples:
        examples_collect(ctx, examples, deadline_s=int(os.environ.get('VERIF_C15_EXAMPLE_DEADLINE', 720)))
        lap('examples (all wellbore classes)')


def search(ctx):
    """model and code disagree somewhere but no property failure was seen: evaluate the property itself on the implementation
    around the anchored mechanisms (dense deterministic grids; the checkers are the Coq-defined ones)."""
    W = _W()
    cs = []
    for life in (1, 2, 7, 30):
        for k in (1, 2, 4, 12):
            for op in (100, 101, 150, 400):
                for rate in (F(1, 2), F(3), F(10), F(33), F(100 * k)):
                    for exact in (True, False):
                        cs.append(pred_case(W, 'prod', life, k, F(29430), rate, F(op), exact))
            for rate in (F(1), F(250), F(1000)):
                cs.append(pred_case(W, 'inj', life, k, F(9000), rate, None, False))
    n0 = len(ctx.violations)
    check_pred(ctx, cs, equality=False)   # property clauses only
    rnd_specs = [sweep_spec(ctx) for _ in range(200)]
    check_friction(ctx, rnd_specs)
    check_pump(ctx, [pump_spec(ctx) for _ in range(60)])
    check_hydro(ctx, [hydro_spec(ctx) for _ in range(100)])
    ctx.note(f'search: {len(cs)} predictor calls, {len(rnd_specs)} diameter sweeps, {len(ctx.violations) - n0} new entries')


def replay(ctx, data):
    d = (data.get('input') or {}).get('desc') or {}
    part = d.get('part')
    if part == 'predictor':
        c = pred_case(_W(), d['fn'], d['life'], d['k'], F(d['p0']), F(d['rate']), F(d['op']) if 'op' in d else None, d['exact'])
        print('implementation:', flatcorr._show(c['impl']))
        check_pred(ctx, [c])
    elif part == 'friction':
        for c in sweep_cases(d):
            print('d =', float(c['d']), 'laminar' if c['lam'] else 'turbulent', 'f =', [float(x) for x in c['f']], 'DP[kPa] =', [float(x) for x in c['dp']])
        check_friction(ctx, [d])
    elif part == 'example':
        examples_collect(ctx, examples_start(ctx, names=[d['name']]), deadline_s=3600)
    elif part == 'hydro':
        check_hydro(ctx, [d])
    elif part == 'pump':
        for r in pump_cases(d):
            print('d =', float(r['d']), {k: [round(float(x), 4) for x in r[k]] for k in ('dpp', 'dpp0', 'ppp', 'dpi', 'dpi0', 'ppi', 'dpo', 'ppimp')})
        check_pump(ctx, [d])
    elif part == 'runpair':
        rs = runner.run_many(ctx, d['texts'])
        for t, r in zip(('smaller', 'larger'), rs):
            S = snapshot.S(r['snap']) if r['snap'] else None
            print(t, d['which'], ':', {a: (S.v('wellbores', a)[:3] if isinstance(S.v('wellbores', a), list) else S.v('wellbores', a))
                                      for a in ('DPProdWell', 'DPInjWell', 'PumpingPowerProd', 'PumpingPowerInj', 'PumpingPower')} if S else r['error'])
        check_pairs(ctx, [d], rs)
    elif part == 'run':
        r = runner.run_many(ctx, [d['text']])[0]
        print('run:', 'ok' if r['ok'] else r['error'])
        if r['snap']:
            S = snapshot.S(r['snap'])
            for a in ('PumpingPower', 'PumpingPowerProd', 'PumpingPowerInj', 'production_reservoir_pressure', 'injection_reservoir_pressure'):
                v = S.v('wellbores', a, None)
                print(' ', a, (v[:6] + ['...'] if len(v) > 6 else v) if isinstance(v, list) else v)
        check_runs(ctx, [{'tag': d['tag'], 'text': d['text']}], [r])
    else:
        print('replay names an obligation, not an input:', data.get('key'), '-', data.get('what'))
        return 1
    for v in ctx.violations:
        print(f'{v.kind}: [{v.key}] {v.what[:300]}')
    bad = [v for v in ctx.violations if v.key != 'whole-run:few-snapshots']
    print('property', 'VIOLATED' if any(v.kind == 'property' for v in bad) else ('NOT SHOWN TO FAIL; model and code disagree' if bad else 'holds'),
          'on this input')
    return 1 if bad else 0
