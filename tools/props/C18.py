"""C18 - outputs respond monotonically where the model says they must."""
import math
from fractions import Fraction as F
from types import SimpleNamespace as NS

from gen import wellcost
from lib import configs, econ, framework as fw, qconv, runner

TOL = F(1, 10 ** 9)

META = {
    'props': 'Props/C18.v',
    'claimed': True,
    'level_text': (
        'Proof (Coq, axiom-free): bottom-hole temperature = min(profile(depth), Tmax) is non-decreasing in depth and in every '
        'normalised gradient for any number of layers; the percentage-drawdown temperature is non-increasing in the drawdown rate at '
        'every time; the initial production temperature is non-decreasing in the Ramey coefficient A (proportional to the flow rate) '
        'given the concavity of 1-exp(-x) in chord form; every drilling-cost correlation of the table REGENERATED from the current '
        'source is non-decreasing on 500..15000 m (finite check lifted to all depths by a lemma on quadratics), also after the '
        'adjustment factor; NPV is non-increasing in capital and O&M cost; every levelized cost is non-decreasing in its capital '
        'share, O&M share and other cost streams (BICYCLE: under non-negativity of its capital coefficient). The reader\'s gradient '
        'magnitude heuristic is proved NOT monotone across 1.0 (C18_bht_input_gradient_refuted; known finding). Tied to the code by '
        'ordered run pairs for every clause, compared in the kernel, plus the C01/C03/C04/C05 correspondences of the same models.'),
    'level_note': (
        'Trusted: Coq kernel + vm_compute; Python harness; library exp/log/sqrt enter as data and 1-exp(-x) through its stated '
        'concavity (sampled on the values used); "all else equal" is realised by changing a single input line. With redrilling '
        'enabled a larger drawdown rate can redrill earlier and restart the profile: that case is a recorded finding, the theorem '
        'is about the drawdown law itself.'),
    'rule': ('ordered pairs of whole runs differing in one input (gradient, depth, drawdown parameter, flow rate, one cost input or '
             'adjustment factor) over all end-uses / economic models, and ordered depth pairs through the real per-well cost helper '
             'for all 17 correlations; non-trivial pair: both runs succeed and the varied input differs; distinct = (clause, varied '
             'parameter, model / end-use or correlation) signatures'),
    'trusted_base': ['Coq 8.16.1 kernel + vm_compute (no native_compute)',
                     'all C18 theorems: Closed under the global context (no axioms)',
                     'coq/Gen/WellCost.v regenerated from OptionList.WellDrillingCostCorrelation on every run',
                     'models Gradient.v, Drawdown.v (C05), Ramey.v, Costs.v, CashFlow.v, Lcoe.v; run pairs through main() with the '
                     'guarded hook (tools/props/C18.py: unverified Python)'],
    'modelled': ['Reservoir gradient walk', 'TDPReservoir linear drawdown', 'WellBores.RameyCalc (first time step)',
                 'Economics.calculate_cost_of_one_vertical_well + correlation table', 'NPV / levelized-cost functions'],
    'assumptions': ['1-exp(-x) is concave with value 0 at 0 (chord form), assumed of math.exp / numpy.exp and sampled',
                    'the Ramey time function is positive (checked on every run used)',
                    'plant / pump / labour cost correlations are non-negative (checked on snapshots by C03)'],
    'fingerprint': [('src/geophires_x/Reservoir.py', 'Reservoir.Calculate'), ('src/geophires_x/TDPReservoir.py', 'TDPReservoir.Calculate'),
                    ('src/geophires_x/WellBores.py', 'RameyCalc'), ('src/geophires_x/Economics.py', 'calculate_cost_of_one_vertical_well')],
}

GENERATORS = (wellcost.generate,)

COST_FACTORS = [
    ('Well Drilling and Completion Capital Cost Adjustment Factor', 0.5, 3), ('Reservoir Stimulation Capital Cost Adjustment Factor', 0.5, 3),
    ('Surface Plant Capital Cost Adjustment Factor', 0.5, 3), ('Field Gathering System Capital Cost Adjustment Factor', 0.5, 3),
    ('Exploration Capital Cost Adjustment Factor', 0.5, 3), ('Wellfield O&M Cost Adjustment Factor', 0.5, 3),
    ('Surface Plant O&M Cost Adjustment Factor', 0.5, 3), ('Water Cost Adjustment Factor', 0.5, 3),
    ('Well Drilling and Completion Capital Cost', 2, 12), ('Reservoir Stimulation Capital Cost', 0.5, 6),
    ('Surface Plant Capital Cost', 5, 80), ('Field Gathering System Capital Cost', 0.5, 6), ('Exploration Capital Cost', 1, 8),
    ('Wellfield O&M Cost', 0.1, 2), ('Surface Plant O&M Cost', 0.1, 3), ('Water Cost', 0.01, 0.4),
    ('Total Capital Cost', 20, 200), ('Total O&M Cost', 0.5, 8), ('One-time Flat License Fees Etc', 0.1, 5), ('Annual License Fees Etc', 0.05, 1),
]


def replace(cfg, key, value):
    out = [(k, v) for k, v in cfg if k != key]
    out.append((key, configs.fmt(value)))
    return out


def two_values(rnd, lo, hi, d=3):
    a, b = configs.dec(rnd, lo, hi, d), configs.dec(rnd, lo, hi, d)
    while a == b:
        b = configs.dec(rnd, lo, hi, d)
    return min(a, b), max(a, b)


def gen_pairs(ctx):
    rnd = ctx.rng
    pairs = []   # (clause, desc, cfg_lo, cfg_hi)
    n = ctx.n(1, 15)
    for _ in range(12 * n):   # gradient / depth
        nseg = rnd.choice([1, 1, 2, 3, 4])
        cfg = configs.synthetic(rnd, nseg=nseg, addons=False)
        if rnd.random() < 0.5:
            i = rnd.randint(1, nseg)
            lo, hi = two_values(rnd, 20, 95, 1)
            pairs.append(('bht-gradient', {'param': f'Gradient {i}', 'lo': lo, 'hi': hi, 'nseg': nseg},
                          replace(cfg, f'Gradient {i}', lo), replace(cfg, f'Gradient {i}', hi)))
        else:
            lo, hi = two_values(rnd, 0.6, 6.5, 2)
            pairs.append(('bht-depth', {'param': 'Reservoir Depth', 'lo': lo, 'hi': hi, 'nseg': nseg},
                          replace(cfg, 'Reservoir Depth', lo), replace(cfg, 'Reservoir Depth', hi)))
    # the magnitude heuristic at 1.0 (degC/m below, degC/km above): always exercised
    cfg = configs.synthetic(rnd, nseg=1, resmodel=4, addons=False)
    pairs.append(('bht-gradient', {'param': 'Gradient 1', 'lo': 0.09, 'hi': 1.1, 'nseg': 1, 'crosses_heuristic': True},
                  replace(replace(cfg, 'Gradient 1', 0.09), 'Maximum Temperature', 500),
                  replace(replace(cfg, 'Gradient 1', 1.1), 'Maximum Temperature', 500)))
    for _ in range(8 * n):    # drawdown rate, model 4
        cfg = configs.synthetic(rnd, resmodel=4, addons=False)
        lo, hi = two_values(rnd, 0.001, 0.03, 4)
        if rnd.random() < 0.7:
            cfg = replace(cfg, 'Maximum Drawdown', 1)
        pairs.append(('tdp-rate', {'param': 'Drawdown Parameter', 'lo': lo, 'hi': hi},
                      replace(cfg, 'Drawdown Parameter', lo), replace(cfg, 'Drawdown Parameter', hi)))
    # small margin between the rock and the fluid entering the reservoir (injection temperature + wellbore gain): the sign of
    # (Trock - Tin) is what makes the clause hold, so it is probed where one more gain would flip it
    for _ in range(max(2, 2 * n)):
        cfg = replace(configs.synthetic(rnd, nseg=1, resmodel=4, addons=False), 'Maximum Drawdown', 1)
        ti, g, u = rnd.choice([40, 55, 70]), rnd.choice([5, 10, 20]), rnd.choice([0.15, 0.5, 0.85])
        grad, ts = rnd.choice([30, 45, 60]), 15
        depth = round((ti + g * (1 + u) - ts) / grad, 4)
        for k, v in (('Injection Temperature', ti), ('Injection Wellbore Temperature Gain', g), ('Gradient 1', grad),
                     ('Surface Temperature', ts), ('Reservoir Depth', depth), ('Maximum Temperature', 400)):
            cfg = replace(cfg, k, v)
        lo, hi = two_values(rnd, 0.001, 0.03, 4)
        pairs.append(('tdp-rate', {'param': 'Drawdown Parameter', 'lo': lo, 'hi': hi, 'margin_over_injected_fluid': round(g * u, 3)},
                      replace(cfg, 'Drawdown Parameter', lo), replace(cfg, 'Drawdown Parameter', hi)))
    # drawdown rate x lifetime beyond 1 (the remaining-fraction factor changes sign there): the clause has no such limit
    cfg = replace(replace(replace(configs.synthetic(rnd, nseg=1, resmodel=4, life=30, tspy=2, addons=False), 'Maximum Drawdown', 1),
                          'Injection Temperature', 50), 'Gradient 1', 50)
    pairs.append(('tdp-rate', {'param': 'Drawdown Parameter', 'lo': 0.05, 'hi': 0.06, 'rate_x_lifetime': 1.8},
                  replace(cfg, 'Drawdown Parameter', 0.05), replace(cfg, 'Drawdown Parameter', 0.06)))
    # redrilling interacts with the drawdown rate (recorded finding): always exercised
    cfg = replace(replace(configs.synthetic(rnd, resmodel=4, life=30, tspy=2, addons=False), 'Maximum Drawdown', 0.1), 'Injection Temperature', 50)
    pairs.append(('tdp-rate', {'param': 'Drawdown Parameter', 'lo': 0.003, 'hi': 0.004, 'redrilling': True},
                  replace(cfg, 'Drawdown Parameter', 0.003), replace(cfg, 'Drawdown Parameter', 0.004)))
    for _ in range(8 * n):    # Ramey, flow rate
        cfg = replace(configs.synthetic(rnd, addons=False), 'Ramey Production Wellbore Model', 1)
        cfg = [(k, v) for k, v in cfg if k != 'Production Wellbore Temperature Drop']
        lo, hi = two_values(rnd, 10, 120, 1)
        pairs.append(('ramey-flow', {'param': 'Production Flow Rate per Well', 'lo': lo, 'hi': hi},
                      replace(cfg, 'Production Flow Rate per Well', lo), replace(cfg, 'Production Flow Rate per Well', hi)))
    # cost inputs and adjustment factors: every input x every end-use (the plant-specific ones on their plant), with the
    # lower value at the input's minimum (0) in a third of the pairs
    special = [('Heat Pump Capital Cost', 0.1, 8, 2, 6), ('Absorption Chiller Capital Cost', 0.1, 8, 2, 5),
               ('Absorption Chiller O&M Cost', 0.01, 1, 2, 5)]
    combos = [(key, lo0, hi0, eu, None) for key, lo0, hi0 in COST_FACTORS for eu in configs.ENDUSES]   # 5-tuples
    combos += [sp + (j,) for sp in special for j in range(3)]
    for rep in range(n):
        for key, lo0, hi0, eu, plant, *which in combos:
            econm = rnd.choice([1, 2, 3])
            pl = plant or rnd.choice(configs.ELEC_PLANTS if eu != 2 else [5, 6, 9, 9])
            cfg = configs.synthetic(rnd, enduse=eu, plant=pl, econ=econm, addons=False)
            if key in ('Wellfield O&M Cost', 'Surface Plant O&M Cost', 'Water Cost', 'Absorption Chiller O&M Cost') or 'O&M Cost Adjustment' in key \
                    or key == 'Water Cost Adjustment Factor':
                cfg = [(k, v) for k, v in cfg if k != 'Total O&M Cost']
            elif key not in ('Total O&M Cost', 'Annual License Fees Etc'):
                cfg = [(k, v) for k, v in cfg if k != 'Total Capital Cost']
            if key.endswith('Adjustment Factor'):
                cfg = [(k, v) for k, v in cfg if k != key.replace(' Adjustment Factor', '')]
            if plant:
                cfg = [(k, v) for k, v in cfg if k != 'Surface Plant Capital Cost']
            lo, hi = two_values(rnd, lo0, hi0, 2)
            if which == [0]:                 # the boundary pair: minimum of the input against a small value
                lo, hi = 0, configs.dec(rnd, lo0, min(hi0, 10 * lo0), 2)
            elif rnd.random() < 0.34 and not key.startswith('Total'):
                lo = 0
            pairs.append(('cost', {'param': key, 'lo': lo, 'hi': hi, 'econ': econm, 'enduse': eu, 'plant': pl},
                          replace(cfg, key, lo), replace(cfg, key, hi)))
    for eu in (1, 2, 31):    # the injection wells' own factor raised to exactly 1 (its default value) while the production factor is another
        cfg = [(k, v) for k, v in configs.synthetic(rnd, enduse=eu, plant=(9 if eu == 2 else 1), addons=False)
               if not k.startswith(('Well Drilling and Completion Capital Cost', 'Injection Well Drilling and Completion Capital Cost',
                                    'Total Capital Cost', 'Number of Injection Wells'))]
        cfg += [('Well Drilling and Completion Capital Cost Adjustment Factor', configs.fmt(configs.dec(rnd, 0.4, 0.8, 2))),
                ('Number of Injection Wells', '2')]
        key = 'Injection Well Drilling and Completion Capital Cost Adjustment Factor'
        pairs.append(('cost', {'param': key, 'lo': 0.9, 'hi': 1, 'econ': int(dict(cfg)['Economic Model']), 'enduse': eu,
                               'plant': int(dict(cfg)['Power Plant Type']), 'hi_is_default_value': True},
                      replace(cfg, key, 0.9), replace(cfg, key, 1)))
    # BICYCLE with a high combined income tax rate and no tax credit: the income-tax term is then the largest term of the
    # levelized cost, so a sign slip in it reverses the response to a capital cost input (at ordinary rates it only shifts it)
    for (eu, pl) in ((1, 1), (2, 9), (2, 5), (2, 6), (31, 2), (42, 3), (52, 4)):
        for key, lo0, hi0 in (('Reservoir Stimulation Capital Cost', 0.5, 12), ('Well Drilling and Completion Capital Cost Adjustment Factor', 0.5, 3))[:n + 1]:
            cfg = [(k, v) for k, v in configs.synthetic(rnd, enduse=eu, plant=pl, econ=3, addons=False)
                   if k not in ('Total Capital Cost', 'Investment Tax Credit Rate', 'Combined Income Tax Rate', key,
                                key.replace(' Adjustment Factor', ''))]
            cfg.append(('Combined Income Tax Rate', configs.fmt(configs.dec(rnd, 0.7, 0.95, 2))))
            lo, hi = two_values(rnd, lo0, hi0, 2)
            pairs.append(('cost', {'param': key, 'lo': lo, 'hi': hi, 'econ': 3, 'enduse': eu, 'plant': pl, 'high_tax_rate': True},
                          replace(cfg, key, lo), replace(cfg, key, hi)))
    return pairs


def ramey_terms(R, tol):
    """reported initial wellbore temperature drop vs Model/Ramey.v fed the library values the run used."""
    s = R.s
    if not s.v('wellbores', 'rameyoptionprod') or s.has('reserv', 'InputDepth') or R.plant == 7:
        return []   # (district heating recomputes the utilization factor after the wellbore model has run)
    tv = s.v('reserv', 'timevector')
    drop = s.v('wellbores', 'ProdTempDrop')
    if not isinstance(drop, list) or len(tv) < 2:
        return []
    krock, rho, cp = s.v('reserv', 'krock'), s.v('reserv', 'rhorock'), s.v('reserv', 'cprock')
    diam, util = s.v('wellbores', 'prodwelldiam'), s.v('surfaceplant', 'utilization_factor')
    flow, cpw = s.v('wellbores', 'prodwellflowrate'), s.v('reserv', 'cpwater')
    g = s.v('reserv', 'averagegradient')
    depth = s.p('reserv', 'depth')
    d = depth['value'] * (1000 if depth['cur'] == 'kilometer' else 1)
    alpha = krock / (rho * cp)
    f0 = -math.log(1.1 * (diam / 2.0) / math.sqrt(4. * alpha * tv[1] * 365.0 * 24.0 * 3600.0 * util)) - 0.29
    A = flow * cpw * f0 / 2 / math.pi / krock
    ex = math.exp(-d / A)
    q = econ.q15
    t = (f'close {qconv.q(F(1, 10 ** 7))} (ramey_drop0 {q(g)} {q(d)} (ramey_A {q(flow)} {q(cpw)} {q(f0)} {q(math.pi)} {q(krock)}) {q(ex)}) '
         f'{q(drop[0])}')
    return [('ramey-model', t)], {'f0': f0, 'A': A, 'x': d / A}


def check_pairs(ctx, pairs):
    texts = [runner.params_to_text(c) for p in pairs for c in (p[2], p[3])]
    res = runner.run_many(ctx, texts)
    terms, owners = [], []
    qx = econ.qx
    tol = qconv.q(TOL)
    leq = lambda a, b: f'Qleb {qx(a)} ({qx(b)} + {tol} * Qmax3 1 (Qabs {qx(a)}) (Qabs {qx(b)}))'   # a <= b up to float noise
    chord_samples = 0
    for i, (clause, desc, _, _) in enumerate(pairs):
        ra, rb = res[2 * i], res[2 * i + 1]
        ta, tb = texts[2 * i], texts[2 * i + 1]
        if not (ra['ok'] and rb['ok'] and ra['snap'] and rb['snap']):
            ctx.count('run-pairs', rejected={clause + ': ' + ((ra['error'] or rb['error'] or 'no snapshot')[:50]): 1})
            continue
        A, Bn = econ.Run(ra['snap']), econ.Run(rb['snap'])
        ts = []
        sub = clause
        if clause in ('bht-gradient', 'bht-depth'):
            ts.append(('Trock', leq(A.s.v('reserv', 'Trock'), Bn.s.v('reserv', 'Trock'))))
            if desc.get('crosses_heuristic'):
                sub = 'bht-gradient:crosses-1.0-heuristic'
        elif clause == 'tdp-rate':
            a, b = A.s.v('reserv', 'Tresoutput'), Bn.s.v('reserv', 'Tresoutput')
            if A.s.v('wellbores', 'redrill') > 0 or Bn.s.v('wellbores', 'redrill') > 0:
                sub = 'tdp-rate:redrilled'
            if len(a) == len(b) and econ.finite(a, b):
                ts.append(('Tresoutput', 'forallb (fun b : bool => b) [' + '; '.join(leq(y, x) for x, y in zip(a, b)) + ']'))
        elif clause == 'ramey-flow':
            pa, pb = A.s.v('wellbores', 'ProducedTemperature'), Bn.s.v('wellbores', 'ProducedTemperature')
            if A.s.v('reserv', 'Trock') == Bn.s.v('reserv', 'Trock'):
                ts.append(('ProducedTemperature[0]', leq(pa[0], pb[0])))
            for R in (A, Bn):
                rt = ramey_terms(R, tol)
                if rt:
                    ts += rt[0]
                    if rt[1]['f0'] <= 0:
                        ctx.note(f'Ramey time function not positive on {desc}')
            ra_, rb_ = ramey_terms(A, tol), ramey_terms(Bn, tol)
            if ra_ and rb_:   # sample the chord hypothesis on the values used: x <= y -> x*E(y) <= y*E(x)
                x, y = sorted([ra_[1]['x'], rb_[1]['x']])
                E = lambda z: -math.expm1(-z)
                if x > 0 and not x * E(y) <= y * E(x) * (1 + 1e-12):
                    ctx.violate('corr', 'ramey:chord-hypothesis', f'1-exp(-x) chord property fails numerically at x={x}, y={y}')
                chord_samples += 1
        else:
            oa, ob = A.e, Bn.e
            vals = [oa('ProjectNPV'), ob('ProjectNPV'), oa('LCOE'), ob('LCOE'), oa('LCOH'), ob('LCOH'), oa('LCOC'), ob('LCOC')]
            if not econ.finite(vals):
                ctx.count('run-pairs', rejected={'cost: non-finite outputs': 1})
                continue
            same_energy = all(A.series('surfaceplant', nme) == Bn.series('surfaceplant', nme)
                              for nme in ('NetkWhProduced', 'HeatkWhProduced', 'cooling_kWh_Produced'))
            if not same_energy:
                ts.append(('all-else-equal', 'false'))
            ts.append(('NPV', leq(ob('ProjectNPV'), oa('ProjectNPV'))))
            ts.append(('CCap', leq(oa('CCap'), ob('CCap'))))
            ts.append(('Coam', leq(oa('Coam'), ob('Coam'))))
            pos = lambda nme: (lambda l: bool(l) and all(x > 0 for x in l))(A.series('surfaceplant', nme))
            if A.kind in ('KElec', 'KCogen') and pos('NetkWhProduced'):
                ts.append(('LCOE', leq(oa('LCOE'), ob('LCOE'))))
            if A.kind in ('KHeat', 'KCogen') and pos('HeatkWhProduced') and (A.kind != 'KCogen' or pos('NetkWhProduced')):
                ts.append(('LCOH', leq(oa('LCOH'), ob('LCOH'))))
            if A.kind == 'KCool' and pos('cooling_kWh_Produced'):
                ts.append(('LCOC', leq(oa('LCOC'), ob('LCOC'))))
        for name, t in ts:
            terms.append(t)
            owners.append((sub, name, desc, ta, tb))
        ctx.count('run-pairs', nontrivial_keys=[(clause, desc['param'], desc.get('econ'), desc.get('enduse'), desc.get('nseg'))],
                  clause=sub, param=desc['param'])
        ctx.sample('run-pairs', {'clause': clause, **desc}, limit=5)
    failing = fw.kernel_bools(ctx, 'pairs', ['Model.CashFlow', 'Model.Ramey'], terms, shard=200)
    ctx.count('run-pairs', evaluations=len(terms), chord_hypothesis_samples={'n': chord_samples})
    seen = set()
    for i in failing:
        sub, name, desc, ta, tb = owners[i]
        key = f'{sub}:{name}' if sub.count(':') else f'{sub}:{name}:{desc["param"]}'
        if key in seen or len(seen) >= 10:
            continue
        seen.add(key)
        kind = 'corr' if name == 'ramey-model' else 'property'
        ctx.violate(kind, key, f'{sub}: {name} is not monotone when {desc["param"]} goes from {desc["lo"]} to {desc["hi"]} ({desc})',
                    inp={'clause': sub.split(':')[0], 'desc': desc, 'input_text_lo': ta, 'input_text_hi': tb})
    return failing


def wellcost_pairs(ctx):
    import geophires_x.Model  # noqa: F401
    from geophires_x import Economics
    from geophires_x.OptionList import WellDrillingCostCorrelation as W
    rnd = ctx.rng
    stub = NS(logger=NS(warning=lambda *a, **k: None))
    terms, descs = [], []
    for m in W:
        for _ in range(ctx.n(8, 100)):
            d1, d2 = sorted(rnd.randint(500, 15000) for _ in range(2))
            per_m, adj = rnd.randint(800, 2500), rnd.randint(1, 50) / 10
            c1 = Economics.calculate_cost_of_one_vertical_well(stub, float(d1), m, float(per_m), 'x', adj)
            c2 = Economics.calculate_cost_of_one_vertical_well(stub, float(d2), m, float(per_m), 'x', adj)
            terms.append(f'Qleb {econ.qx(c1)} ({econ.qx(c2)} + {qconv.q(TOL)})')
            descs.append({'correlation': m.name, 'd1': d1, 'd2': d2, 'adj': adj, 'cost1': c1, 'cost2': c2})
    failing = fw.kernel_bools(ctx, 'wellcost_pairs', ['Model.CashFlow'], terms)
    ctx.count('wellcost-pairs', evaluations=len(terms), nontrivial_keys=[(d['correlation'], d['d1'], d['d2']) for d in descs if d['d1'] < d['d2']])
    ctx.sample('wellcost-pairs', descs[0])
    for i in failing[:4]:
        d = descs[i]
        ctx.violate('property', f'wellcost:{d["correlation"]}', f'cost of a well decreases with depth: {d}', inp={'wellcost': d})


def correspondence(ctx, proofs_ok=True):
    wellcost_pairs(ctx)
    check_pairs(ctx, gen_pairs(ctx))


def search(ctx):
    """a proof about the regenerated table broke: look for a depth pair on which the real helper decreases."""
    import geophires_x.Model  # noqa: F401
    from geophires_x import Economics
    from geophires_x.OptionList import WellDrillingCostCorrelation as W
    stub = NS(logger=NS(warning=lambda *a, **k: None))
    for m in W:
        prev = None
        for d in range(500, 15001, 50):
            c = Economics.calculate_cost_of_one_vertical_well(stub, float(d), m, 1846.0, 'x', 1.0)
            if prev is not None and c < prev[1] - 1e-12:
                ctx.violate('property', f'wellcost:{m.name}', f'cost of a well decreases with depth for {m.name}: {prev[0]} m -> {prev[1]}, {d} m -> {c}',
                            inp={'wellcost': {'correlation': m.name, 'd1': prev[0], 'd2': d, 'cost1': prev[1], 'cost2': c}})
                break
            prev = (d, c)


def replay(ctx, data):
    inp = data['input']
    if 'wellcost' in inp:
        print(inp['wellcost'])
        wellcost_pairs(ctx)
    else:
        lo = [tuple(l.split(', ', 1)) for l in inp['input_text_lo'].splitlines() if ', ' in l]
        hi = [tuple(l.split(', ', 1)) for l in inp['input_text_hi'].splitlines() if ', ' in l]
        check_pairs(ctx, [(inp['clause'], inp['desc'], lo, hi)])
    for v in ctx.violations:
        print(v.kind, v.key, v.what[:400])
    print('property', 'VIOLATED' if ctx.violations else 'holds', 'on this input')
    return 1 if ctx.violations else 0
