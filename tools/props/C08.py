"""C08 - a run is a pure function of its input; runs do not contaminate each other."""
import collections
import functools
import json

from gen import c08_memo, c08_state
from lib import c08_sessions as S, framework as fw, runner

META = {
    'props': 'Props/C08.v',
    'claimed': True,
    'level_text': ('Proof (partial): for EVERY history of operations (requests through any GEOPHIRES client with caching on or off and '
                   'through the HIP-RA-X / HIP-RA clients, with absolute or relative request paths, file writes/deletes, chdir, argv '
                   'assignments, new clients, command-line runs, Monte-Carlo work packages; any length, any starting state, any '
                   'simulation oracle, any hash, any path resolution) the model of the CURRENT clients restores cwd and sys.argv after '
                   'every request, successful, cached or failed (C08_restore, C08_restore_history, C08_hip_frame, C08_cli_restore, '
                   'C08_get_frame, C08_mc_package); the client of the pinned tree is kept as a named alternative with its refutation '
                   '(C08_restore_pinned_refuted/_partial). The clause "a client never returns a result computed from content different '
                   'from the request" is REFUTED by the path-keyed cache - a file changed after it was cached, and the same relative '
                   'path requested from two directories (C08_cache_refines_run_refuted, C08_cache_relative_shared_refuted; one known '
                   'finding) - and proved for every history under the hypotheses the cache needs, unconditionally with caching off, '
                   'relative paths from changing directories included (C08_cache_refines_run_partial, C08_nocache_refines_run, '
                   'C08_result_function_of_content); the clients of the pinned tree, which opened a relative path in the program '
                   'directory, are kept as the named alternative pinned_opendir with their refutation (C08_relative_request_refuted; '
                   'repaired by fa4a753); the content-keyed cache is proved sound '
                   '(C08_sound_key_refines_run, C08_content_key_refines_run, C08_caller_dir_resolves_same). State that outlives a run: '
                   'lru_cache tables (memoising a key-respecting function is unobservable, identity-keyed tables never hit on distinct '
                   'objects, every memoised callable of the source is of one of the two kinds) and every other module/class-level '
                   'mutable object and Parameter default of the source (tables regenerated each run: no default is shared between '
                   'runs, every written process-level container is a keyed memo). Tie: random histories executed on the real '
                   'clients/CLI/Monte-Carlo work_package in fresh processes (different cwd, PYTHONHASHSEED) and on the model; '
                   'cwd/argv/outcome compared step by step inside Coq, property verdicts computed by Coq checkers proved sound.'),
    'level_note': ('Only tied, not proved: that the real simulation is a function of the file content (pint registry, CoolProp, '
                   'lru_cache contents, numpy state are exercised by the histories: parsed result, masked report text and '
                   'full-precision JSON output must equal those of a fresh single-run process). The OS path resolution, Python '
                   'dict/hash semantics and functools.lru_cache are modelled (the latter compared with the model on random key '
                   'sequences); the source scans (tools/gen/c08_memo.py, c08_state.py) are unverified Python, tied to the live '
                   'objects by identity checks on two Model instances.'),
    'technique': 'Coq proof about an executable Gallina model + kernel-evaluated correspondence with the implementation',
    'rule': ('sessions = random histories (<= 40 operations quick, <= 60 thorough) over a pool of input files from every '
             'end-use/plant/economic-model family plus requests failing in the reader, in Calculate and by sys.exit, files '
             'missing/deleted/rewritten between calls, 1-3 clients with caching on/off, dict-built requests, requests built from '
             'a base file plus overriding params (same params over different bases and conversely), RELATIVE request paths '
             '(a name that also exists in the source directory and one that does not) from changing directories, HIP-RA-X / '
             'HIP-RA client requests, Monte-Carlo work packages (MC_GeoPHIRES3.work_package in-process, 2-4 iterations), chdir, argv '
             'assignments, in-process CLI runs; one fresh process per session, PYTHONHASHSEED in {0,1,random}; corpus '
             'seeds first. evaluations = operations executed; a step is non-trivial when it is a request; distinct = distinct '
             '(operation, outcome, cache state, previous outcome, cwd moved, file changed since last request) signatures'),
    'trusted_base': ['Coq 8.16.1 kernel + vm_compute (no native_compute)',
                     'all C08 theorems: Closed under the global context (no axioms)',
                     'hand-written models coq/Model/Process.v, coq/Model/Memo.v tied to geophires_x_client.GeophiresXClient, '
                     'GEOPHIRESv3.main, geophires_x/__main__.py and functools.lru_cache by executed histories compared in the kernel',
                     'tools/props/C08.py, tools/lib/c08_sessions.py, tools/lib/c08_worker.py, tools/gen/c08_memo.py (unverified Python)'],
    'modelled': ['GeophiresXClient.get_geophires_result', 'HipRaXClient / HipRaClient .get_hip_ra_result', 'hip_ra_x.main / HIP_RA.main (chdir)',
                 'MC_GeoPHIRES3.work_package as (write; new client; request; delete) per iteration', 'path resolution against a working directory', 'GeophiresInputParameters.__hash__ / get_output_file_path',
                 'GEOPHIRESv3.main (chdir, argv[1])', 'geophires_x/__main__.py stash/restore', 'functools.lru_cache (LRU, maxsize)',
                 'the file system as a map path -> content', 'the simulation as an oracle content -> result | raises'],
    'assumptions': ['the simulation is a function of the content of its input file (sampled by the histories, not proved)',
                    'not exercised: the class-level HDF5 table cache of AGSWellBores.data (CLGS inputs need data files that are not available offline)',
                    'request paths are normalised; hash(path) collision-free on the paths of a history; command-line runs use absolute paths',
                    'objects held as lru_cache keys stay alive, so identities of live Reservoir/Model objects are distinct',
                    'in-process CLI runs are executed with logging.config.fileConfig stubbed (it would write a log file into the source tree)'],
    'fingerprint': [('src/geophires_x_client/__init__.py', 'GeophiresXClient.get_geophires_result'),
                    ('src/geophires_x_client/geophires_input_parameters.py', 'GeophiresInputParameters.__init__'),
                    ('src/geophires_x_client/geophires_input_parameters.py', 'GeophiresInputParameters.__hash__'),
                    ('src/geophires_x/GEOPHIRESv3.py', 'main'),
                    ('src/hip_ra_x/__init__.py', 'HipRaXClient.get_hip_ra_result'), ('src/hip_ra/__init__.py', 'HipRaClient.get_hip_ra_result'),
                    ('src/geophires_monte_carlo/MC_GeoPHIRES3.py', 'work_package')],
}
GENERATORS = (c08_memo.gen_memo_table, c08_state.gen_state_table)

PROPERTY_CODES = ('restore', 'refine', 'stale')
WHAT = {
    'restore': 'cwd / sys.argv after the call differ from before it',
    'refine': 'the result returned is not the run of the content the requested file holds at request time',
    'stale': ('GeophiresXClient returns a cached result that is not the run of the requested file: the file was rewritten/deleted '
              'after it was cached, or the same relative path was cached from another working directory (cache keyed by '
              'hash(file path as given) only)'),
    'impure': 'the same input gives numerically different output in this history than in a fresh process',
}


def corpus_sessions():
    out = []
    for f in sorted((fw.VERIF / 'corpus' / 'C08').glob('*.json')):
        d = json.loads(f.read_text())
        d['name'] = f.name
        out.append(d)
    return out


def _signatures(session, result):
    sigs, prev, moved, changed = [], None, False, set()
    caching = []
    for op, b in zip(session['ops'], result['obs']):
        o = b['out']
        if op[0] == 'newclient':
            caching.append(op[1])
        elif op[0] == 'chdir':
            moved = True
        elif op[0] in ('write', 'delete'):
            changed.add(op[1])
        elif op[0] == 'mc':
            for rec in o[1]:
                sigs.append(('mc-' + str(op[1]), (rec['out'][0], None), None, prev, moved, False))
            prev, moved = 'mc', False
        elif op[0] in ('get', 'getdict', 'getmix', 'cli', 'hip'):
            p = op[2] if op[0] != 'cli' else op[1]
            cache = caching[op[1]] if op[0] not in ('cli', 'hip') and op[1] < len(caching) else None
            out = (o[0], bool(o[2])) if o[0] == 'ret' else (o[0], o[1] if o[0] == 'raised' else None)
            sigs.append((op[0] + ('-rel' if p in S.REL else ''), out, cache, prev, moved, p in changed))
            prev, moved = out[0], False
            changed.discard(p)
    return sigs


def evaluate(ctx, part0, sessions, contents, refs, do_minimize=True, tag=None):
    """Run sessions on the real code, check them in Coq, file violations.  -> (worker results, lru_cache hit totals)"""
    for s in sessions:
        S.ensure_refs(refs, s)
    tag = tag or part0
    results = S.run_sessions(ctx, sessions, contents, tag)
    codes = S.check_sessions(ctx, tag, sessions, results, refs)
    failures, memo_hits = 0, {}
    for si, (s, r, cs) in enumerate(zip(sessions, results, codes)):
        part = s.get('part', part0)
        sigs = _signatures(s, r)
        ctx.count(part, evaluations=len(s['ops']), nontrivial_keys=sigs, length=len(s['ops']) // 10 * 10,
                  hashseed='0' if s['hashseed'] == '0' else ('1' if s['hashseed'] == '1' else 'other'),
                  outcome=dict(collections.Counter(f'{x[0]}:{x[1][0]}{":hit" if x[1][1] is True else ""}' for x in sigs)))
        for name, (hits, *_rest) in r['memo'].items():
            memo_hits[name] = memo_hits.get(name, 0) + hits
        found = [(i, 'impure', why) for i, why in S.impure_steps(s, r, refs)]
        # a Monte-Carlo work package as a whole must also leave cwd/argv alone (the steps above cover its client calls)
        found += [(i, 'restore', 'around the whole work package') for i, (op, b) in enumerate(zip(s['ops'], r['obs']))
                  if op[0] == 'mc' and (b['cb'], b['ab']) != (b['ca'], b['aa'])]
        unknown = {i for i, _c, why in found if why and 'no reference' in why}   # reported once, as impure
        found += [(i, c, None) for i, c in cs if c in PROPERTY_CODES and not (c == 'refine' and i in unknown)]
        seen = set()
        for i, code, why in sorted(found, key=lambda x: x[0]):
            key = S.violation_key(s, r, i, code)
            if key in seen:
                continue
            seen.add(key)
            known = fw.match_finding(fw.load_findings(), ctx.pid, key) is not None
            cut = dict(s, ops=s['ops'][:i + 1])
            if do_minimize and not known and failures < 2:
                try:
                    cut = S.minimize(ctx, cut, contents, lambda cands: _still(ctx, cands, contents, refs, key))
                except Exception as e:  # noqa  (the unminimised history is still a valid replay)
                    ctx.note(f'minimisation of {key} stopped: {e!r}'[:300])
            failures += 0 if known else 1
            obs = r['obs'][i]
            ctx.violate('property', key, f'{WHAT[code]}{" (" + why + ")" if why else ""}; history of {len(cut["ops"])} operations, '
                        f'failing operation {s["ops"][i]}', inp={'session': S.compact(cut, contents), 'from': s.get('name', f'{part}#{si}')},
                        expected='cwd/argv as before the call; result = reference result of the content in the file at request time',
                        observed={'cwd_after': obs['cwd_after'], 'argv_after': obs['argv_after'], 'outcome': obs['out'][:3]})
        ctx.count(part, sessions={'n': 1})
        model_bad = [(i, c) for i, c in cs if c in ('model', 'harness')]
        variant = S.matches_variant(ctx, f'{tag}_variant_{si}', s, r, refs) if model_bad else None
        if variant and variant.startswith('repaired'):   # proved sound in Coq: not a disagreement worth an alarm
            ctx.note(f'{part}#{si}: the implementation behaves like the {variant} variant of the model, not like the code the '
                     'model was written from')
            ctx.count(part, repaired_variant_sessions=1)
        elif model_bad:
            i = model_bad[0][0]
            ctx.violate('corr', f'model:{s["ops"][i][0]}:{r["obs"][i]["out"][0]}',
                        f'implementation and Model.Process (current client) disagree at operation {i} {s["ops"][i]} of session '
                        f'{s.get("name", si)}' + (f'; the implementation behaves like the clients of the PINNED tree ({variant})'
                                                   if variant else ''),
                        inp={'session': S.compact(dict(s, ops=s['ops'][:i + 1]), contents)}, observed=r['obs'][i])
    return results, memo_hits


def _still(ctx, cands, contents, refs, key):
    """Which candidate sessions still show a violation with this key (each executed in a fresh process)."""
    _still.n = getattr(_still, 'n', 0) + 1
    for s in cands:
        S.ensure_refs(refs, s)
    results = S.run_sessions(ctx, cands, contents, f'min{_still.n}')
    codes = S.check_sessions(ctx, f'min{_still.n}', cands, results, refs)
    out = []
    for s, r, cs in zip(cands, results, codes):
        found = [(i, 'impure') for i, _ in S.impure_steps(s, r, refs)] + [(i, c) for i, c in cs if c in PROPERTY_CODES]
        out.append(any(S.violation_key(s, r, i, c) == key for i, c in found))
    return out


def build_pool(ctx, n, with_mixes=True):
    """All input texts of the run and their fresh-process references, computed in ONE wave of worker processes."""
    texts, failing = S.content_pool(ctx, n)
    contents = texts + failing
    nbase = len(contents)
    # requests built from a base file + params, Monte-Carlo iteration inputs: over the two hand-written bases, one
    # generated configuration and one failing request
    mixes = S.combos(contents, [0, 1, 2, len(texts)]) if with_mixes else []
    contents.append(S.src_example_text())       # what a relative Examples/salton_sea.txt names in the source directory
    extra = {'src_content': len(contents) - 1, 'hip_ids': list(range(len(contents), len(contents) + len(S.HIP_TEXTS)))}
    contents += S.HIP_TEXTS
    extra['mcs'] = S.mc_combos(contents, [0, 1], extra['hip_ids'][:1])
    hipc = set(extra['hip_ids']) | {m[3] for m in extra['mcs'] if m[0] == 'h'}
    refs = S.References(ctx, contents)
    refs.ensure_pairs([('g', c) for c in range(len(contents)) if c not in hipc] + [(k, c) for c in sorted(hipc) for k in (1, 2)])
    seen, ok_ids, bad_ids = set(), [], []
    for c in range(nbase):
        r = refs.of(c)
        if r[0] == 'ret' and r[1] not in seen:
            seen.add(r[1])
            ok_ids.append(c)
        elif r[0] != 'ret':
            bad_ids.append(c)
    ctx.count('pool', evaluations=len(refs.ref), contents_ok=len(ok_ids), contents_failing=len(bad_ids), base_plus_params=len(mixes),
              monte_carlo_inputs=len(extra['mcs']), hip_ra_inputs=len(S.HIP_TEXTS),
              failing_kinds={refs.of(c)[2][:60]: 1 for c in bad_ids})
    return contents, refs, ok_ids, bad_ids, mixes, extra


def memo_ties(ctx, entries, memo_hits):
    rnd = ctx.rng
    # (1) Model.Memo against functools.lru_cache on random key sequences
    terms, n = [], ctx.n(150, 1500)
    for _ in range(n):
        m = rnd.choice([None, 0, 1, 2, 3, 5])
        xs = [rnd.randrange(rnd.choice([2, 4, 7])) for _ in range(rnd.randint(0, 25))]
        f = functools.lru_cache(maxsize=m)(lambda k: k)
        hits = []
        for x in xs:
            before = f.cache_info().hits
            f(x)
            hits.append(f.cache_info().hits > before)
        ms = 'None' if m is None else f'(Some {m})'
        terms.append(f'bools_eqb (lru_hits {ms} [{"; ".join(map(str, xs))}]) [{"; ".join("true" if h else "false" for h in hits)}]')
    for i in fw.kernel_bools(ctx, 'lru', ['Model.Memo'], terms, open_scope='nat_scope')[:3]:
        ctx.violate('corr', 'memo:lru-model', f'Model.Memo.lru_hits differs from functools.lru_cache: {terms[i]}', inp={'term': terms[i]})
    ctx.count('lru_cache-model', evaluations=n)
    # (2) identity-keyed tables never hit (their keys are live objects)
    for name, kind, _mx, _params in entries:
        if kind.startswith('(IdentityKeyed') and memo_hits.get(name, 0):
            ctx.violate('corr', f'memo:identity-hit:{name}', f'{name}: {memo_hits[name]} cache hits across the executed histories; '
                        'the model (C08_identity_memo_never_hits) says a new object never hits', inp={'name': name})
    # (3) value-keyed functions: the decorated function returns what the undecorated one returns, equal keys included
    import importlib
    import logging
    logging.disable(logging.CRITICAL)
    import geophires_x.Model  # noqa: F401
    from geophires_x.GeoPHIRESUtils import quantity
    nv = 0
    for name, kind, _mx, params in entries:
        if kind != 'ValueKeyed':
            continue
        mod, fn = name.split(':')
        f = getattr(importlib.import_module(mod), fn)
        for _ in range(ctx.n(20, 200)):
            args = []
            for p in params:
                if p == 'PFloat':
                    args.append(rnd.choice([float(rnd.randint(5, 370)), rnd.randint(5, 370), round(rnd.uniform(1, 372), 3)]))
                elif p == 'PQuantityOpt':
                    args.append(rnd.choice([None, quantity(float(rnd.randint(1, 80)), 'MPa'), quantity(rnd.randint(100, 9000) * 10.0, 'kPa')]))
                else:
                    args = None
                    break
            if args is None:
                break

            def call(g, a):
                try:
                    return ('V', repr(g(*a)))
                except Exception as e:  # noqa
                    return ('E', type(e).__name__)
            got = [call(f, args), call(f.__wrapped__, args), call(f, args),
                   call(f.__wrapped__, [float(a) if isinstance(a, int) else a for a in args])]
            nv += 1
            if len(set(got)) != 1:
                ctx.violate('corr', f'memo:not-a-function:{name}', f'{name}{tuple(map(str, args))}: memoised / plain / repeated / '
                            f'float-key calls differ: {got}', inp={'name': name, 'args': [str(a) for a in args]})
                break
    ctx.count('memo-functions', evaluations=nv, nontrivial_keys=[e[0] for e in entries])


def alias_ties(ctx, texts):
    """Tie of Gen/C08StateTable to the live objects: two Models built in this process must not share a mutable
    parameter value / default (what C08_param_defaults_fresh states of the source)."""
    import logging
    import sys
    import numpy as np
    logging.disable(logging.CRITICAL)
    import geophires_x.Model as M
    n = 0
    for k, text in enumerate(texts):
        f = ctx.scratch / f'alias_{k}.txt'
        f.write_text(text)
        stash = sys.argv
        sys.argv = ['', str(f), str(ctx.scratch / f'alias_{k}.out')]
        try:
            m1, m2 = (M.Model(enable_geophires_logging_config=False) for _ in range(2))
        finally:
            sys.argv = stash
        for comp in ('reserv', 'wellbores', 'surfaceplant', 'economics', 'outputs', 'addeconomics', 'sdacgteconomics'):
            o1, o2 = getattr(m1, comp, None), getattr(m2, comp, None)
            if o1 is None or o2 is None:
                continue
            for attr, p1 in vars(o1).items():
                p2 = vars(o2).get(attr)
                for field in ('value', 'DefaultValue'):
                    v1, v2 = getattr(p1, field, None), getattr(p2, field, None)
                    if isinstance(v1, (list, dict, set, np.ndarray)):
                        n += 1
                        if v1 is v2:
                            ctx.violate('corr', f'state:shared-parameter-object:{comp}.{attr}.{field}',
                                        f'{type(o1).__name__}.{attr}.{field} is the SAME {type(v1).__name__} object in two Model '
                                        'instances of one process: what one run writes into it is the next run\'s default '
                                        '(C08_param_defaults_fresh says no default is shared)', inp={'attr': f'{comp}.{attr}.{field}'})
    ctx.count('parameter-objects', evaluations=n)


def correspondence(ctx, proofs_ok=True):
    import time
    t0, marks = time.time(), []
    entries = c08_memo.scan()
    contents, refs, ok_ids, bad_ids, mixes, extra = build_pool(ctx, 10 if ctx.quick else 36)
    marks.append(('pool', round(time.time() - t0)))
    memo_hits = {}
    sessions = []
    for d in corpus_sessions():   # corpus sessions carry their own contents: give them ids after the pool
        base = len(contents)
        contents += d['contents']
        if d.get('src_content') == '@src':   # the source tree's own file behind the relative name, as it is NOW
            contents.append(S.src_example_text())
            d['src_content'] = len(contents) - 1 - base
        sessions.append(dict(S.remap_session(d, lambda c, base=base: c + base), part='corpus'))
    rnd = ctx.rng
    seeds = ['0', '1'] + [str(rnd.randrange(2, 2 ** 32)) for _ in range(ctx.n(2, 6))]
    boost = ctx.quick and getattr(ctx, 'boost', False)   # modelled source changed: twice the quick volume (x4 would exceed the quick budget)
    n = 96 if boost else (48 if ctx.quick else 600)
    lo, hi = (12, 40) if ctx.quick else (20, 60)   # not through ctx.n: it scales numbers
    sessions += [S.gen_session(rnd, ok_ids, bad_ids, rnd.randint(lo, hi), seeds, mixes, **extra) for _ in range(n)]
    # hash-seed sweep: single requests in fresh processes under further hash seeds, for the inputs whose outcome hinges
    # on an iteration order (both forms of a parameter given) and two of the inputs that leave most parameters to defaults
    both = [contents.index(runner.params_to_text(p)) for p in S.BOTH_FORMS]
    sweep_seeds = [str(rnd.randrange(2, 2 ** 32)) for _ in range(6 if ctx.quick else 24)]
    sessions += [{'ndirs': S.NDIRS, 'npaths': 1, 'cwd': 0, 'argv': ['u0'], 'hashseed': sd, 'part': 'hashseed-sweep',
                  'ops': [['newclient', False], ['write', 0, c], ['get', 0, 0]]}
                 for c in both + [x for x in ok_ids if x not in both][-2:] for sd in sweep_seeds[:len(sweep_seeds) if c in both else 2]]
    batch = 240
    for lo in range(0, len(sessions), batch):
        _, mh = evaluate(ctx, 'histories', sessions[lo:lo + batch], contents, refs, tag=f'h{lo // batch}')
        for k, v in mh.items():
            memo_hits[k] = memo_hits.get(k, 0) + v
    marks.append(('histories', round(time.time() - t0)))
    memo_ties(ctx, entries, memo_hits)
    alias_ties(ctx, [contents[ok_ids[0]], contents[ok_ids[2]]])
    ctx.note(f'wall clock (s since start of the correspondence): {marks + [("memo/alias ties", round(time.time() - t0))]}')
    ctx.sample('histories', {'ops': sessions[-1]['ops'][:12], 'hashseed': sessions[-1]['hashseed']})
    ctx.note('memo tables seen by the histories (total hits): ' + json.dumps({k: v for k, v in sorted(memo_hits.items()) if v}))


def search(ctx):
    """Only model/proof disagreements so far: look for a history on which the PROPERTY fails on the real code."""
    contents, refs, ok_ids, bad_ids, mixes, extra = build_pool(ctx, 10)
    rnd = ctx.rng
    sessions = [S.gen_session(rnd, ok_ids, bad_ids, rnd.randint(15, 50), ['0', '1', str(rnd.randrange(2, 2 ** 32))], mixes, **extra)
                for _ in range(ctx.n(96, 480))]
    evaluate(ctx, 'search', sessions, contents, refs)


def replay(ctx, data):
    s = data['input']['session']
    contents = s['contents']
    refs = S.References(ctx, contents)
    S.ensure_refs(refs, s)
    r = S.run_sessions(ctx, [s], contents, 'replay')[0]
    codes = S.check_sessions(ctx, 'replay', [s], [r], refs)[0]
    impure = S.impure_steps(s, r, refs)
    d2c = refs.content_of_digest(S.geo_contents(s))
    print(f'session: cwd=d{s["cwd"]} argv={s["argv"]} PYTHONHASHSEED={s["hashseed"]}; contents that run in a fresh process: '
          f'{refs.okc(S.geo_contents(s))}; relative names: {S.REL}')
    for i, (op, b) in enumerate(zip(s['ops'], r['obs'])):
        o = b['out']
        shown = ' '.join(map(str, o[:2]))
        if o[0] == 'ret':
            shown = 'HIP-RA result ' + o[1][:8] if op[0] == 'hip' else f'result of content {d2c.get(o[1], "?")}{" (cache hit)" if o[2] else ""}'
        flags = [c for j, c in codes if j == i] + ['impure' for j, _ in impure if j == i]
        print(f'  {i:2d} {str(op):38s} -> {shown:34s} cwd={b["cwd_after"]} argv={b["argv_after"]}  '
              f'{"<-- " + ",".join(flags) if flags else ""}')
    bad = [(i, c) for i, c in codes if c in PROPERTY_CODES] + [(i, 'impure') for i, _ in impure]
    model_bad = [(i, c) for i, c in codes if c not in PROPERTY_CODES]
    print('model (current client) agrees with the implementation on every step:', not model_bad)
    for i, c in bad:
        print(f'property VIOLATED at operation {i}: {WHAT[c]} [key {S.violation_key(s, r, i, c)}]')
    if not bad:
        print('property holds on this history')
    return 1 if bad or model_bad else 0
