"""C01 - levelized cost equals its documented definition."""
from fractions import Fraction as F
from types import SimpleNamespace as NS

from lib import configs, econ, framework as fw, qconv, runner

TOL = F(1, 10 ** 9)
REQ = ['Model.Lcoe']

META = {
    'props': 'Props/C01.v',
    'claimed': True,
    'level_text': (
        'Proof: the Coq transcription of CalculateLCOELCOHLCOC (numpy discount/inflation vectors over linspace, scalar-vector '
        'broadcasting, np.sum/np.average, the cogeneration split by the CHP cost-allocation ratio, the 1e8 / 1e2 / 2.931 unit '
        'factors, branch selection on economic model x end-use x plant type) is proved equal, for every lifetime n >= 1 and all '
        'series of length n, to the documented closed forms: FCR (FCR(1+i)C+O+X)/mean(E); standard ((1+i)C + Sum_{t<n}(O+X_t)/(1+d)^t) '
        '/ Sum_{t<n} E_t/(1+d)^t; BICYCLE with i_ave, CRF and the present-value terms over t=1..n; and the documented branch table '
        'is proved for all (model, end-use, plant) cells (list induction + field, axiom-free). The model is tied to the current '
        'code two ways on every run: the real function is executed on stub objects for every end-use x plant-type cell x 3 models x '
        'several lifetimes with year-varying series, and whole runs (hook snapshots) report LCOE/LCOH/LCOC that the Coq model '
        'recomputes from the run\'s own reported CCap, Coam, rates and energy series; both compared inside the kernel at 1e-9.'),
    'level_note': (
        'Trusted: Coq kernel + vm_compute; Python harness (stubs, snapshot observer, float->rational conversion at 15 significant '
        'digits); IEEE rounding is covered only by the 1e-9 comparison. AGS/CLGS and SUTRA economics (own formulas, data not '
        'available offline) and the S-DAC-GT LCOD are not covered. The documents are silent on charging pumping cost to '
        'cogeneration heat (FCR/standard yes, BICYCLE no): the specification records the pinned table.'),
    'rule': ('stub cases: all 8 end-uses x 9 plant types x economic models {1,2,3,4} x lifetimes {1,2,3,7,30[,100]} with random '
             'non-neutral short-decimal rates and year-varying energy series; whole runs: every (model, end-use, plant) cell of the '
             'configuration generator + random configurations + runnable examples. Non-trivial: lifetime >= 2, non-constant energy '
             'series and all rates non-zero; distinct = distinct (model, end-use, plant, lifetime) signatures per part'),
    'trusted_base': ['Coq 8.16.1 kernel + vm_compute (no native_compute)',
                     'all C01 theorems: Closed under the global context (no axioms)',
                     'hand-written model coq/Model/Lcoe.v tied to Economics.CalculateLCOELCOHLCOC by kernel-evaluated correspondence '
                     '(stub calls of the real function + hook snapshots of whole runs; tools/props/C01.py: unverified Python)'],
    'modelled': ['Economics.CalculateLCOELCOHLCOC (all branches)', 'numpy linspace/power/sum/average/broadcast semantics'],
    'assumptions': ['IEEE rounding of the implementation is not modelled (rational model, 1e-9 relative comparison)'],
    'fingerprint': [('src/geophires_x/Economics.py', 'CalculateLCOELCOHLCOC')],
}

FIELDS = ['ccap', 'coam', 'ratio', 'fcr', 'inflc', 'disc', 'fib', 'bir', 'ctr', 'eir', 'rinfl', 'ptr', 'gtr', 'ritc']
SERIES = ['net', 'heat', 'cool', 'pump', 'hp']


def record(d, conv=econ.q15):
    ql = lambda xs: '[' + '; '.join(conv(x) for x in xs) + ']'
    parts = [f'l_econ := {qconv.zlit(d["econ"])}; l_enduse := {qconv.zlit(d["enduse"])}; l_plant := {qconv.zlit(d["plant"])}']
    # the CHP allocation ratio enters through 1 - ratio (cancellation when the heat share is tiny): always exact
    parts += [f'l_{k} := {qconv.q(qconv.F(d[k])) if k == "ratio" else conv(d[k])}' for k in FIELDS]
    parts.append(f'l_life := {int(d["life"])}%nat')
    parts += [f'l_{k} := {ql(d[k])}' for k in SERIES]
    parts += [f'l_elec_buy := {conv(d["elec_buy"])}; l_avg_pump := {conv(d["avg_pump"])}; l_avg_hp := {conv(d["avg_hp"])}; '
              f'l_avg_ng := {conv(d["avg_ng"])}; l_ng := {ql(d["ng"])}; l_demand := {conv(d["demand"])}']
    return '{| ' + ';\n  '.join(parts) + ' |}'


def term(d, out, conv=econ.q15):
    return f'lcoe_agree {qconv.q(TOL)} {record(d, conv)} {conv(out[0])} {conv(out[1])} {conv(out[2])}'


# ------------------------------------------------------------------------------------------------ stub calls

def _impl():
    import geophires_x.Model  # noqa: F401
    from geophires_x import Economics
    from geophires_x.OptionList import EconomicModel, EndUseOptions, PlantType
    return Economics, EconomicModel, EndUseOptions, PlantType


def stub_case(impl, d):
    import numpy as np
    Economics, EconomicModel, EndUseOptions, PlantType = impl
    V = lambda v: NS(value=v)
    fl = float
    arr = lambda xs: np.array([fl(x) for x in xs])
    e = NS(CCap=V(fl(d['ccap'])), Coam=V(fl(d['coam'])), CAPEX_heat_electricity_plant_ratio=V(fl(d['ratio'])),
           econmodel=V(EconomicModel.from_int(d['econ'])), FCR=V(fl(d['fcr'])), inflrateconstruction=V(fl(d['inflc'])),
           discountrate=V(fl(d['disc'])), FIB=V(fl(d['fib'])), BIR=V(fl(d['bir'])), CTR=V(fl(d['ctr'])), EIR=V(fl(d['eir'])),
           RINFL=V(fl(d['rinfl'])), PTR=V(fl(d['ptr'])), GTR=V(fl(d['gtr'])), RITC=V(fl(d['ritc'])),
           averageannualpumpingcosts=V(fl(d['avg_pump'])), averageannualheatpumpelectricitycost=V(fl(d['avg_hp'])),
           averageannualngcost=V(fl(d['avg_ng'])), annualngcost=V(arr(d['ng'])))
    sp = NS(enduse_option=V(EndUseOptions.from_int(d['enduse'])), plant_type=V(PlantType.from_int(d['plant'])),
            plant_lifetime=V(int(d['life'])), NetkWhProduced=V(arr(d['net'])), HeatkWhProduced=V(arr(d['heat'])),
            cooling_kWh_Produced=V(arr(d['cool'])), PumpingkWh=V(arr(d['pump'])), heat_pump_electricity_kwh_used=V(arr(d['hp'])),
            electricity_cost_to_buy=V(fl(d['elec_buy'])), annual_heating_demand=V(fl(d['demand'])))
    out = Economics.CalculateLCOELCOHLCOC(e, NS(surfaceplant=sp))
    return [float(x) for x in out]


def random_inputs(rnd, econm, enduse, plant, life):
    dec = lambda lo, hi, k: F(rnd.randint(int(lo * 10 ** k), int(hi * 10 ** k)), 10 ** k)
    ser = lambda lo, hi: [F(rnd.randint(lo, hi)) for _ in range(life)]
    return dict(econ=econm, enduse=enduse, plant=plant, life=life,
                ccap=dec(10, 300, 2), coam=dec(0.5, 12, 2), ratio=dec(0.15, 0.85, 2), fcr=dec(0.03, 0.15, 3),
                inflc=dec(0.005, 0.09, 3), disc=dec(0.02, 0.13, 3), fib=dec(0.2, 0.8, 2), bir=dec(0.02, 0.09, 3),
                ctr=dec(0.1, 0.45, 2), eir=dec(0.05, 0.16, 3), rinfl=dec(0.005, 0.05, 3), ptr=dec(0.001, 0.03, 3),
                gtr=dec(0.01, 0.1, 2), ritc=dec(0.05, 0.4, 2),
                net=ser(10 ** 7, 9 * 10 ** 8), heat=ser(10 ** 7, 9 * 10 ** 8), cool=ser(10 ** 7, 9 * 10 ** 8),
                pump=ser(10 ** 5, 9 * 10 ** 6), hp=ser(10 ** 6, 9 * 10 ** 7), elec_buy=dec(0.03, 0.2, 3),
                avg_pump=dec(0.05, 2, 3), avg_hp=dec(0.05, 2, 3), avg_ng=dec(0.05, 2, 3),
                ng=[dec(0.05, 2, 3) for _ in range(life)], demand=dec(20, 400, 1))


def stub_part(ctx):
    impl = _impl()
    rnd = ctx.rng
    lives = [1, 2, 3, 7, 30] if ctx.quick else [1, 2, 3, 4, 7, 12, 30, 60, 100]
    terms, descs = [], []
    reps = ctx.n(1, 2)
    for econm in (1, 2, 3, 4):
        for enduse in configs.ENDUSES:
            for plant in range(1, 10):
                for life in (lives if econm != 4 else lives[1:3]):
                    for _ in range(reps):
                        if ctx.quick and life == 30 and rnd.random() < (0.6 if econm in (1, 2) else 0.9):
                            continue   # long BICYCLE sums cost 2 s each in the kernel: sampled in the quick tier
                        if life == 100 and econm >= 3 and rnd.random() < 0.9:
                            continue
                        d = random_inputs(rnd, econm, enduse, plant, life)
                        out = stub_case(impl, d)
                        if not econ.finite(out):
                            continue
                        terms.append(term(d, [qconv.sig15(x) for x in out], conv=qconv.q))
                        descs.append({k: (str(v) if isinstance(v, F) else ([str(x) for x in v] if isinstance(v, list) else v))
                                      for k, v in d.items()} | {'impl': out})
    failing = fw.kernel_bools(ctx, 'lcoe_stub', REQ, terms, shard=30)
    ctx.count('stub-calls', evaluations=len(terms),
              nontrivial_keys=[(d['econ'], d['enduse'], d['plant'], d['life']) for d in descs if d['life'] >= 2])
    ctx.sample('stub-calls', {k: descs[0][k] for k in ('econ', 'enduse', 'plant', 'life', 'ccap', 'coam', 'net', 'impl')})
    for i in failing[:6]:
        d = descs[i]
        ctx.violate('property', f'lcoe-stub:econ={d["econ"]},enduse={d["enduse"]},plant={d["plant"]}',
                    f'CalculateLCOELCOHLCOC differs from the documented formula (econ {d["econ"]}, end-use {d["enduse"]}, plant '
                    f'{d["plant"]}, lifetime {d["life"]}): implementation returns {d["impl"]}',
                    inp={'stub': d}, observed=d['impl'], expected='value of Coq model Lcoe.lcoe_code (see replay)')
    if len(failing) > 6:
        ctx.note(f'stub part: {len(failing)} disagreeing cases, first 6 reported')


# ------------------------------------------------------------------------------------------------ whole runs

def run_dict(R, comp='economics'):
    s = R.s
    g = lambda name, dflt=0.0: s.v(comp, name, dflt)
    life = R.life
    pad = lambda l: (list(l) if isinstance(l, list) else []) or [0.0] * life
    ng = g('annualngcost', [])
    return dict(econ=R.econ, enduse=R.enduse, plant=R.plant, life=life, ccap=g('CCap'), coam=g('Coam'),
                ratio=g('CAPEX_heat_electricity_plant_ratio'), fcr=g('FCR'), inflc=g('inflrateconstruction'), disc=g('discountrate'),
                fib=g('FIB'), bir=g('BIR'), ctr=g('CTR'), eir=g('EIR'), rinfl=g('RINFL'), ptr=g('PTR'), gtr=g('GTR'), ritc=g('RITC'),
                net=pad(R.series('surfaceplant', 'NetkWhProduced')), heat=pad(R.series('surfaceplant', 'HeatkWhProduced')),
                cool=pad(R.series('surfaceplant', 'cooling_kWh_Produced')), pump=pad(R.series('surfaceplant', 'PumpingkWh')),
                hp=pad(R.series('surfaceplant', 'heat_pump_electricity_kwh_used')),
                elec_buy=R.sp('electricity_cost_to_buy'), avg_pump=g('averageannualpumpingcosts'),
                avg_hp=g('averageannualheatpumpelectricitycost'), avg_ng=g('averageannualngcost'),
                ng=pad(ng if isinstance(ng, list) else []), demand=R.s.v('surfaceplant', 'annual_heating_demand', 0.0))


def gen_inputs(ctx):
    rnd = ctx.rng
    cfgs = configs.grid(ctx, ctx.n(40, 500), resmodels=(3, 4) if ctx.quick else (1, 2, 3, 4))
    texts = [('synthetic', runner.params_to_text(c)) for c in cfgs]
    texts += [('example:' + n, t) for n, t in configs.example_texts(slow=not ctx.quick)]
    if ctx.quick:   # one district-heating run with peaking fuel demand (4 s)
        texts.append(('example:example12_DH.txt', (fw.REPO / 'tests' / 'examples' / 'example12_DH.txt').read_text()))
    return texts


def run_part(ctx, texts):
    results = runner.run_many(ctx, [t for _, t in texts])
    terms, owners = [], []
    for (origin, text), r in zip(texts, results):
        if not r['ok'] or r['snap'] is None:
            ctx.count('whole-runs', rejected={(r['error'] or 'no snapshot')[:60]: 1})
            continue
        R = econ.Run(r['snap'])
        if R.cls not in ('Economics', 'SBTEconomics') or R.sdac:
            continue
        d = run_dict(R)
        out = [R.e('LCOE'), R.e('LCOH'), R.e('LCOC')]
        flat = [d[k] for k in FIELDS] + d['net'] + d['heat'] + d['cool'] + d['pump'] + d['hp'] + d['ng'] + out
        if not econ.finite(flat):
            ctx.count('whole-runs', rejected={'non-finite levelized cost (degenerate plant)': 1})
            continue
        terms.append(term(d, out))
        if R.plant == 7 and R.enduse == 2 and any(d['ng']):
            # the "other annual cost" of district heating is reported twice: as a yearly series and as its average
            avg_series = sum(d['ng']) / len(d['ng'])
            ctx.count('dh-peaking-fuel', evaluations=1, nontrivial_keys=[('dh-ng', R.econ)])
            if abs(avg_series - d['avg_ng']) > 1e-9 * max(abs(avg_series), abs(d['avg_ng'])):
                ctx.violate('property', 'dh-peaking-fuel:average-vs-series',
                            f'district heating: reported Average Annual Peaking Fuel Cost {d["avg_ng"]} (used by the FCR levelized cost) is '
                            f'not the average {avg_series} of the reported annual peaking fuel cost series (used by the standard and '
                            f'BICYCLE levelized costs)', inp={'input_text': text}, observed=d['avg_ng'], expected=avg_series)
        varying = len(set(d['net'])) > 1 or len(set(d['heat'])) > 1
        owners.append((origin, text, R, out, (R.econ, R.enduse, R.plant, R.life, R.addons) if (R.life >= 2 and varying) else None))
        ctx.count('whole-runs', econ=R.econ, enduse=R.enduse, plant=R.plant, life=R.life, addons=R.addons, cls=R.cls)
        ctx.sample('whole-runs', {'origin': origin, 'econ': R.econ, 'enduse': R.enduse, 'plant': R.plant, 'life': R.life,
                                  'CCap': d['ccap'], 'Coam': d['coam'], 'LCOE/LCOH/LCOC': out})
    failing = fw.kernel_bools(ctx, 'lcoe_runs', REQ, terms, shard=12)
    ctx.count('whole-runs', evaluations=len(terms), nontrivial_keys=[o[4] for o in owners if o[4] is not None])
    for i in failing[:6]:
        origin, text, R, out, _ = owners[i]
        ctx.violate('property', f'lcoe-run:econ={R.econ},enduse={R.enduse},plant={R.plant}',
                    f'reported LCOE/LCOH/LCOC {out} differ from the documented formula applied to the run\'s own CCap, Coam and '
                    f'energy series (econ {R.econ}, end-use {R.enduse}, plant {R.plant}, lifetime {R.life}, origin {origin})',
                    inp={'input_text': text}, observed=out, expected='value of Coq model Lcoe.lcoe_code (see replay)')
    return failing


def correspondence(ctx, proofs_ok=True):
    try:
        stub_part(ctx)
    except Exception as e:   # the function no longer runs on stub objects (new attribute, new signature): the tie by stubs is broken;
        # the whole-run part below still decides the property on concrete inputs
        ctx.violate('corr', f'lcoe-stub:harness:{type(e).__name__}',
                    f'CalculateLCOELCOHLCOC can no longer be executed on stub objects: {e!r}')
    run_part(ctx, gen_inputs(ctx))


def replay(ctx, data):
    inp = data['input']
    if 'input_text' in inp:
        run_part(ctx, [('replay', inp['input_text'])])
    else:
        d = inp['stub']
        conv = lambda v: F(v) if isinstance(v, str) else ([F(x) for x in v] if isinstance(v, list) else v)
        d2 = {k: conv(v) for k, v in d.items() if k != 'impl'}
        out = stub_case(_impl(), d2)
        bad = fw.kernel_bools(ctx, 'replay', REQ, [term(d2, [qconv.sig15(x) for x in out], conv=qconv.q)])
        print('implementation:', out, '-> model agrees:', not bad)
        if bad:
            ctx.violate('property', 'replay', 'stub case still disagrees')
    for v in ctx.violations:
        print(v.kind, v.key, v.what[:300])
    print('property', 'VIOLATED' if ctx.violations else 'holds', 'on this input')
    return 1 if ctx.violations else 0
