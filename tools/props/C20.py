"""C20 - all entry points give the same answer."""
import argparse
import json
import logging
import os
import re
import subprocess
import sys
import uuid
from concurrent.futures import ProcessPoolExecutor, ThreadPoolExecutor
from pathlib import Path

from lib import cli_stub, configs, framework as fw, qconv, runner

META = {
    'props': 'Props/C20.v',
    'claimed': True,
    'level_text': ('Proof about a model of the path handling of geophires_x/__main__.py, GEOPHIRESv3.main (after fix 4b78654), '
                   'Model.__init__, GeophiresXClient and the pathlib operations they use, with the simulation an arbitrary function: 25 '
                   'axiom-free Coq theorems - for every starting directory, installation directory, input and output argument the command '
                   'line writes the report to Path(out).absolute() of the starting directory and the JSON next to it as stem.json (the '
                   'chdir into the package does not leak), relative and absolute forms name the same files, the default is HDR.out/HDR.json '
                   'in the starting directory, the client looks for the JSON where main wrote it, and command line, client and direct '
                   'pipeline give the same status/files/report for every absolute output path and every outcome of the simulation (success, '
                   'exception, bare sys.exit()), and any failure gives a non-zero status and no report (command line after fix 3ff4cc0; the '
                   'pre-fix command line is kept as cli_pinned with C20_exit_pinned_refuted / C20_entry_points_agree_pinned_refuted, witness '
                   'in corpus/C20). The pre-fix JSON derivation (str.replace) is kept as json_path_pinned with '
                   'its refutation a.out/a.out. The direct pipeline with a relative / missing output argument is described by '
                   'C20_direct_pipeline_paths (files relative to the package directory; tied with the chdir target substituted). HIP-RA-X '
                   '(hip_ra_x.main, HipRaXClient): absolute paths - script and client agree (C20_hip_entry_points_agree); relative paths are '
                   'resolved against the package directory (C20_hip_script_paths, requested-path clause REFUTED: known finding); exit status '
                   'PARTIAL (C20_hip_exit_partial) and REFUTED when the report cannot be written (known finding). Report CONTENT equality between entry points is tied (subprocess CLI vs client vs direct '
                   'vs Monte-Carlo work_package on the same inputs), not proved.'),
    'level_note': ('Trusted: Coq kernel + vm_compute; the Python harness; pathlib/os are modelled (POSIX, no symbolic links, no drive). '
                   'The command line is run through tools/lib/cli_wrapper.py, identical to python -m geophires_x except that the log-file '
                   'configuration is disabled (it would write inside the repository).'),
    'technique': 'Coq proof about an executable Gallina model + kernel-evaluated correspondence with the implementation',
    'rule': ('(a) the current __main__.py executed with main() stubbed on random (starting directory, input, output) arguments incl. '
             "'..', '.', '//', trailing '/', dotted names: argv seen by main vs model, exit status vs stub outcome; (b) the json_outputfile "
             'statements compiled from the current GEOPHIRESv3.main on random output arguments vs model; (c) real command-line processes: '
             'inputs (examples, synthetic, failing by exception, aborting by sys.exit, missing input file) x output argument shapes x '
             'starting directories: exit status and set of created files vs model, report/JSON vs the direct pipeline; (d) client from '
             'file / from params and Monte-Carlo work_package vs direct pipeline. Non-trivial = output argument that is not a plain file '
             'name in the starting directory; distinct = distinct (input, argument shape, directory)'),
    'trusted_base': ['Coq 8.16.1 kernel + vm_compute (no native_compute)',
                     'all C20 theorems: Closed under the global context (no axioms)',
                     'hand-written model coq/Model/CliPaths.v tied to __main__.py / GEOPHIRESv3.main / GeophiresXClient by exact calls of '
                     'the current source and by observed subprocess behaviour, compared in the kernel',
                     'tools/lib/cli_wrapper.py, tools/lib/cli_stub.py (unverified Python)'],
    'modelled': ['hip_ra_x.hip_ra_x.main (chdir, argv, swallowed exceptions)', 'HipRaXClient.get_hip_ra_result', 'geophires_x/__main__.py', 'GEOPHIRESv3.main (paths, chdir)', 'Model.__init__ (output_file)',
                 'GeophiresXClient.get_geophires_result (argv, SystemExit)', 'GeophiresXResult.json_output_file_path',
                 'pathlib.PurePosixPath parsing / str / absolute / name / stem / with_name / with_suffix', 'POSIX resolution of ..'],
    'assumptions': ['POSIX paths without symbolic links; Windows drive semantics out of scope',
                    'file creation and process exit status are observed, not modelled beyond CliPaths.v',
                    'equality of report content across entry points is sampled, not proved'],
    'fingerprint': [('src/hip_ra_x/hip_ra_x.py', 'main'), ('src/hip_ra_x/__init__.py', 'HipRaXClient.get_hip_ra_result'), ('src/geophires_x/GEOPHIRESv3.py', 'main'), ('src/geophires_x_client/__init__.py', 'GeophiresXClient.get_geophires_result'),
                    ('src/geophires_x/Model.py', 'Model.__init__')],
}

MASK = re.compile(r'^\s*(Simulation Date|Simulation Time|Calculation Time|GEOPHIRES Version):.*$', re.M)
COMPS = ['a.out', 'sub', '..', '.', '', 'x.y.z', 'noext', '.hid', 'HDR.out', 'trail.', 'r.out', 'a.out', 'd1']
BASE = 'Reservoir Model, 4\nReservoir Depth, 3\nGradient 1, 50\nPrint Output to Console, 0\n'
SPECIAL = {   # name -> (input text | None for a missing file, sim code 0 ok / 1 exception / 2 bare sys.exit)
    'fails-bad-value': (BASE + 'End-Use Option, 2\nPlant Lifetime, abc\n', 1),
    'fails-in-calculate': (BASE + 'End-Use Option, 2\nPower Plant Type, 8\n', 1),
    'aborts-sys-exit': (json.loads(Path(fw.VERIF, 'corpus', 'C20', '03_bare_sys_exit.json').read_text())['text'], 2),
    'missing-input-file': (None, 1),
    # fails LATE, in the output stage (Outputs._convert_units: currency conversion is disabled), after Calculate() succeeded
    'fails-in-output-stage': (BASE + 'End-Use Option, 2\nUnits:Exploration cost, MEUR\n', 1),
}


def pkg():
    return str(fw.SRC / 'geophires_x')


def sopt(x):
    return 'None' if x is None else f'(Some {qconv.coq_bytes(x)})'


def slist(xs):
    return '[' + '; '.join(qconv.coq_bytes(x) for x in xs) + ']'


def masked(text):
    return None if text is None else MASK.sub('', text)


def rand_rel(rnd, n=4):
    return '/'.join(rnd.choice(COMPS) for _ in range(rnd.randint(1, n))) + rnd.choice(['', '', '', '/'])


def rand_arg(rnd, absdir):
    r = rnd.random()
    rel = rand_rel(rnd)
    if r < 0.55:
        return rel
    if r < 0.75:
        return absdir + '/' + rel
    return rnd.choice(['/', '//', '///', '/tmp//']) + rel


def shape(out):
    if out is None:
        return 'default'
    p = Path(out)
    if p.name and p.name in [x for x in p.parts[:-1]]:
        return 'directory-carries-file-name'
    return ('absolute' if out.startswith('/') else 'relative') + ('-dotdot' if '..' in p.parts else '')


def in_child(fn, *args):
    with ProcessPoolExecutor(max_workers=1) as ex:
        return ex.submit(fn, *args).result()


# ------------------------------------------------------------------------------------------ (a) __main__ with stubbed main
def part_argv(ctx, n):
    rnd = ctx.rng
    root = Path(ctx.scratch, 'argv')
    dirs = [root / 'w' / 'd1', root / 'w' / 'd1' / 'sub', root / 'w']
    for d in dirs:
        d.mkdir(parents=True, exist_ok=True)
    cases = []
    for i in range(n):
        cwd = str(rnd.choice(dirs))
        inp = rand_arg(rnd, str(root))
        out = None if rnd.random() < 0.15 else rand_arg(rnd, str(root / 'w' / 'other'))
        cases.append((cwd, [inp] + ([out] if out is not None else []), rnd.choice([0, 0, 0, 0, 0, 1, 1, 2])))
    cases += [(str(dirs[0]), ['in.txt', 'a.out/a.out'], 0), (str(dirs[0]), ['in.txt', 'r.out'], 2), (str(dirs[1]), ['../in.txt'], 2)]
    res = in_child(cli_stub.stub_main_cases, str(fw.SRC), cases)
    terms = []
    for (cwd, args, fail), (seen, code, cwd_seen) in zip(cases, res):
        out = args[1] if len(args) > 1 else None
        terms.append(f'argv_check {qconv.coq_bytes(cwd)} {qconv.coq_bytes(args[0])} {sopt(out)} {slist(seen or [])}')
        want = os.path.normpath(os.path.join(cwd, out if out is not None else 'HDR.out'))
        ctx.count('main-argv', evaluations=1, nontrivial_keys=[(cwd[-3:], shape(out), out)] if out and '/' in out else [],
                  shapes={shape(out): 1})
        if seen is None or len(seen) != 3 or os.path.normpath(seen[2]) != want or not os.path.isabs(seen[2]) or cwd_seen != cwd:
            ctx.violate('property', f'cli-path:{shape(out)}', '__main__.py hands main() an output path that is not the requested one',
                        inp={'part': 'argv', 'cwd': cwd, 'args': args, 'fail': fail}, expected=want, observed={'argv': seen, 'cwd': cwd_seen})
        if (code != 0) != bool(fail):
            ctx.violate('property', 'cli-exit-status:' + ('bare-sys-exit' if fail == 2 else 'exception') + ':stubbed-main',
                        '__main__.py: exit status does not reflect the outcome of main()'
                        + (' (main() ended with a bare sys.exit())' if fail == 2 else ''),
                        inp={'part': 'argv', 'cwd': cwd, 'args': args, 'fail': fail},
                        expected='non-zero iff main() raised or called sys.exit()', observed=code)
    failing = fw.kernel_bools(ctx, 'argv', ['Model.CliPaths'], terms, open_scope='string_scope')
    for i in failing[:5]:
        cwd, args, fail = cases[i]
        ctx.violate('corr', 'cli-argv:model-disagrees', 'Coq model cli_argv and __main__.py normalise the arguments differently',
                    inp={'part': 'argv', 'cwd': cwd, 'args': args, 'fail': fail}, observed=res[i][0])


# ------------------------------------------------------------------------------------------ (b) json_outputfile statements
def corpus_outs():
    seeds = [json.loads(p.read_text()) for p in sorted(Path(fw.VERIF, 'corpus', 'C20').glob('*.json'))]
    return [d['out'] for d in seeds if 'out' in d]


def part_json(ctx, n):
    rnd = ctx.rng
    args = corpus_outs() + [rand_arg(rnd, '/var/tmp/x') for _ in range(n)]
    real = in_child(cli_stub.json_expr_cases, str(fw.SRC), args)
    real_client = in_child(cli_stub.client_json_cases, str(fw.SRC), args)
    terms = [f'opt_eqb (json_path {qconv.coq_bytes(a)}) {sopt(r)} && opt_eqb (client_json_path {qconv.coq_bytes(a)}) {sopt(c)}'
             for a, r, c in zip(args, real, real_client)]
    for a, r, c in zip(args, real, real_client):
        if c != r:
            ctx.violate('property', f'client-json-path:{shape(a)}', 'GeophiresXResult.json_output_file_path is not where GEOPHIRESv3.main writes the JSON',
                        inp={'part': 'json', 'out': a}, expected=r, observed=c)
        p = Path(a)
        want = str(p.parent / (p.stem + '.json')) if p.name else None
        ctx.count('json-path', evaluations=1, nontrivial_keys=[a] if '/' in a else [], shapes={shape(a): 1})
        if r != want:
            ctx.violate('property', f'json-path:{shape(a)}', 'GEOPHIRESv3.main: the JSON file is not <directory of the report>/<stem>.json',
                        inp={'part': 'json', 'out': a}, expected=want, observed=r)
    failing = fw.kernel_bools(ctx, 'json', ['Model.CliPaths'], terms, open_scope='string_scope')
    for i in failing[:5]:
        ctx.violate('corr', 'json-path:model-disagrees', 'Coq model json_path / client_json_path and GEOPHIRESv3.main / GeophiresXResult '
                    'derive different JSON paths', inp={'part': 'json', 'out': args[i]}, observed={'main': real[i], 'client': real_client[i]})


# ------------------------------------------------------------------------------------------ (c) real command-line processes
OUTS = {'d1': [None, 'r.out', 'sub/r.out', 'a.out/a.out', 'noext', '../up.out', 'nodir/x.out', 'ABS:other/abs.out',
               'ABS:other/../d1/back.out', './x.y.z', '.hid', 'sub//dbl.out', 'sub/../a.out/r.out', 'ABS:d1/a.out/a.out'],
        'd1/sub': [None, '../a.out/a.out', 'ABS:other/abs2.out', 'r.out', '../../other/o.out']}
# quick tier: the first input gets the first 9 shapes of d1 and 2 of d1/sub, every other input 1 random shape


def cli_case(ctx, idx, text, cwd_rel, out):
    """one python -m geophires_x process in a fresh directory tree -> observation dict"""
    root = Path(ctx.scratch, f'cli_{idx}_{uuid.uuid4().hex[:6]}')
    for d in ('w/d1/sub', 'w/d1/a.out', 'w/other'):
        (root / d).mkdir(parents=True)
    inp = root / 'w' / 'in.txt'
    if text is not None:
        inp.write_text(text)
    cwd = root / 'w' / cwd_rel
    out_arg = None if out is None else (str(root / 'w' / out[4:]) if out.startswith('ABS:') else out)
    inp_arg = os.path.relpath(inp, cwd) if idx % 2 else str(inp)
    before = {str(p) for p in root.rglob('*') if p.is_file()}
    env = {k: v for k, v in os.environ.items() if not k.startswith('GEOPHIRES_X_VERIF')}
    env['PYTHONPATH'] = str(fw.SRC)
    p = subprocess.run([fw.PY, '-B', str(Path(fw.VERIF, 'tools', 'lib', 'cli_wrapper.py')), inp_arg] + ([out_arg] if out_arg is not None else []),
                       cwd=cwd, env=env, capture_output=True, text=True, timeout=600)
    new = sorted({str(q) for q in root.rglob('*') if q.is_file()} - before)
    target = os.path.normpath(os.path.join(cwd, out_arg if out_arg is not None else 'HDR.out'))
    obs = {'cwd': str(cwd), 'inp': inp_arg, 'out': out_arg, 'exit': p.returncode, 'new': new, 'target': target,
           'dir_ok': os.path.isdir(os.path.dirname(target)) and not os.path.isdir(target), 'stderr': p.stderr[-300:]}
    tp = Path(target)
    obs['report'] = tp.read_text(encoding='UTF-8', errors='replace') if tp.is_file() else None
    jp = tp.with_name(tp.stem + '.json')
    obs['json'] = jp.read_text() if jp.is_file() else None
    obs['want_json'] = str(jp)
    return obs


FAST_EXAMPLES = ('S-DAC-GT.txt', 'example10_HP.txt', 'example11_AC.txt', 'example13.txt', 'example2.txt', 'example3.txt',
                 'example4.txt', 'example5.txt')   # offline examples that take < 1 s of CPU; the thorough tier takes all of them


def inputs(ctx):
    ex = [(n, t) for n, t in configs.example_texts() if not ctx.quick or n in FAST_EXAMPLES]
    syn = [(f'synthetic{i}', runner.params_to_text(configs.synthetic(ctx.rng))) for i in range(20)]
    ok = [(n, t.rstrip('\n') + '\nPrint Output to Console, 0\n') for n, t in ex[:1] + syn[:2] + ex[1:] + syn[2:]]
    return ok, list(SPECIAL.items())


def part_cli(ctx, ex):
    rnd = ctx.rng
    ok_inputs, special = inputs(ctx)
    texts = [t for _, t in ok_inputs] + [t for _, (t, _) in special if t is not None]
    direct = list(ex.map(runner._job, [(i, t, str(ctx.scratch), True) for i, t in enumerate(texts)]))   # the direct pipeline, same worker pool
    plan = []   # (input name, text, sim code, reference run, cwd_rel, out)
    for k, (name, text) in enumerate(ok_inputs):
        ref = direct[k]
        code = 0 if ref['ok'] else (2 if ref['error'] == 'SystemExit(None)' else 1)
        outs = [('d1', o) for o in OUTS['d1']] + [('d1/sub', o) for o in OUTS['d1/sub']]
        if ctx.quick:    # one full path matrix, then one shape for 6 further inputs; every input goes through client and MC below
            outs = ([('d1', o) for o in OUTS['d1'][:8]] + [('d1/sub', o) for o in OUTS['d1/sub'][:2]]) if k == 0 else \
                (rnd.sample(outs, 1) if k < 6 else [])
        elif k >= 4:
            outs = rnd.sample(outs, 2)
        for cwd_rel, o in outs:
            plan.append((name, text, code, ref, cwd_rel, o))
    j = len(ok_inputs)
    for name, (text, code) in special:
        ref = None
        if text is not None:
            ref = direct[j]
            j += 1
            got = 0 if ref['ok'] else (2 if ref['error'] == 'SystemExit(None)' else 1)
            if got != code:
                ctx.note(f'special input {name}: direct pipeline outcome {got} ({ref["error"]}), expected {code}')
                code = got
        for cwd_rel, o in [('d1', 'sub/r.out'), ('d1', None), ('d1/sub', 'ABS:other/abs.out')][:ctx.n(1 if name in ('missing-input-file', 'fails-in-calculate') else 3 if name == 'fails-in-output-stage' else 2, 3)]:
            plan.append((name, text, code, ref, cwd_rel, o))
    with ThreadPoolExecutor(max_workers=16) as ex:
        obs = list(ex.map(lambda a: cli_case(ctx, a[0], a[1][1], a[1][4], a[1][5]), enumerate(plan)))
    terms = []
    for (name, text, code, ref, cwd_rel, o), ob in zip(plan, obs):
        terms.append(f'cli_check {qconv.coq_bytes(ob["cwd"])} {qconv.coq_bytes(pkg())} {qconv.coq_bytes(ob["inp"])} {sopt(ob["out"])} '
                     f'{code}%nat {qconv.blit(ob["dir_ok"])} {qconv.zlit(ob["exit"])} {slist(ob["new"])}')
        sh = shape(ob['out'])
        rec = {'part': 'cli', 'input': name, 'text': text, 'cwd_rel': cwd_rel, 'out': o, 'sim_code': code}
        ctx.count('cli-process', evaluations=1, nontrivial_keys=[(name, cwd_rel, o)] if o not in (None, 'r.out') else [],
                  shapes={sh: 1}, outcome={['ok', 'exception', 'sys.exit'][code] + ('' if ob['dir_ok'] else '+nodir'): 1})
        if code == 0 and ob['dir_ok']:
            if ob['exit'] != 0 or ob['new'] != sorted([ob['target'], ob['want_json']]):
                ctx.violate('property', f'cli-path:{sh}', f'python -m geophires_x {ob["inp"]} {ob["out"]}: report/JSON not written to the requested path '
                            '(or exit status non-zero on success)', inp=rec, expected={'exit': 0, 'files': sorted([ob['target'], ob['want_json']])},
                            observed={'exit': ob['exit'], 'files': ob['new'], 'stderr': ob['stderr']})
            elif masked(ob['report']) != masked(ref['report']):
                ctx.violate('property', 'cli-report:differs-from-direct', 'command line and direct pipeline give different case reports',
                            inp=rec, observed=[(a, b) for a, b in zip((masked(ob['report']) or '').splitlines(), (masked(ref['report']) or 'NO REPORT').splitlines()) if a != b][:5])
            elif ref['json'] is None or json.loads(ob['json']) != json.loads(ref['json']):
                ctx.violate('property', 'cli-json:differs-from-direct', 'command line and direct pipeline give different JSON', inp=rec)
        else:
            kind = 'bare-sys-exit' if code == 2 else ('missing-directory' if code == 0 else 'exception')
            if ob['exit'] == 0 or ob['new']:
                ctx.violate('property', f'cli-exit-status:{kind}',
                            'python -m geophires_x: the simulation failed but the exit status is 0 or files were written'
                            + (' (the simulator ends the run with a bare sys.exit())' if code == 2 else ''),
                            inp=rec, expected='non-zero exit status, no report', observed={'exit': ob['exit'], 'files': ob['new'], 'stderr': ob['stderr']})
    anon = lambda v: re.sub(r'/cli_\d+_[0-9a-f]{6}', '/cli_N', str(v).replace(str(ctx.scratch), '<scratch>'))
    ctx.sample('cli-process', {k: anon(obs[4][k]) for k in ('cwd', 'inp', 'out', 'exit', 'new')})
    failing = fw.kernel_bools(ctx, 'cli', ['Model.CliPaths'], terms, open_scope='string_scope')
    for i in failing[:5]:
        name, text, code, ref, cwd_rel, o = plan[i]
        ctx.violate('corr', 'cli-process:model-disagrees', 'Coq model cli and the observed process (exit status, created files) disagree',
                    inp={'part': 'cli', 'input': name, 'text': text, 'cwd_rel': cwd_rel, 'out': o, 'sim_code': code},
                    observed={k: obs[i][k] for k in ('exit', 'new', 'dir_ok')})
    return ok_inputs, direct


# ------------------------------------------------------------------------------------------ (d) client and Monte-Carlo work package
def _client_job(a):
    text, mode, scratch, src = a
    from geophires_x_client import GeophiresInputParameters, GeophiresXClient
    os.chdir(scratch)
    sys.stdout = open(os.devnull, 'w')
    res = {'ok': False, 'error': None, 'report': None, 'json': None, 'json_where_client_looks': None}
    try:
        if mode in ('file', 'relfile'):     # 'file': exactly what MC_GeoPHIRES3.work_package does
            f = Path(scratch, f'client_in_{uuid.uuid4().hex[:10]}.txt')
            f.write_text(text)
            if mode == 'relfile':           # a path relative to the caller's directory (fix fa4a753): the caller's file must be read
                sub = Path(scratch, f'client_cwd_{uuid.uuid4().hex[:8]}', 'd')
                sub.mkdir(parents=True)
                os.chdir(sub)
                f = Path(os.path.relpath(f, sub))
            gp = GeophiresInputParameters(from_file_path=f)
        else:
            gp = GeophiresInputParameters(dict(l.split(', ', 1) for l in text.splitlines() if ', ' in l))
        r = GeophiresXClient(enable_caching=False).get_geophires_result(gp)
        res.update(ok=True, report=Path(r.output_file_path).read_text(encoding='UTF-8', errors='replace'),
                   json_where_client_looks=Path(r.json_output_file_path).is_file())
        if res['json_where_client_looks']:
            res['json'] = Path(r.json_output_file_path).read_text()
    except BaseException as e:  # noqa
        res['error'] = f'{type(e).__name__}: {e}'[:200]
        try:
            res['left_file'] = Path(gp.get_output_file_path()).exists()
        except NameError:
            pass
    os.chdir(scratch)
    return res


MC_OUTPUTS = ['Average Net Electricity Production', 'Electricity breakeven price', 'Average Direct-Use Heat Production',
              'Direct-Use heat breakeven price (LCOH)', 'Total capital costs', 'Average Production Temperature']


def mc_value(lines, out):
    m = [l for l in lines if f'  {out}: ' in l]
    return m[0].split(':')[1].strip().split(' ')[0].strip() if len(m) == 1 else None


DEGENERATE = ('Gradient 1', 'Injection Temperature', 'Production Flow Rate per Well', 'Utilization Factor', 'Reservoir Depth',
              'Surface Temperature', 'Ambient Temperature', 'Circulation Pump Efficiency')


def degenerate_input(text):
    """-> [name, 'uniform', w, w] for the first float parameter of the input written as a plain number, with w 3 % below the
    value in the file: np.random.uniform(w, w) == w, so the Monte-Carlo driver 'samples' exactly w and its embedded run must
    equal the direct run of the file with the line `name, w` appended (last occurrence governs)"""
    vals = {}
    for line in text.splitlines():
        parts = [x.strip() for x in line.split(',')]
        if len(parts) >= 2 and not line.lstrip().startswith(('#', '--', '*')):
            vals[parts[0]] = parts[1]
    for name in DEGENERATE:
        try:
            v = float(vals.get(name, 'x'))
        except ValueError:
            continue
        w = repr(round(v * 0.97, 4))
        return [name, 'uniform', w, w]
    return None


def sampled_text(text, degenerate):
    return text if not degenerate else text.rstrip('\n') + f'\n{degenerate[0]}, {float(degenerate[2])}\n'


def mc_row(report_lines, outputs, degenerate):
    """the row work_package must write: the requested figures of the report, then the sampled inputs"""
    sampled = f'{degenerate[0]}:{float(degenerate[2])};' if degenerate else ''
    return ', '.join(str(mc_value(report_lines, o)) for o in outputs) + f', ({sampled})\n'


def _mc_job(a):
    text, outputs, degenerate, scratch, src = a
    from geophires_monte_carlo import MC_GeoPHIRES3 as mc
    rid = uuid.uuid4().hex[:10]
    inp, outf = Path(scratch, f'mc_in_{rid}.txt'), Path(scratch, f'mc_out_{rid}.txt')
    inp.write_text(text)
    outf.write_text('')
    ns = argparse.Namespace(Code_File=str(Path(src, 'geophires_x', 'GEOPHIRESv3.py')), Input_file=str(inp), MC_OUTPUT_FILE=str(outf))
    old = sys.stdout
    sys.stdout = open(os.devnull, 'w')
    try:
        mc.work_package([[degenerate] if degenerate else [], outputs, ns, str(outf), str(scratch), sys.executable])
    finally:
        sys.stdout = old
    return outf.read_text()


def part_client(ctx, ok_inputs, direct, ex):
    jobs, meta = [], []
    for k, (name, text) in enumerate(ok_inputs):
        jobs.append((text, 'file', str(ctx.scratch), str(fw.SRC)))
        meta.append((name, 'client-from-file', k))
        if name.startswith('synthetic'):
            jobs.append((text, 'params', str(ctx.scratch), str(fw.SRC)))
            meta.append((name, 'client-from-params', k))
        if k < 4:
            jobs.append((text, 'relfile', str(ctx.scratch), str(fw.SRC)))
            meta.append((name, 'client-from-relative-file', k))
    for sp in ('aborts-sys-exit', 'fails-in-output-stage', 'fails-bad-value'):
        jobs.append((SPECIAL[sp][0], 'file', str(ctx.scratch), str(fw.SRC)))
        meta.append((sp, 'client-from-file', None))
    if True:
        res = list(ex.map(_client_job, jobs))
        cand = [k for k in range(len(ok_inputs)) if direct[k]['ok'] and direct[k]['report']]
        # reference for the embedded run: the direct pipeline on the file plus the 'sampled' line
        mcref = dict(zip(cand, ex.map(runner._job, [(k, sampled_text(ok_inputs[k][1], degenerate_input(ok_inputs[k][1])), str(ctx.scratch), False)
                                                    for k in cand])))
        mcj = []
        for k in cand:
            if mcref[k]['ok'] and mcref[k]['report']:
                lines = mcref[k]['report'].splitlines(keepends=True)
                outs = [o for o in MC_OUTPUTS if mc_value(lines, o) is not None]
                mcj.append((k, outs, ex.submit(_mc_job, (ok_inputs[k][1], outs, degenerate_input(ok_inputs[k][1]), str(ctx.scratch), str(fw.SRC)))))
        mcres = [(k, outs, f.result()) for k, outs, f in mcj]
    for (name, mode, k), job, r in zip(meta, jobs, res):
        rec = {'part': 'client', 'input': name, 'mode': mode, 'text': job[0]}
        ctx.count('client', evaluations=1, nontrivial_keys=[(name, mode)], modes={mode: 1})
        if k is None:
            if r['ok']:
                ctx.violate('property', 'client:abort-not-reported', 'GeophiresXClient returns a result for a run the simulator aborted / that failed', inp=rec)
            elif r.get('left_file'):
                ctx.violate('property', f'client:failed-run-leaves-report:{name}', 'GeophiresXClient raises, but a report file exists at its result path '
                            'after the failed run', inp=rec, expected='no file at get_output_file_path()', observed=r['error'])
            continue
        ref = direct[k]
        if r['ok'] != ref['ok']:
            ctx.violate('property', f'client:outcome-differs:{mode}', 'client and direct pipeline disagree on success/failure', inp=rec,
                        expected=ref['error'], observed=r['error'])
        elif r['ok'] and (masked(r['report']) != masked(ref['report']) or not r['json_where_client_looks']
                          or ref['json'] is None or json.loads(r['json']) != json.loads(ref['json'])):
            ctx.violate('property', f'client:report-differs:{mode}', 'client and direct pipeline give different report/JSON, or the JSON is not '
                        'where GeophiresXResult.json_output_file_path looks', inp=rec,
                        observed={'json_where_client_looks': r['json_where_client_looks']})
    for k, outs, row in mcres:
        lines = mcref[k]['report'].splitlines(keepends=True)
        want = mc_row(lines, outs, degenerate_input(ok_inputs[k][1]))
        ctx.count('monte-carlo-work-package', evaluations=1, nontrivial_keys=[ok_inputs[k][0]])
        if row != want:
            ctx.violate('property', 'monte-carlo:embedded-run-differs', 'the run embedded in MC_GeoPHIRES3.work_package reports other figures '
                        'than the direct pipeline for the same input', inp={'part': 'mc', 'input': ok_inputs[k][0], 'text': ok_inputs[k][1], 'outputs': outs},
                        expected=want, observed=row)


# ------------------------------------------------------------------------------------------ (e) direct pipeline, relative / missing output
def _direct_job(a):
    """GEOPHIRESv3.main() with sys.argv = ['', input, <relative output>] or ['', input], started in cwd.  main() chdir()s into
    its package directory; that ONE chdir is redirected to a stand-in directory in the scratch area (the model has the package
    directory as a parameter), so the files a relative / default output name produces can be observed without writing into
    the repository.  Nothing else is patched."""
    text, cwd, fake_pkg, out, src = a
    import geophires_x.GEOPHIRESv3 as g
    real_pkg = os.path.dirname(os.path.abspath(g.__file__))
    real_chdir = os.chdir
    os.chdir = lambda p: real_chdir(fake_pkg if os.path.abspath(p) == real_pkg else p)
    root = Path(cwd).parent
    inp = Path(root, 'in.txt')
    inp.write_text(text)
    before = {str(p) for p in root.rglob('*') if p.is_file()}
    real_chdir(cwd)
    sys.argv = ['', str(inp)] + ([out] if out is not None else [])
    sys.stdout = open(os.devnull, 'w')
    err = None
    try:
        g.main(enable_geophires_logging_config=False)
    except BaseException as e:  # noqa
        err = f'{type(e).__name__}: {e}'[:200]
    finally:
        os.chdir = real_chdir
        real_chdir(str(root))
    new = sorted({str(p) for p in root.rglob('*') if p.is_file()} - before)
    return {'error': err, 'new': new, 'reports': {p: Path(p).read_text(encoding='UTF-8', errors='replace') for p in new if not p.endswith('.json')}}


def part_direct_relative(ctx, ok_inputs, direct, ex):
    cases, jobs = [], []
    k = next(i for i, r in enumerate(direct) if r['ok'] and r['report'])
    name, text = ok_inputs[k]
    for i, out in enumerate([None, 'rel.out', 'sub/r.out', 'a.out/a.out', './noext', '../w/up.out'][:ctx.n(4, 6)]):
        root = Path(ctx.scratch, f'direct_{i}')
        for d in ('w', 'pkg/sub', 'pkg/a.out'):
            (root / d).mkdir(parents=True)
        cases.append((str(root / 'w'), str(root / 'pkg'), out))
        jobs.append((text, str(root / 'w'), str(root / 'pkg'), out, str(fw.SRC)))
    res = list(ex.map(_direct_job, jobs))
    terms = []
    for (cwd, fpkg, out), r in zip(cases, res):
        argv = ['', str(Path(cwd).parent / 'in.txt')] + ([out] if out is not None else [])
        terms.append(f'direct_check {qconv.coq_bytes(cwd)} {qconv.coq_bytes(fpkg)} {slist(argv)} {slist(r["new"])}')
        ctx.count('direct-relative', evaluations=1, nontrivial_keys=[out], shapes={shape(out): 1})
        reps = list(r['reports'].values())
        if r['error'] or len(reps) != 1 or masked(reps[0]) != masked(direct[k]['report']):
            ctx.violate('property', 'direct-main:relative-output:report-differs', 'GEOPHIRESv3.main() with a relative / missing output argument '
                        'fails or writes another report than with an absolute one',
                        inp={'part': 'direct', 'input': name, 'text': text, 'out': out}, observed={'error': r['error'], 'files': r['new']})
    failing = fw.kernel_bools(ctx, 'direct', ['Model.CliPaths'], terms, open_scope='string_scope')
    for i in failing:
        ctx.violate('corr', 'direct-main:model-disagrees', 'Coq model main_files and GEOPHIRESv3.main() (relative / missing output argument, '
                    'package directory substituted) create different files',
                    inp={'part': 'direct', 'input': name, 'text': text, 'out': cases[i][2]}, observed=res[i]['new'])
    ctx.note('direct pipeline with a relative output argument writes report and JSON relative to the PACKAGE directory; without an '
             'output argument HDR.out goes to the package directory and HDR.json to the caller\'s directory (C20_direct_pipeline_paths); '
             'observed with the chdir target substituted by a scratch directory')


# ------------------------------------------------------------------------------------------ (h) two runs onto the same output path
def reports_in(text, refs):
    """ids (1-based position in refs) of the case reports a file consists of; [99] when it is something else"""
    if text is None:
        return []
    m = masked(text)
    for combo in [[i] for i in range(len(refs))] + [[i, j] for i in range(len(refs)) for j in range(len(refs))]:
        if m == ''.join(masked(refs[i]) for i in combo):
            return [i + 1 for i in combo]
    return [99]


def cli_twice(ctx, idx, text_x, text_y, out):
    root = Path(ctx.scratch, f'twice_{idx}', 'w')
    root.mkdir(parents=True)
    env = {k: v for k, v in os.environ.items() if not k.startswith('GEOPHIRES_X_VERIF')}
    env['PYTHONPATH'] = str(fw.SRC)
    codes = []
    for name, text in (('x.txt', text_x), ('y.txt', text_y)):
        (root / name).write_text(text)
        p = subprocess.run([fw.PY, '-B', str(Path(fw.VERIF, 'tools', 'lib', 'cli_wrapper.py')), name] + ([out] if out else []),
                           cwd=root, env=env, capture_output=True, text=True, timeout=600)
        codes.append(p.returncode)
    target = root / (out or 'HDR.out')
    js = target.with_name(target.stem + '.json')
    return {'path': str(target), 'exit': codes, 'report': target.read_text(encoding='UTF-8', errors='replace') if target.is_file() else None,
            'json': js.read_text() if js.is_file() else None}


def _twice_job(a):
    """client (uncached, same from_file_path rewritten in between) or direct pipeline (same argv[2]) twice in one process"""
    mode, text_x, text_y, scratch = a
    from geophires_x import GEOPHIRESv3
    from geophires_x_client import GeophiresInputParameters, GeophiresXClient
    d = Path(scratch, f'twice_{mode}_{uuid.uuid4().hex[:8]}')
    d.mkdir()
    os.chdir(d)
    sys.stdout = open(os.devnull, 'w')
    f, target, err = d / 'in.txt', d / 'same.out', None
    try:
        for text in (text_x, text_y):
            f.write_text(text)
            if mode == 'client':
                r = GeophiresXClient(enable_caching=False).get_geophires_result(GeophiresInputParameters(from_file_path=f))
                target = Path(r.output_file_path)
            else:
                argv0, sys.argv = sys.argv, ['', str(f), str(target)]
                try:
                    GEOPHIRESv3.main(enable_geophires_logging_config=False)
                finally:
                    sys.argv = argv0
                    os.chdir(d)
    except BaseException as e:  # noqa
        err = f'{type(e).__name__}: {e}'[:200]
    os.chdir(scratch)
    js = target.with_name(target.stem + '.json')
    return {'path': str(target), 'error': err, 'report': target.read_text(encoding='UTF-8', errors='replace') if target.is_file() else None,
            'json': js.read_text() if js.is_file() else None}


def part_twice(ctx, ok_inputs, direct, ex):
    good = [k for k, r in enumerate(direct[:len(ok_inputs)]) if r['ok'] and r['report'] and r['json']]
    kx, ky = good[0], good[1]
    tx, ty = ok_inputs[kx][1], ok_inputs[ky][1]
    refs = [direct[kx]['report'], direct[ky]['report']]
    with ThreadPoolExecutor(max_workers=4) as tp:
        cli = list(tp.map(lambda a: cli_twice(ctx, a[0], tx, ty, a[1]), enumerate(['result.out', None][:ctx.n(2, 2)])))
    inproc = list(ex.map(_twice_job, [(m, tx, ty, str(ctx.scratch)) for m in ('client', 'direct')]))
    tf = SPECIAL['fails-in-output-stage'][0]
    with ThreadPoolExecutor(max_workers=2) as tp:
        cli_f = list(tp.map(lambda a: cli_twice(ctx, 10 + a[0], tx, tf, a[1]), enumerate(['result.out'])))
    inproc_f = list(ex.map(_twice_job, [(m, tx, tf, str(ctx.scratch)) for m in ('client', 'direct')]))
    terms = []
    for label, ob in [('cli:result.out', cli_f[0]), ('client', inproc_f[0]), ('direct', inproc_f[1])]:
        ids = reports_in(ob['report'], refs)
        terms.append(f'report_file_check [({qconv.coq_bytes(ob["path"])}, 1%N)] {qconv.coq_bytes(ob["path"])} [' + '; '.join(f'{i}%N' for i in ids) + ']')
        ctx.count('two-runs-same-path', evaluations=1, nontrivial_keys=[label + ':then-failing'], entry={label.split(':')[0] + '+late-failure': 1})
        json_ok = ob['json'] is not None and json.loads(ob['json']) == json.loads(direct[kx]['json'])
        failed = (ob.get('exit') or [0, 1])[1] != 0 if 'exit' in ob else bool(ob.get('error'))
        if ids != [1] or not json_ok or not failed:
            ctx.violate('property', f'report-file:failing-run-touches-existing-report:{label.split(":")[0]}',
                        f'{label}: a good run, then a run failing in the output stage onto the same path: the earlier report must stay as it was '
                        '(and the failing run must be reported as failed)',
                        inp={'part': 'twice', 'label': label, 'text_x': tx, 'text_y': tf}, expected={'reports_in_file': [1], 'failed': True},
                        observed={'reports_in_file': ids, 'bytes': None if ob['report'] is None else len(ob['report']), 'json_is_first': json_ok,
                                  'failed': failed})
    for label, ob in [('cli:result.out', cli[0]), ('cli:default', cli[1]), ('client', inproc[0]), ('direct', inproc[1])]:
        ids = reports_in(ob['report'], refs)
        terms.append(f'report_file_check [({qconv.coq_bytes(ob["path"])}, 1%N); ({qconv.coq_bytes(ob["path"])}, 2%N)] {qconv.coq_bytes(ob["path"])} '
                     + '[' + '; '.join(f'{i}%N' for i in ids) + ']')
        ctx.count('two-runs-same-path', evaluations=1, nontrivial_keys=[label], entry={label.split(':')[0]: 1})
        json_ok = ob['json'] is not None and json.loads(ob['json']) == json.loads(direct[ky]['json'])
        if ids != [2] or not json_ok:
            ctx.violate('property', f'report-file:second-run-onto-existing-path:{label.split(":")[0]}',
                        f'{label}: two runs (inputs {ok_inputs[kx][0]}, then {ok_inputs[ky][0]}) onto the same output path: the file is not exactly the '
                        'report of the second input (or report and JSON disagree)',
                        inp={'part': 'twice', 'label': label, 'text_x': tx, 'text_y': ty}, expected={'reports_in_file': [2], 'json': 'of the second input'},
                        observed={'reports_in_file': ids, 'json_is_second': json_ok, 'error': ob.get('error') or ob.get('exit')})
    for i in fw.kernel_bools(ctx, 'twice', ['Model.CliPaths'], terms, open_scope='string_scope'):
        ctx.violate('corr', 'report-file:model-disagrees', 'Coq model after_runs (truncate-then-write) and the observed report file disagree',
                    inp={'part': 'twice', 'label': (['cli+late-failure', 'client+late-failure', 'direct+late-failure', 'cli:result.out', 'cli:default', 'client', 'direct'])[i],
                         'text_x': tx, 'text_y': ty})


# ------------------------------------------------------------------------------------------ (g) histories, Model(input_file=)
def _history_job(a):
    """one process, one working directory: a sequence of GeophiresXClient calls (ok / exception / bare sys.exit); the working
    directory is recorded after every call; the last call uses a RELATIVE from_file_path plus params and a relative HTML
    Output File, i.e. everything that is resolved against the working directory"""
    ok_text, fail_text, abort_text, kinds, scratch = a
    from geophires_x_client import GeophiresInputParameters, GeophiresXClient
    home = Path(scratch, f'hist_{uuid.uuid4().hex[:8]}', 'w')
    home.mkdir(parents=True)
    os.chdir(home)
    sys.stdout = open(os.devnull, 'w')
    (home / 'in.txt').write_text(ok_text)
    cwds, res = [], {'report': None, 'error': None, 'html': False}
    for kind in kinds:
        text = {'ok': ok_text, 'fail': fail_text, 'abort': abort_text}[kind]
        f = home / f'{kind}.txt'
        f.write_text(text)
        try:
            GeophiresXClient(enable_caching=False).get_geophires_result(GeophiresInputParameters(from_file_path=f))
        except BaseException:  # noqa
            pass
        cwds.append(os.getcwd())
    try:    # relative paths after that history
        gp = GeophiresInputParameters({'HTML Output File': 'rel.html'}, from_file_path=Path('in.txt'))
        r = GeophiresXClient(enable_caching=False).get_geophires_result(gp)
        res['report'] = Path(r.output_file_path).read_text(encoding='UTF-8', errors='replace')
        res['html'] = (home / 'rel.html').is_file()
    except BaseException as e:  # noqa
        res['error'] = f'{type(e).__name__}: {e}'[:200]
    cwds.append(os.getcwd())
    res.update(home=str(home), cwds=cwds)
    os.chdir(scratch)
    return res


def _model_kw_job(a):
    """Model(input_file=A) in a process whose sys.argv[1] names another existing input B (and the reverse: no keyword)"""
    scratch, use_kw = a
    import geophires_x.Model as M
    d = Path(scratch, f'kw_{uuid.uuid4().hex[:8]}')
    d.mkdir()
    (d / 'A.txt').write_text(BASE + 'End-Use Option, 2\nGradient 1, 61\n')
    (d / 'B.txt').write_text(BASE + 'End-Use Option, 2\nGradient 1, 37\n')
    os.chdir(d)
    argv0, sys.argv = sys.argv, ['', str(d / 'B.txt'), str(d / 'o.out')]
    try:
        m = M.Model(enable_geophires_logging_config=False, input_file=str(d / 'A.txt') if use_kw else None)
        g = m.InputParameters['Gradient 1'].sValue
    finally:
        sys.argv = argv0
        os.chdir(scratch)
    return {'argv': ['', str(d / 'B.txt'), str(d / 'o.out')], 'kw': str(d / 'A.txt') if use_kw else None,
            'read': str(d / ('A.txt' if g == '61' else 'B.txt'))}


def part_histories(ctx, ok_inputs, direct, ex):
    k = next(i for i, r in enumerate(direct) if r['ok'] and r['report'])
    ok_text = ok_inputs[k][1]
    hists = [['fail'], ['abort'], ['ok', 'fail', 'ok'], ['fail', 'abort', 'fail'], ['ok']][:ctx.n(4, 5)]
    jobs = [(ok_text, SPECIAL['fails-bad-value'][0], SPECIAL['aborts-sys-exit'][0], h, str(ctx.scratch)) for h in hists]
    res = list(ex.map(_history_job, jobs))
    ref = list(ex.map(runner._job, [(0, ok_text.rstrip('\n') + '\nHTML Output File, ' + str(Path(ctx.scratch, 'ref_hist.html')) + '\n', str(ctx.scratch), False)]))[0]
    terms = []
    for h, r in zip(hists, res):
        terms.append(f'history_check {qconv.coq_bytes(pkg())} {qconv.coq_bytes(r["home"])} {slist(h + ["ok"])} {slist(r["cwds"])}')
        ctx.count('client-histories', evaluations=1, nontrivial_keys=[tuple(h)], history={'+'.join(h): 1})
        rec = {'part': 'history', 'kinds': h, 'ok_text': ok_text}
        if any(c != r['home'] for c in r['cwds']):
            ctx.violate('property', 'client-history:working-directory-not-restored', 'GeophiresXClient leaves the process in another working '
                        'directory after a call of the history ' + '+'.join(h), inp=rec, expected=r['home'], observed=r['cwds'])
        elif r['error'] or masked(r['report']) != masked(ref['report']) or not r['html']:
            ctx.violate('property', 'client-history:relative-paths-after-history', 'after the history ' + '+'.join(h) + ' a client request with a '
                        'relative from_file_path / relative HTML Output File no longer gives the result of the same request made alone',
                        inp=rec, observed={'error': r['error'], 'html_in_callers_directory': r['html']})
    for i in fw.kernel_bools(ctx, 'history', ['Model.CliPaths'], terms, open_scope='string_scope'):
        ctx.violate('corr', 'client-history:model-disagrees', 'Coq model history/client_step and the observed working directories disagree',
                    inp={'part': 'history', 'kinds': hists[i], 'ok_text': ok_text}, observed=res[i]['cwds'])
    kw = list(ex.map(_model_kw_job, [(str(ctx.scratch), True), (str(ctx.scratch), False)]))
    terms = []
    for r in kw:
        terms.append(f'opt_eqb (model_input_source {sopt(r["kw"])} {slist(r["argv"])}) (Some {qconv.coq_bytes(r["read"])})')
        ctx.count('model-input-keyword', evaluations=1, nontrivial_keys=[r['kw'] is not None])
        if r['kw'] is not None and r['read'] != r['kw']:
            ctx.violate('property', 'direct-model:input_file-keyword-ignored', 'Model(input_file=A) reads sys.argv[1] instead of A: the direct '
                        'pipeline with the keyword no longer agrees with the command line / client on A',
                        inp={'part': 'model-kw'}, expected=r['kw'], observed=r['read'])
    for i in fw.kernel_bools(ctx, 'modelkw', ['Model.CliPaths'], terms, open_scope='string_scope'):
        ctx.violate('corr', 'direct-model:input-source:model-disagrees', 'Coq model model_input_source and Model.__init__ disagree',
                    inp={'part': 'model-kw'}, observed=kw[i])


# ------------------------------------------------------------------------------------------ (f) HIP-RA-X
HIP_BASE = {'Reservoir Temperature': 250.0, 'Rejection Temperature': 60.0, 'Reservoir Porosity': 10.0, 'Reservoir Area': 55.0,
            'Reservoir Thickness': 0.25, 'Reservoir Life Cycle': 25}
HIP_OUTPUTS = ['Reservoir Volume (reservoir)', 'Stored Heat (reservoir)', 'Producible Heat (reservoir)', 'Producible Electricity (reservoir)']


def hip_inputs(ctx, n):
    rnd, out = ctx.rng, [('HIP-RA-X_example1', ''.join(f'{k}, {v}\n' for k, v in HIP_BASE.items()))]
    for i in range(n):
        d = dict(HIP_BASE)
        d.update({'Reservoir Temperature': rnd.randint(120, 350), 'Rejection Temperature': rnd.randint(25, 90),
                  'Reservoir Porosity': rnd.randint(2, 30), 'Reservoir Area': rnd.randint(5, 200),
                  'Reservoir Thickness': rnd.randint(1, 20) / 10})
        out.append((f'hip{i}', ''.join(f'{k}, {v}\n' for k, v in d.items())))
    return out


def _hip_job(a):
    """hip_ra_x.main() in-process with the chdir into the package directory redirected to a scratch stand-in (see _direct_job)"""
    cwd, fake_pkg, argv_tail = a
    import hip_ra_x.hip_ra_x as h
    real_pkg, real_chdir = os.path.dirname(os.path.abspath(h.__file__)), os.chdir
    os.chdir = lambda p: real_chdir(fake_pkg if os.path.abspath(p) == real_pkg else p)
    root = Path(cwd).parent
    before = {str(p) for p in root.rglob('*') if p.is_file()}
    real_chdir(cwd)
    sys.argv = [''] + list(argv_tail)
    sys.stdout = open(os.devnull, 'w')
    err = None
    try:
        h.main(enable_hip_ra_logging_config=False)
    except BaseException as e:  # noqa
        err = f'{type(e).__name__}: {e}'[:200]
    finally:
        os.chdir = real_chdir
        real_chdir(str(root))
    return {'error': err, 'new': sorted({str(p) for p in root.rglob('*') if p.is_file()} - before)}


def _hip_client_job(a):
    text, mode, outputs, scratch, src = a
    from hip_ra import HipRaInputParameters
    from hip_ra_x import HipRaXClient
    os.chdir(scratch)
    sys.stdout = open(os.devnull, 'w')
    res = {'error': None, 'report': None}
    try:
        if mode == 'mc':      # the Monte-Carlo driver's embedded run: work_package -> HipRaXClient(HipRaInputParameters(Path(tmp)))
            from geophires_monte_carlo import MC_GeoPHIRES3 as mc
            rid = uuid.uuid4().hex[:10]
            inp, outf = Path(scratch, f'hipmc_in_{rid}.txt'), Path(scratch, f'hipmc_out_{rid}.txt')
            inp.write_text(text)
            outf.write_text('')
            ns = argparse.Namespace(Code_File=str(Path(src, 'hip_ra_x', 'hip_ra_x.py')), Input_file=str(inp), MC_OUTPUT_FILE=str(outf))
            mc.work_package([[], outputs, ns, str(outf), str(scratch), sys.executable])
            res['row'] = outf.read_text()
            return res
        if mode in ('file', 'relfile'):
            f = Path(scratch, f'hip_in_{uuid.uuid4().hex[:10]}.txt')
            f.write_text(text)
            if mode == 'relfile':
                sub = Path(scratch, f'hip_cwd_{uuid.uuid4().hex[:8]}', 'd')
                sub.mkdir(parents=True)
                os.chdir(sub)
                f = os.path.relpath(f, sub)
            gp = HipRaInputParameters(f)
        else:
            gp = HipRaInputParameters(dict(l.split(', ', 1) for l in text.splitlines()))
        r = HipRaXClient().get_hip_ra_result(gp)
        res['report'] = Path(r.output_file_path).read_text(encoding='UTF-8')
    except BaseException as e:  # noqa
        res['error'] = f'{type(e).__name__}: {e}'[:200]
    return res


def hip_process(ctx, idx, text, inp_rel, out):
    """one real  python -m hip_ra_x.hip_ra_x  process; the OUTPUT argument is always absolute (a relative one would be written
    into the repository), the INPUT argument may be relative to the starting directory"""
    root = Path(ctx.scratch, f'hipcli_{idx}')
    (root / 'w').mkdir(parents=True)
    if text is not None:
        (root / 'w' / 'in.txt').write_text(text)
    out_abs = str(root / 'w' / out)
    before = {str(p) for p in root.rglob('*') if p.is_file()}
    env = {k: v for k, v in os.environ.items() if not k.startswith('GEOPHIRES_X_VERIF')}
    env['PYTHONPATH'] = str(fw.SRC)
    inp_arg = 'in.txt' if inp_rel else str(root / 'w' / 'in.txt')
    p = subprocess.run([fw.PY, '-B', str(Path(fw.VERIF, 'tools', 'lib', 'cli_wrapper.py')), '--module=hip_ra_x.hip_ra_x', inp_arg, out_abs],
                       cwd=root / 'w', env=env, capture_output=True, text=True, timeout=600)
    new = sorted({str(q) for q in root.rglob('*') if q.is_file()} - before)
    return {'cwd': str(root / 'w'), 'argv': [inp_arg, out_abs], 'exit': p.returncode, 'new': new, 'stderr': p.stderr[-300:],
            'report': Path(out_abs).read_text(encoding='UTF-8') if Path(out_abs).is_file() else None,
            'dir_ok': os.path.isdir(os.path.dirname(out_abs))}


def part_hip(ctx, ex):
    inputs_ = hip_inputs(ctx, ctx.n(5, 40))
    name0, text0 = inputs_[0]
    hpkg = str(fw.SRC / 'hip_ra_x')
    # (f1) path handling, package directory substituted: (where the input file is put, argv tail, valid?)
    shapes = [('cwd', ['ABS:w/in.txt', 'ABS:w/abs.out'], True), ('cwd', ['in.txt', 'ABS:w/x.out'], True), ('pkg', ['in.txt', 'rel.out'], True),
              ('cwd', ['ABS:w/in.txt'], True), ('cwd', ['ABS:w/in.txt', 'ABS:w/nodir/x.out'], True), ('cwd', ['ABS:w/in.txt', 'sub/../r.out'], True),
              ('none', ['ABS:w/in.txt', 'ABS:w/m.out'], True), ('cwd', ['ABS:w/in.txt', 'ABS:w/bad.out'], False), ('both', ['./in.txt', './sub/r2.out'], True)]
    jobs, meta = [], []
    for i, (where, tail, valid) in enumerate(shapes):
        root = Path(ctx.scratch, f'hip_{i}')
        for d in ('w', 'pkg/sub'):
            (root / d).mkdir(parents=True)
        text = text0 if valid else text0.replace('250.0', 'abc')
        placed = [root / d / 'in.txt' for d in (('w',) if where == 'cwd' else ('pkg',) if where == 'pkg' else ('w', 'pkg') if where == 'both' else ())]
        for f in placed:
            f.write_text(text)
        argv = [str(root / t[4:]) if t.startswith('ABS:') else t for t in tail]
        jobs.append((str(root / 'w'), str(root / 'pkg'), argv))
        meta.append((str(root / 'pkg'), argv, [str(f) for f in placed] if valid else [], where, tail))
    res = list(ex.map(_hip_job, jobs))
    terms = []
    for (fpkg, argv, ok_in, where, tail), r in zip(meta, res):
        target = os.path.normpath(os.path.join(fpkg, argv[1] if len(argv) > 1 else 'HIP.out'))
        dir_ok = os.path.isdir(os.path.dirname(target))
        terms.append(f'hip_check {qconv.coq_bytes(fpkg)} {slist([""] + argv)} {slist(ok_in)} {qconv.blit(dir_ok)} {qconv.blit(r["error"] is not None)} {slist(r["new"])}')
        ctx.count('hip-main-paths', evaluations=1, nontrivial_keys=[(where, tuple(tail))])
    failing = fw.kernel_bools(ctx, 'hip', ['Model.CliPaths'], terms, open_scope='string_scope')
    for i in failing:
        ctx.violate('corr', 'hip-ra-x:model-disagrees', 'Coq model hip_main and hip_ra_x.main() (package directory substituted) disagree on '
                    'exception / created files', inp={'part': 'hip-main', 'where': meta[i][3], 'tail': meta[i][4]}, observed=res[i])
    # (f2) real processes
    plan = [('ok', text0, False, 'abs.out', 0), ('relative-input', text0, True, 'rel_in.out', 0), ('missing-output-directory', text0, False, 'nodir/x.out', 0),
            ('missing-input-file', None, False, 'm.out', 1), ('bad-value', text0.replace('250.0', 'abc'), False, 'bad.out', 1)]
    plan += [(f'ok:{n}', t, False, 'abs.out', 0) for n, t in inputs_[1:ctx.n(2, 12)]]
    with ThreadPoolExecutor(max_workers=16) as tp:
        obs = list(tp.map(lambda a: hip_process(ctx, a[0], a[1][1], a[1][2], a[1][3]), enumerate(plan)))
    terms = []
    for (kind, text, inp_rel, out, code), ob in zip(plan, obs):
        ok_in = [] if (code or inp_rel) else [str(Path(ob['cwd'], 'in.txt'))]     # a relative input is looked for in the real package directory
        terms.append(f'hip_check {qconv.coq_bytes(hpkg)} {slist([""] + ob["argv"])} {slist(ok_in)} {qconv.blit(ob["dir_ok"])} {qconv.blit(ob["exit"] != 0)} {slist(ob["new"])}')
        rec = {'part': 'hip-cli', 'kind': kind, 'text': text, 'inp_rel': inp_rel, 'out': out, 'sim_code': code}
        ctx.count('hip-cli-process', evaluations=1, nontrivial_keys=[kind], kinds={kind.split(':')[0]: 1})
        if code == 0 and ob['dir_ok']:
            if ob['exit'] != 0 or ob['new'] != [ob['argv'][1]]:
                key = 'hip-ra-x-cli:relative-path-resolved-against-package-dir' if inp_rel else 'hip-ra-x-cli:report-not-at-requested-path'
                ctx.violate('property', key, 'python -m hip_ra_x.hip_ra_x: a valid input given '
                            + ('RELATIVE to the starting directory is looked for in the package directory' if inp_rel else 'with absolute paths')
                            + ' - no report at the requested path / non-zero exit status', inp=rec,
                            expected={'exit': 0, 'files': [ob['argv'][1]]}, observed={'exit': ob['exit'], 'files': ob['new'], 'stderr': ob['stderr']})
        elif ob['exit'] == 0 or ob['new']:
            ctx.violate('property', 'hip-ra-x-cli:exit-0-report-not-written' if code == 0 else 'hip-ra-x-cli:exit-status:exception',
                        'python -m hip_ra_x.hip_ra_x: the run failed (report not written) but the exit status is 0', inp=rec,
                        expected='non-zero exit status, no report', observed={'exit': ob['exit'], 'files': ob['new']})
    failing = fw.kernel_bools(ctx, 'hipcli', ['Model.CliPaths'], terms, open_scope='string_scope')
    for i in failing:
        ctx.violate('corr', 'hip-ra-x-cli:model-disagrees', 'Coq model hip_script and the observed python -m hip_ra_x.hip_ra_x process disagree',
                    inp={'part': 'hip-cli', 'kind': plan[i][0], 'text': plan[i][1], 'inp_rel': plan[i][2], 'out': plan[i][3], 'sim_code': plan[i][4]},
                    observed={k: obs[i][k] for k in ('exit', 'new')})
    # (f3) report content: script vs client (from file / from dict) vs the Monte-Carlo driver's embedded run
    ref = {plan[i][0].replace('ok:', ''): obs[i]['report'] for i in range(len(plan)) if plan[i][0].startswith('ok')}
    ref[name0] = ref.pop('ok')
    cj = [(t, m, HIP_OUTPUTS, str(ctx.scratch), str(fw.SRC)) for n, t in inputs_ if n in ref for m in ('file', 'relfile', 'dict', 'mc')]
    cm = [(n, m) for n, t in inputs_ if n in ref for m in ('file', 'relfile', 'dict', 'mc')]
    for (n, m), job, r in zip(cm, cj, ex.map(_hip_client_job, cj)):
        ctx.count('hip-content', evaluations=1, nontrivial_keys=[(n, m)], modes={m: 1})
        want = ref[n]
        if want is None:
            continue
        if m == 'mc':
            lines = want.splitlines(keepends=True)
            good = r.get('row') == ', '.join(str(mc_value(lines, o)) for o in HIP_OUTPUTS) + ', ()\n'
        else:
            good = r['report'] == want
        if not good:
            ctx.violate('property', f'hip-ra-x:content-differs:{m}', 'HIP-RA-X: the client / Monte-Carlo embedded run reports something else than '
                        'python -m hip_ra_x.hip_ra_x for the same input', inp={'part': 'hip-content', 'input': n, 'text': job[0], 'mode': m},
                        observed=r.get('row') or r.get('error') or 'report differs')


def correspondence(ctx, proofs_ok=True):
    logging.disable(logging.CRITICAL)
    part_argv(ctx, ctx.n(400, 6000))
    part_json(ctx, ctx.n(400, 6000))
    with ProcessPoolExecutor(max_workers=8, initializer=runner._init_worker, initargs=(str(ctx.scratch),)) as ex:   # one pool: importing the simulator is the dominant cost
        ok_inputs, direct = part_cli(ctx, ex)
        part_client(ctx, ok_inputs, direct, ex)
        part_direct_relative(ctx, ok_inputs, direct, ex)
        part_hip(ctx, ex)
        part_histories(ctx, ok_inputs, direct, ex)
        part_twice(ctx, ok_inputs, direct, ex)


def replay(ctx, data):
    logging.disable(logging.CRITICAL)
    inp = data['input']
    part = inp.get('part')
    before = len(ctx.violations)
    if part == 'argv':
        res = in_child(cli_stub.stub_main_cases, str(fw.SRC), [(inp['cwd'], inp['args'], inp['fail'])]) if os.path.isdir(inp['cwd']) else None
        if res is None:   # the scratch directory of the original run is gone: same arguments from a fresh one
            d = Path(ctx.scratch, 'w', 'd1')
            d.mkdir(parents=True)
            inp = dict(inp, cwd=str(d))
            res = in_child(cli_stub.stub_main_cases, str(fw.SRC), [(inp['cwd'], inp['args'], inp['fail'])])
        seen, code, _ = res[0]
        out = inp['args'][1] if len(inp['args']) > 1 else None
        want = os.path.normpath(os.path.join(inp['cwd'], out if out is not None else 'HDR.out'))
        print('argv seen by main():', seen, 'exit status', code, '| requested output', want)
        f = fw.kernel_bools(ctx, 'replay', ['Model.CliPaths'], [f'argv_check {qconv.coq_bytes(inp["cwd"])} {qconv.coq_bytes(inp["args"][0])} {sopt(out)} {slist(seen or [])}'],
                            open_scope='string_scope')
        print('Coq model agrees:', not f)
        bad = seen is None or os.path.normpath(seen[2]) != want or (code != 0) != bool(inp['fail'])
    elif part == 'json':
        r = in_child(cli_stub.json_expr_cases, str(fw.SRC), [inp['out']])[0]
        c = in_child(cli_stub.client_json_cases, str(fw.SRC), [inp['out']])[0]
        print('GeophiresXResult.json_output_file_path:', c)
        p = Path(inp['out'])
        want = str(p.parent / (p.stem + '.json')) if p.name else None
        f = fw.kernel_bools(ctx, 'replay', ['Model.CliPaths'], [f'opt_eqb (json_path {qconv.coq_bytes(inp["out"])}) {sopt(r)}'], open_scope='string_scope')
        print('output argument', inp['out'], '-> JSON path of the implementation:', r, '| expected', want, '| Coq model json_path agrees:', not f)
        bad = r != want or c != r
    elif part == 'cli':
        ob = cli_case(ctx, 0, inp['text'], inp['cwd_rel'], inp['out'])
        print({k: ob[k] for k in ('cwd', 'inp', 'out', 'exit', 'new', 'dir_ok')})
        code = inp['sim_code']
        if code == 0 and ob['dir_ok']:
            ref = runner.run_many(ctx, [inp['text']], want_json=True)[0]
            bad = ob['exit'] != 0 or ob['new'] != sorted([ob['target'], ob['want_json']]) or masked(ob['report']) != masked(ref['report'])
        else:
            bad = ob['exit'] == 0 or bool(ob['new'])
        print('expected:', 'exit 0 and exactly the report and JSON at the requested path, report equal to the direct pipeline'
              if code == 0 and ob['dir_ok'] else 'non-zero exit status and no file')
    elif part == 'client':
        ref = runner.run_many(ctx, [inp['text']], want_json=True)[0]
        mode = 'relfile' if 'relative' in inp['mode'] else 'file' if inp['mode'].endswith('file') else 'params'
        with ProcessPoolExecutor(max_workers=1, initializer=runner._init_worker, initargs=(str(ctx.scratch),)) as ex:
            r = ex.submit(_client_job, (inp['text'], mode, str(ctx.scratch), str(fw.SRC))).result()
        print('client:', r['ok'], r['error'], '| direct:', ref['ok'], ref['error'])
        bad = r['ok'] != ref['ok'] or (r['ok'] and masked(r['report']) != masked(ref['report']))
    elif part == 'direct':
        root = Path(ctx.scratch, 'direct_replay')
        for d in ('w', 'pkg/sub', 'pkg/a.out'):
            (root / d).mkdir(parents=True)
        ref = runner.run_many(ctx, [inp['text']])[0]
        with ProcessPoolExecutor(max_workers=1, initializer=runner._init_worker, initargs=(str(ctx.scratch),)) as ex:
            r = ex.submit(_direct_job, (inp['text'], str(root / 'w'), str(root / 'pkg'), inp['out'], str(fw.SRC))).result()
        argv = ['', str(root / 'in.txt')] + ([inp['out']] if inp['out'] is not None else [])
        f = fw.kernel_bools(ctx, 'replay', ['Model.CliPaths'], [f'direct_check {qconv.coq_bytes(str(root / "w"))} {qconv.coq_bytes(str(root / "pkg"))} {slist(argv)} {slist(r["new"])}'],
                            open_scope='string_scope')
        print('files created:', r['new'], 'error:', r['error'], '| Coq model main_files agrees:', not f)
        reps = list(r['reports'].values())
        bad = bool(r['error']) or len(reps) != 1 or masked(reps[0]) != masked(ref['report']) or bool(f)
    elif part == 'hip-cli':
        ob = hip_process(ctx, 0, inp['text'], inp['inp_rel'], inp['out'])
        print({k: ob[k] for k in ('cwd', 'argv', 'exit', 'new', 'dir_ok')})
        if inp['sim_code'] == 0 and ob['dir_ok']:
            print('expected: exit 0 and the report at', ob['argv'][1])
            bad = ob['exit'] != 0 or ob['new'] != [ob['argv'][1]]
        else:
            print('expected: non-zero exit status and no report')
            bad = ob['exit'] == 0 or bool(ob['new'])
    elif part in ('hip-main', 'hip-content'):
        with ProcessPoolExecutor(max_workers=4, initializer=runner._init_worker, initargs=(str(ctx.scratch),)) as ex:
            part_hip(ctx, ex)
        bad = any(v.kind != 'property' or not v.key.startswith('hip-ra-x-cli:') for v in ctx.violations[before:])
        print('HIP-RA-X part re-run:', [v.key for v in ctx.violations[before:]])
        before = len(ctx.violations)
    elif part == 'twice':
        refs = runner.run_many(ctx, [inp['text_x'], inp['text_y']], want_json=True)
        with ProcessPoolExecutor(max_workers=2, initializer=runner._init_worker, initargs=(str(ctx.scratch),)) as ex:
            part_twice(ctx, [('x', inp['text_x']), ('y', inp['text_y'])], refs, ex)
        print('violations on re-run:', [v.key for v in ctx.violations[before:]])
        bad = False
    elif part in ('history', 'model-kw'):
        ok_text = inp.get('ok_text', BASE + 'End-Use Option, 2\n')
        ref = runner.run_many(ctx, [ok_text])[0]
        with ProcessPoolExecutor(max_workers=2, initializer=runner._init_worker, initargs=(str(ctx.scratch),)) as ex:
            part_histories(ctx, [('replay', ok_text)], [ref], ex)
        print('violations on re-run:', [v.key for v in ctx.violations[before:]])
        bad = False
    elif part == 'mc':
        ref = runner.run_many(ctx, [sampled_text(inp['text'], degenerate_input(inp['text']))])[0]
        with ProcessPoolExecutor(max_workers=1, initializer=runner._init_worker, initargs=(str(ctx.scratch),)) as ex:
            row = ex.submit(_mc_job, (inp['text'], inp['outputs'], degenerate_input(inp['text']), str(ctx.scratch), str(fw.SRC))).result()
        want = mc_row(ref['report'].splitlines(keepends=True), inp['outputs'], degenerate_input(inp['text']))
        print('work_package row:', repr(row), '| from the direct report:', repr(want))
        bad = row != want
    else:
        print('replay names a broken obligation, not an input:', data.get('what'))
        return 1
    print('property', 'VIOLATED' if bad else 'holds', 'on this input')
    return 1 if bad or len(ctx.violations) > before else 0
