"""C02 - energy flows balance at every time step and over every year."""
import math
import re
import types
from fractions import Fraction as F

from lib import configs, fastlit, flatcorr, framework as fw, runner, snapshot
from gen import energy_enums

TOL = F(1, 10 ** 9)
REQ = ['Model.Energy']
ENDUSE_CODES = [1, 2, 31, 32, 41, 42, 51, 52]
CORPUS = fw.VERIF / 'corpus' / 'C02'

META = {
    'props': 'Props/C02.v',
    'claimed': True,
    'level_text': (
        'Proof (Coq, axiom-free) about an executable model of the surface-plant energy bookkeeping, for every series length, '
        'lifetime, year index and time steps per year >= 1: heat extracted per step; conservation in the electricity / topping / '
        'bottoming / parallel branches; net = gross - pumping; heat-pump, chiller and direct-use relations; the district-heating '
        'daily split (geothermal + peaking = demand/24, geothermal <= interpolated well output <= any bound of the series, peaking '
        '>= 0); integrate_time_series_slice = composite trapezoid of the samples it has rescaled to one year x utilization, its '
        'linearity, hence NetkWh = TotalkWh - PumpingkWh and HeatkWhProduced = factor x HeatkWhExtracted year by year; remaining '
        'heat = initial - 3.6e-9 x prefix sum. Tied to the current source by kernel-evaluated correspondence with direct calls of the '
        'real helpers and by reflective checkers (soundness proved) evaluated in the kernel on hook snapshots of whole runs of every '
        'plant type and end-use option. PARTIAL: with add-ons / S-DAC-GT the economics add to the annual figures in place, so the '
        'clause "annual figure = integral x utilization" is refuted for those runs (C02_annual_is_integral_refuted, known finding) '
        'and proved for zero adjustment (C02_annual_is_integral_partial). Round 2: the utilization-efficiency and reinjection-temperature '
        'correlations of the four power-plant types (two ambient brackets x lower/upper quadratic, linear blend), the injection-temperature '
        'update and the plant entering temperature are inside the model (power_plant): continuity at the 15 degC bracket boundary, weights '
        'sum to 1, electricity = availability x etau x wells x flow, topping split at the modelled ReinjTemp, useful topping heat >= 0; '
        'recomputed by Coq on every power-plant snapshot (ElectricityProduced, HeatExtracted, HeatProduced, Tinj, TenteringPP, FirstLawEfficiency). '
        'SurfacePlantSUTRA is modelled (stride-2 sub-sampling, injected/produced/auxiliary split, 730-step annual sums): per-step balance, '
        'annual total = produced + auxiliary, annual produced = sum of max(simulated,0)/1e6; tied on tests/examples/SUTRAExample1.txt.'),
    'level_note': ('Trusted: Coq kernel + vm_compute; Python harness (snapshot observer, case writer). Float rounding is outside '
                   'the theorems (exact rationals) and bounded by the 1e-9 comparisons done inside Coq. Conversion-efficiency '
                   'correlations (availability, etau, reinjection temperature), wellbore and reservoir physics enter as snapshot '
                   'values. The AGS plant is not claimed; SUTRA is tied on the one example that ships with the repository.'),
    'technique': 'Coq proof about an executable Gallina model + kernel-evaluated correspondence with the implementation',
    'rule': ('(a) direct calls of integrate_time_series_slice, annual_electricity_pumping_power, remaining_reservoir_heat_content, '
             'electricity_heat_production, calc_util_factor on an exhaustive small integer domain (exact, tol 0) and on random '
             'non-neutral floats (tol 1e-9), compared inside Coq with the model; (b) whole runs through main() of corpus seeds, '
             'runnable examples and synthetic configurations covering every end-use x plant cell, lifetimes 1..35 (thorough: ..100), '
             '1..12 steps per year; every balance clause is a boolean Coq checker evaluated by vm_compute on the exact rational '
             'images of the snapshot floats. A run is non-trivial when its series vary in time and efficiency/utilization/COP are '
             'not 0/1; distinct = distinct (plant class, end-use, lifetime, steps per year) resp. distinct helper signatures'),
    'trusted_base': ['Coq 8.16.1 kernel + vm_compute (no native_compute)',
                     'all C02 theorems: Closed under the global context (no axioms)',
                     'hand-written model coq/Model/Energy.v tied to the SurfacePlant* code by direct-call correspondence and '
                     'snapshot checkers evaluated in the kernel (tools/props/C02.py, tools/lib/*.py: unverified Python)',
                     'coq/Gen/EnergyEnums.v regenerated from OptionList.EndUseOptions / PlantType on every run'],
    'modelled': ['SurfacePlant.integrate_time_series_slice (numpy slicing, np.trapz, the len==1 extrapolation branch)',
                 'SurfacePlant.electricity_heat_production', 'SurfacePlant.annual_electricity_pumping_power',
                 'SurfacePlant.remaining_reservoir_heat_content (np.add.accumulate)',
                 'SurfacePlantDistrictHeating.calc_util_factor (np.arange grid, np.interp)',
                 'inline formulas of SurfacePlantIndustrialHeat/HeatPump/AbsorptionChiller/DistrictHeating.Calculate',
                 'in-place update of the annual figures by EconomicsAddOns / EconomicsS_DAC_GT',
                 'SurfacePlant.reinjection_temperature, power_plant_entering_temperature and the coefficient tables of '
                 'SurfacePlant{SubcriticalORC,SupercriticalORC,SingleFlash,DoubleFlash}.Calculate (availability_water, a logarithm, is run data)',
                 'SurfacePlantSUTRA.Calculate (numpy stride slicing, boolean-mask assignment, Python round())'],
    'assumptions': ['IEEE rounding of intermediate operations is not modelled; model and code are compared at 1e-9 relative',
                    'availability (CoolProp-free but logarithmic), produced temperature and pumping power are taken from the run'],
    'fingerprint': [('src/geophires_x/SurfacePlant.py', 'SurfacePlant.integrate_time_series_slice'),
                    ('src/geophires_x/SurfacePlant.py', 'SurfacePlant.electricity_heat_production'),
                    ('src/geophires_x/SurfacePlant.py', 'SurfacePlant.annual_electricity_pumping_power'),
                    ('src/geophires_x/SurfacePlant.py', 'SurfacePlant.remaining_reservoir_heat_content'),
                    ('src/geophires_x/SurfacePlantDistrictHeating.py', 'SurfacePlantDistrictHeating.calc_util_factor'),
                    ('src/geophires_x/SurfacePlant.py', 'SurfacePlant.reinjection_temperature'),
                    ('src/geophires_x/SurfacePlant.py', 'SurfacePlant.power_plant_entering_temperature'),
                    ('src/geophires_x/SurfacePlantSubcriticalORC.py', 'SurfacePlantSubcriticalOrc.Calculate'),
                    ('src/geophires_x/SurfacePlantSupercriticalORC.py', 'SurfacePlantSupercriticalOrc.Calculate'),
                    ('src/geophires_x/SurfacePlantSingleFlash.py', 'SurfacePlantSingleFlash.Calculate'),
                    ('src/geophires_x/SurfacePlantDoubleFlash.py', 'SurfacePlantDoubleFlash.Calculate'),
                    ('src/geophires_x/SurfacePlantSUTRA.py', 'SurfacePlantSUTRA.Calculate'),
                    ('src/geophires_x/SurfacePlantHeatPump.py', 'SurfacePlantHeatPump.Calculate'),
                    ('src/geophires_x/SurfacePlantAbsorptionChiller.py', 'SurfacePlantAbsorptionChiller.Calculate'),
                    ('src/geophires_x/SurfacePlantIndustrialHeat.py', 'SurfacePlantIndustrialHeat.Calculate'),
                    ('src/geophires_x/SurfacePlantDistrictHeating.py', 'SurfacePlantDistrictHeating.Calculate')],
}
GENERATORS = (energy_enums.generate,)


# ------------------------------------------------------------------------------------------------------------------
# direct calls of the real helpers
# ------------------------------------------------------------------------------------------------------------------

def _impl():
    import numpy as np
    import geophires_x.Model  # noqa: F401  (circular import: Model first)
    from geophires_x.OptionList import EndUseOptions
    from geophires_x.SurfacePlant import SurfacePlant
    from geophires_x.SurfacePlantDistrictHeating import SurfacePlantDistrictHeating
    eu = {m.int_value: m for m in EndUseOptions}
    return types.SimpleNamespace(np=np, SP=SurfacePlant, DH=SurfacePlantDistrictHeating, eu=eu)


def _call(fn, *args):
    """res tuple of a helper call: RuntimeError -> 5, non-finite output -> 6 (numpy does not raise)."""
    import warnings
    try:
        with warnings.catch_warnings():
            warnings.simplefilter('ignore')
            r = flatcorr.call_impl(fn, *args)
    except RuntimeError:
        return ('E', 5)
    if r[0] == 'V':
        try:
            r = ('V', flatcorr.flatten(r[1]))
        except ValueError:
            return ('E', 6)
    return r


def _arr(I, xs):
    return I.np.array([float(x) for x in xs], dtype=float)


def _dq(x):
    """the short decimal a synthetic float was written as (DESIGN 2.2): small Coq literal, equal to the float up to its own
    rounding; exact for the integers / dyadics of the exact regime"""
    return x if isinstance(x, F) else F(repr(float(x)))


def integrate_case(I, series, i, k, util, regime):
    r = _call(I.SP.integrate_time_series_slice, _arr(I, series), i, k, float(util))
    n, start = len(series), i * k
    shape = ('beyond' if start >= n else 'single-flat' if start == n - 1 and start < 2 else
             'single-extrapolated' if start == n - 1 else 'short' if n - 1 - start < k else 'full')
    return {'flat': [F(i), F(k), _dq(util)] + [_dq(x) for x in series], 'impl': r, 'fn': 'integrate',
            'desc': {'fn': 'integrate_time_series_slice', 'series': [float(x) for x in series], 'i': i, 'k': k,
                     'util': float(util), 'regime': regime},
            'nontrivial': (shape, k, min(i, 3), regime) if len(set(series)) > 1 else None, 'shape': shape}


def annual_case(I, code, life, k, util, he, pump, el, net, hp):
    r = _call(lambda: I.SP.annual_electricity_pumping_power(None, life, I.eu[code], _arr(I, he), k, float(util), _arr(I, pump),
                                                            _arr(I, el), _arr(I, net), _arr(I, hp)))
    flat = [F(code), F(life), F(k), _dq(util), F(len(he)), F(len(hp))]
    for s in (he, pump, el, net, hp):
        flat += [_dq(x) for x in s]
    return {'flat': flat, 'impl': r, 'fn': 'annual',
            'desc': {'fn': 'annual_electricity_pumping_power', 'enduse': code, 'life': life, 'k': k, 'util': float(util),
                     'he': list(map(float, he)), 'pump': list(map(float, pump)), 'el': list(map(float, el)),
                     'net': list(map(float, net)), 'hp': list(map(float, hp))},
            'nontrivial': (code, life, k)}


def remaining_case(I, init, kwh):
    r = _call(lambda: I.SP.remaining_reservoir_heat_content(None, float(init), _arr(I, kwh)))
    return {'flat': [_dq(init)] + [_dq(x) for x in kwh], 'impl': r, 'fn': 'remaining',
            'desc': {'fn': 'remaining_reservoir_heat_content', 'init': float(init), 'kwh': list(map(float, kwh))},
            'nontrivial': len(kwh) if len(kwh) > 1 else None}


def ehp_case(I, code, n, m, cp, tinj, tchp, eff, chpf, avail, etau, tprod, reinj):
    r = _call(lambda: I.SP.electricity_heat_production(None, I.eu[code], _arr(I, avail), _arr(I, etau), n, float(m), float(cp),
                                                       _arr(I, tprod), float(tinj), _arr(I, reinj), float(tchp), float(eff),
                                                       float(chpf)))
    flat = [F(code), F(n)] + [_dq(x) for x in (m, cp, tinj, tchp, eff, chpf)] + \
           [F(len(avail)), F(len(etau)), F(len(tprod)), F(len(reinj))]
    for s in (avail, etau, tprod, reinj):
        flat += [_dq(x) for x in s]
    return {'flat': flat, 'impl': r, 'fn': 'ehp',
            'desc': {'fn': 'electricity_heat_production', 'enduse': code, 'nprod': n, 'flow': float(m), 'cp': float(cp),
                     'tinj': float(tinj), 'tchp': float(tchp), 'eff': float(eff), 'chpf': float(chpf),
                     'avail': list(map(float, avail)), 'etau': list(map(float, etau)), 'tprod': list(map(float, tprod)),
                     'reinj': list(map(float, reinj))},
            'nontrivial': (code, r[0], min(len(tprod), 3))}


def dh_case(I, life, k, fp, demand):
    stub = types.SimpleNamespace(plant_lifetime=types.SimpleNamespace(value=life),
                                 daily_heating_demand=types.SimpleNamespace(value=_arr(I, demand)))
    r = _call(lambda: I.DH.calc_util_factor(stub, _arr(I, fp), k))
    return {'flat': [F(life), F(k), F(len(fp))] + [_dq(x) for x in fp] + [_dq(x) for x in demand], 'impl': r, 'fn': 'dh',
            'desc': {'fn': 'calc_util_factor', 'life': life, 'k': k, 'heat_produced': list(map(float, fp)),
                     'daily_demand': list(map(float, demand))},
            'nontrivial': (life, k, r[0])}


COEF_ORDER = ['C01', 'C11', 'C21', 'D01', 'D11', 'D21', 'C02', 'C12', 'C22', 'D02', 'D12', 'D22']
PLANT_FILES = {1: 'SurfacePlantSubcriticalORC.py', 2: 'SurfacePlantSupercriticalORC.py', 3: 'SurfacePlantSingleFlash.py',
               4: 'SurfacePlantDoubleFlash.py'}
_LOGSTUB = types.SimpleNamespace(logger=types.SimpleNamespace(warning=lambda *a, **k: None, info=lambda *a, **k: None))


def reinj_case(I, amb, tinj, coefs, tpp, plant=None):
    """reinjection_temperature on explicit coefficients (plant=None: compared with the generic model; plant=code: the
    coefficients were read from that plant's Calculate and the model uses ITS OWN table)"""
    r = _call(lambda: I.SP.reinjection_temperature(None, _LOGSTUB, float(amb), _arr(I, tpp), float(tinj), *[float(c) for c in coefs]))
    desc = {'fn': 'reinjection_temperature', 'amb': float(amb), 'tinj': float(tinj), 'coefs': [float(c) for c in coefs],
            'tpp': list(map(float, tpp)), 'plant': plant}
    if plant is None:
        flat = [_dq(amb), _dq(tinj)] + [_dq(c) for c in coefs] + [_dq(x) for x in tpp]
        return {'flat': flat, 'impl': r, 'fn': 'reinj', 'desc': desc, 'nontrivial': ('generic', amb < 15, r[0], min(len(tpp), 3))}
    if r[0] == 'V':
        r = ('V', r[1][1:])     # the plant-table model returns ReinjTemp ++ etau (Tinj' is covered by the generic cases)
    return {'flat': [F(plant), _dq(amb)] + [_dq(x) for x in tpp], 'impl': r, 'fn': 'plantcorr', 'desc': desc,
            'nontrivial': (plant, amb < 15)}


def source_coeffs():
    """{plant code: (low bracket, high bracket)} each a list in COEF_ORDER, read from the `if ambient_temperature < 15.` of the four
    Calculate methods; None when the source no longer has that shape (the snapshot clause still ties the tables then)."""
    import ast
    out = {}
    try:
        for code, fname in PLANT_FILES.items():
            tree = ast.parse((fw.SRC / 'geophires_x' / fname).read_text())
            ifs = [n for n in ast.walk(tree) if isinstance(n, ast.If) and 'ambient_temperature' in ast.unparse(n.test)
                   and ast.unparse(n.test).replace(' ', '').endswith('<15.0')]
            if len(ifs) != 1:
                return None
            br = []
            for body in (ifs[0].body, ifs[0].orelse):
                d = {st.targets[0].id: float(ast.literal_eval(st.value)) for st in body}
                br.append([d[k] for k in COEF_ORDER])
            out[code] = tuple(br)
    except Exception:
        return None
    return out


def _demand(rnd, base, amp):
    """seasonal daily demand [MWh/day], short decimals"""
    return [round(24 * max(0.0, base + amp * math.cos(2 * math.pi * j / 365) + rnd.uniform(-0.5, 0.5)), 2) for j in range(365)]


def helper_cases(ctx):
    I = _impl()
    rnd = ctx.rng
    fl = lambda lo, hi: rnd.uniform(lo, hi)
    series = lambda n, lo, hi: [float('%.4g' % fl(lo, hi)) for _ in range(n)]
    cases = []
    # integrate: exhaustive small integer domain (all float operations exact when dx_steps is a power of two)
    for n in range(0, ctx.n(8, 11)):
        s = [((7 * j * j + 3 * j + 2) % 23) + 1 for j in range(n)]
        for k in (1, 2, 3, 4):
            for i in range(0, n // k + 2):
                dxs = max(1, min(k, n - 1 - i * k))
                cases.append(integrate_case(I, s, i, k, F(3, 4), 'exact' if dxs in (1, 2, 4) else 'float'))
    for _ in range(ctx.n(200, 3000)):
        k = rnd.choice([1, 1, 2, 3, 4, 6, 12, 52])
        life = rnd.choice([1, 2, 3, 5, 10, 30] + ([] if ctx.quick else [60, 100]))
        n = max(0, life * k + rnd.choice([0, 0, 0, 1, -1, -k]))
        i = rnd.choice([0, life - 1, life - 1, rnd.randint(0, life - 1), rnd.randint(0, life - 1), life])
        cases.append(integrate_case(I, series(n, 1, 90), i, k, round(fl(0.5, 0.99), 3), 'float'))
    # annual_electricity_pumping_power: five distinct series, every end-use option
    for _ in range(ctx.n(80, 1000)):
        code = rnd.choice(ENDUSE_CODES)
        life, k = rnd.choice([1, 2, 3, 5, 10]), rnd.choice([1, 2, 4, 12])
        n = life * k + rnd.choice([0, 0, 1])
        cases.append(annual_case(I, code, life, k, round(fl(0.5, 0.99), 3), series(n, 40, 90), series(n, 0.1, 3), series(n, 3, 9),
                                 series(n, 1, 6), series(n, 5, 30) if code != 1 else []))
    # remaining heat content
    for _ in range(ctx.n(80, 500)):
        cases.append(remaining_case(I, round(fl(50, 900), 3), series(rnd.choice([0, 1, 2, 3, 7, 30, 100]), 1e7, 2e9)))
    # electricity_heat_production: every end-use option, error branches
    for _ in range(ctx.n(160, 2500)):
        code = rnd.choice(ENDUSE_CODES)
        n = rnd.choice([1, 2, 3, 5, 8])
        la = n
        r = rnd.random()
        sign = -1 if r < 0.08 else 1
        if 0.08 <= r < 0.12:
            n, la = 0, 0
        elif 0.12 <= r < 0.16 and n >= 2:
            la = n + 2          # shape mismatch between availability and etau (both >= 2: no broadcasting)
        avail = [sign * x for x in series(la, 0.02, 0.2)]
        if 0.16 <= r < 0.2:
            avail = [0.0] * la  # max() == 0 is not negative
        nr = n + 2 if (0.2 <= r < 0.24 and n >= 2) else n
        cases.append(ehp_case(I, code, rnd.randint(1, 5), round(fl(20, 110), 1), round(fl(3900, 4300), 2), round(fl(30, 80), 1),
                              round(fl(90, 150), 1), round(fl(0.5, 0.95), 2), round(fl(0.1, 0.9), 2), avail, series(n, 0.05, 0.2),
                              series(n, 120, 300), series(nr, 60, 95)))
    # reinjection_temperature: random coefficients, both brackets, the Tinj update in both directions, empty series
    for idx in range(ctx.n(80, 1000)):
        amb = rnd.choice([-5, 0, 5, 10, 14.9, 15, 15.1, 20, 25, 30, round(fl(0, 30), 1)])
        n = rnd.choice([1, 2, 3, 6]) if idx else 0
        coefs = [float('%.4g' % fl(-0.2, 0.4)), float('%.4g' % fl(0.001, 0.01)), float('%.3g' % fl(-2e-5, 2e-5))] * 2 + \
                [round(fl(-10, 70), 2), round(fl(0.01, 0.8), 4), float('%.4g' % fl(-1.2e-3, 0))] * 2
        coefs[3:6] = [float('%.4g' % fl(-0.2, 0.4)), float('%.4g' % fl(0.001, 0.01)), float('%.3g' % fl(-2e-5, 2e-5))]
        coefs[9:12] = [round(fl(-10, 70), 2), round(fl(0.01, 0.8), 4), float('%.4g' % fl(-1.2e-3, 0))]
        cases.append(reinj_case(I, amb, rnd.choice([30, 50, 70, 90, 150]), coefs, series(n, 90, 320)))
    # the four plants' coefficient tables as they stand in the source against the model's tables
    src = source_coeffs()
    if src is None:
        ctx.note('the ambient-temperature bracket tables could not be read from the plant sources; tables tied by snapshots only')
    else:
        for code, (low, high) in sorted(src.items()):
            for amb in [0, 5, 10, 14.9, 15, 15.1, 20, 25, 32] + [round(fl(0, 30), 1) for _ in range(ctx.n(3, 20))]:
                cases.append(reinj_case(I, amb, -1000.0, low if amb < 15 else high, series(4, 90, 330), plant=code))
    # district heating day-by-day split
    for idx in range(ctx.n(10, 60)):
        life, k = rnd.choice([1, 2, 3]), rnd.choice([1, 2, 4, 12])
        fp = [round(x, 3) for x in series(life * k + rnd.choice([0, 0, 1]), 8, 30)]
        dem = _demand(rnd, rnd.uniform(8, 25), rnd.uniform(3, 15))
        if idx == 0:
            fp = [0.0] * len(fp)       # zero well output: numpy yields nan
        if idx == 1:
            dem = dem[:364]            # IndexError on the last day
        if idx == 2:
            fp = []                    # np.interp on empty arrays
        cases.append(dh_case(I, life, k, fp, dem))
    return cases


HELPER_PARTS = [('integrate', 'run_integrate'), ('annual', 'run_annual_epp'), ('remaining', 'run_remaining'),
                ('ehp', 'run_ehp'), ('dh', 'run_dh'), ('reinj', 'run_reinj'), ('plantcorr', 'run_plant_corr')]
HELPER_WHAT = {
    'integrate': 'integrate_time_series_slice is not the trapezoid integral x utilization proved of the model (C02_integral)',
    'annual': 'annual_electricity_pumping_power does not integrate the corresponding power series (C02_annual_figures)',
    'remaining': 'remaining_reservoir_heat_content is not initial - 3.6e-9 x cumulative extracted heat (C02_remaining)',
    'ehp': 'electricity_heat_production breaks the per-step balance proved of the model (C02_conservation)',
    'dh': 'calc_util_factor breaks the district-heating supply split proved of the model (C02_dh)',
    'reinj': 'reinjection_temperature is not the blended correlation / injection-temperature update of the model (C02_tinj_update)',
    'plantcorr': 'the efficiency / reinjection correlation table of a power-plant type differs from the model (C02_corr_continuous)',
}


def _helper_key(c):
    d = c['desc']
    extra = {'integrate': lambda: c['shape'], 'annual': lambda: 'enduse=%s' % d['enduse'], 'remaining': lambda: 'n=%d' % len(d['kwh']),
             'ehp': lambda: 'enduse=%s' % d['enduse'], 'dh': lambda: 'k=%s' % d['k'],
             'reinj': lambda: 'low' if d['amb'] < 15 else 'high',
             'plantcorr': lambda: 'plant=%s:%s' % (d['plant'], 'low' if d['amb'] < 15 else 'high')}[c['fn']]()
    return 'helper:%s:%s' % (d['fn'], extra)


def run_helpers(ctx, cases):
    from concurrent.futures import ThreadPoolExecutor
    jobs = []
    for fn, run in HELPER_PARTS:
        for regime, tol in (('exact', F(0)), ('float', TOL)):
            sel = [c for c in cases if c['fn'] == fn and c['desc'].get('regime', 'float') == regime]
            if sel:
                jobs.append((fn, run, regime, tol, sel, 1 if fn == 'dh' else 40))
    # the parts are evaluated concurrently (each is a handful of coqc shards); the accounting stays in a fixed order
    with ThreadPoolExecutor(max_workers=4) as ex:
        verdicts = list(ex.map(lambda j: fastlit.kernel_cases(ctx, f'{j[0]}-{j[2]}', REQ, j[1], j[3],
                                                               [(c['flat'], flatcorr.res_of(c['impl'])) for c in j[4]], j[5]), jobs))
    for (fn, run, regime, tol, sel, shard), failing in zip(jobs, verdicts):
        fastlit.run(ctx, f'{fn}-{regime}', REQ, run, tol, sel, kind='property', key_of=_helper_key, what=HELPER_WHAT[fn],
                    shard=shard, failing=failing)
    errs = [c['fn'] for c in cases if c['impl'][0] == 'E']
    ctx.count('helper-errors', error_cases={fn: errs.count(fn) for fn in set(errs)})


# ------------------------------------------------------------------------------------------------------------------
# whole runs: every balance clause is a Coq checker evaluated in the kernel on the hook snapshot
# ------------------------------------------------------------------------------------------------------------------

ELECTRIC = {'SurfacePlantSubcriticalOrc', 'SurfacePlantSupercriticalOrc', 'SurfacePlantSingleFlash', 'SurfacePlantDoubleFlash'}
HEATING = {'SurfacePlantIndustrialHeat', 'SurfacePlantHeatPump', 'SurfacePlantAbsorptionChiller', 'SurfacePlantDistrictHeating'}
CLAUSE_WHAT = {
    'extracted': 'HeatExtracted[t] != nprod x flow x cp x (Tprod[t] - Tinj) / 1e6',
    'net': 'NetElectricityProduced[t] != ElectricityProduced[t] - PumpingPower[t]',
    'conservation': 'heat towards electricity (Net/FirstLawEfficiency) + HeatProduced/efficiency != HeatExtracted',
    'bottoming': 'bottoming cycle: HeatProduced != eff x nprod x flow x cp x (Tprod - T_chp_bottom) / 1e6',
    'parallel': 'parallel cycle: HeatProduced != eff x chp_fraction x HeatExtracted',
    'direct-use': 'HeatProduced != HeatExtracted x end-use efficiency',
    'heatpump': 'heat pump: HeatProduced != (HeatExtracted + W) x eff with W = HeatExtracted/(COP-1)',
    'chiller': 'absorption chiller: HeatProduced != HeatExtracted or cooling != heat x COP x eff',
    'dh-split': 'district heating: geothermal + peaking != demand/24, geothermal > well output, or peaking < 0',
    'annual-extracted': 'HeatkWhExtracted[y] != integral of HeatExtracted over year y x utilization',
    'annual-pumping': 'PumpingkWh[y] != integral of PumpingPower over year y x utilization',
    'annual-total': 'TotalkWhProduced[y] != integral of ElectricityProduced over year y x utilization',
    'annual-net': 'NetkWhProduced[y] != integral of NetElectricityProduced over year y x utilization',
    'annual-heat': 'HeatkWhProduced[y] != integral of HeatProduced over year y x utilization',
    'annual-heatpump-electricity': 'heat_pump_electricity_kwh_used[y] != integral of heat_pump_electricity_used x utilization',
    'annual-cooling': 'cooling_kWh_Produced[y] != integral of cooling_produced over year y x utilization',
    'annual-heat-zero': 'HeatkWhProduced is not zero for a pure electricity plant',
    'remaining': 'RemainingReservoirHeatContent[y] != initial - 3.6e-9 x cumulative HeatkWhExtracted',
    'sutra-step': 'SUTRA: HeatInjected/HeatProduced/AuxiliaryHeatProduced/TotalHeatProduced[t] != the split of every second SimulatedHeat '
                  '/ TargetHeat entry (injected + produced = simulated, auxiliary = max(0, target - simulated), total = produced + auxiliary)',
    'sutra-annual': 'SUTRA: an annual heat figure / PumpingkWh != sum of the power series over the 730 steps of that year x time step',
    'sutra-globals': 'SUTRA: SUTRATimeStep != T_end/len, number of years != round(T_end/8766), or max_peaking_boiler_demand != max annual auxiliary',
    'first-law-efficiency': 'FirstLawEfficiency[t] x modelled heat towards electricity != NetElectricityProduced[t]',
    'power-plant': 'TenteringPP / injection temperature / ElectricityProduced / HeatExtracted / HeatProduced != the power-plant model '
                   '(etau and ReinjTemp correlations x availability x flow; topping split at the modelled ReinjTemp)',
}


def _fin(xs):
    return all(isinstance(x, (int, float)) and math.isfinite(x) for x in xs)


class RunTerms:
    """Coq terms of the clauses of one run: series are let-bound once and shared by the clauses."""

    def __init__(self, snap):
        s = snapshot.S(snap)
        self.s, self.cls = s, snap['surfaceplant']['__class__']
        self.binds, self.clauses, self.skipped, self.findings, self.tag, self.offs = [], [], [], [], '', (0.0, 0.0)
        self.eu = s.v('surfaceplant', 'enduse_option')['int']
        self.life, self.k = int(s.v('surfaceplant', 'plant_lifetime')), int(s.v('economics', 'timestepsperyear'))

    def series(self, name, values):
        values = list(values) if isinstance(values, (list, tuple)) else [values]
        if not _fin(values):
            raise ValueError(name)
        self.binds.append(f'let {name} := {fastlit.qlist(values)} in')
        return name

    def sp(self, attr):
        return self.s.v('surfaceplant', attr)

    def clause(self, name, term):
        self.clauses.append((name, term))

    def term(self, only=None):
        cs = [t for n, t in self.clauses if only is None or n == only]
        return '(' + '\n '.join(self.binds) + '\n forallb (fun b : bool => b) [' + '; '.join(cs) + '])'


def _offsets(s, life, eu):
    """what the add-on / S-DAC-GT economics added in place to Total/Net kWh and to HeatkWhProduced, per year"""
    offs_e, offs_h, why = [0.0] * life, [0.0] * life, set()
    if s.has('economics', 'DoAddOnCalculations') and s.v('economics', 'DoAddOnCalculations') and s.has('addeconomics'):
        ge, gh = float(s.v('addeconomics', 'AddOnElecGainedTotalPerYear')), float(s.v('addeconomics', 'AddOnHeatGainedTotalPerYear'))
        for i in range(life):
            if eu != 2:
                offs_e[i] += ge
            if eu != 1:
                offs_h[i] += gh
        if (ge and eu != 2) or (gh and eu != 1):
            why.add('addon')
    if s.has('economics', 'DoSDACGTCalculations') and s.v('economics', 'DoSDACGTCalculations') and s.has('sdacgteconomics'):
        ce = s.v('sdacgteconomics', 'CarbonExtractedAnnually')
        el, th = float(s.v('sdacgteconomics', 'elec')), float(s.v('sdacgteconomics', 'therm'))
        for i in range(min(life, len(ce))):
            if eu != 2:
                offs_e[i] -= ce[i] * el
            if eu != 1:
                offs_h[i] -= ce[i] * th
        why.add('sdac')
    return offs_e, offs_h, sorted(why)


def sutra_terms(snap, years):
    """SUTRA plant: one unit for the scalars, one for the last step, one per checked year (730 steps = 1460 profile entries)."""
    s = snapshot.S(snap)
    T, q = fastlit.q(TOL), fastlit.q
    tp, tg, sm = (s.v('reserv', a) for a in ('TimeProfile', 'TargetHeat', 'SimulatedHeat'))
    sp = lambda a: s.v('surfaceplant', a)
    dt, pump = sp('SUTRATimeStep'), s.v('wellbores', 'PumpingPower')
    names = ('HeatInjected', 'HeatProduced', 'AuxiliaryHeatProduced', 'TotalHeatProduced')
    ann = ('AnnualHeatInjected', 'AnnualHeatProduced', 'AnnualAuxiliaryHeatProduced', 'AnnualTotalHeatProduced', 'PumpingkWh')
    nyears, units = len(sp('AnnualTotalHeatProduced')), []

    def unit(tag):
        R = RunTerms(snap)
        R.k, R.tag = 0, tag
        units.append(R)
        return R
    R = unit('globals')
    R.clause('sutra-globals', f'check_sutra_globals {T} {q(tp[-1])} {len(tp)}%nat {q(dt)} {nyears}%nat '
                              f'{R.series("annaux", sp("AnnualAuxiliaryHeatProduced"))} {q(sp("max_peaking_boiler_demand"))}')
    R = unit('last-step')
    R.clause('sutra-step', f'check_sutra_points {T} {q(dt)} {R.series("tg", tg[-1:])} {R.series("sm", sm[-1:])} ' +
             ' '.join(R.series(n, sp(n)[-1:]) for n in names))
    for y in (range(nyears) if years is None else sorted({y for y in years if y < nyears})):
        R = unit(f'year{y}')
        lo, hi = y * 730, (y + 1) * 730
        ser = [R.series(n, sp(n)[lo:hi]) for n in names]
        R.clause('sutra-step', f'check_sutra_points {T} {q(dt)} {R.series("tg", tg[2 * lo:2 * hi])} {R.series("sm", sm[2 * lo:2 * hi])} '
                 + ' '.join(ser))
        R.clause('sutra-annual', f'check_sutra_year {T} {q(dt)} ' + ' '.join(ser) + f' {R.series("pump", pump[lo:hi])} '
                 + R.series('annual', [sp(a)[y] for a in ann]))
    return units


def run_terms(snap, years=None):
    """-> RunTerms for a claimed plant class (a list of them for SUTRA), None otherwise.  Raises ValueError(name) on a
    non-finite input series."""
    R = RunTerms(snap)
    if R.cls == 'SurfacePlantSUTRA':
        return sutra_terms(snap, years)
    if R.cls not in ELECTRIC | HEATING:
        return None
    s, T, q = R.s, fastlit.q(TOL), fastlit.q
    life, k, eu = R.life, R.k, R.eu
    n, m, cp = s.v('wellbores', 'nprod'), s.v('wellbores', 'prodwellflowrate'), s.v('reserv', 'cpwater')
    tinj, eff = s.v('wellbores', 'Tinj'), R.sp('enduse_efficiency_factor')
    tprod, pump = R.series('tprod', s.v('wellbores', 'ProducedTemperature')), R.series('pump', s.v('wellbores', 'PumpingPower'))
    he, hekwh = R.series('he', R.sp('HeatExtracted')), R.series('hekwh', R.sp('HeatkWhExtracted'))
    pumpkwh, rem = R.series('pumpkwh', R.sp('PumpingkWh')), R.series('rem', R.sp('RemainingReservoirHeatContent'))
    offs_e, offs_h, why = _offsets(s, life, eu)
    R.findings, R.offs = why, (offs_e[0] if offs_e else 0.0, offs_h[0] if offs_h else 0.0)
    zeros, offe, offh = R.series('zeros', [0.0] * life), R.series('offe', offs_e), R.series('offh', offs_h)
    R.clause('extracted', f'check_extracted {T} {q(n)} {q(m)} {q(cp)} {q(tinj)} {tprod} {he}')
    dh = R.cls == 'SurfacePlantDistrictHeating'
    if dh:
        utils = R.series('utils', R.sp('util_factor_array'))
        ann = lambda ser, offs, rep: f'check_annual_u {T} {ser} {k}%nat {utils} {offs} {rep}'
    else:
        util = q(R.sp('utilization_factor'))
        ann = lambda ser, offs, rep: f'check_annual {T} {ser} {life}%nat {k}%nat {util} {offs} {rep}'
    R.clause('annual-extracted', ann(he, zeros, hekwh))
    R.clause('annual-pumping', ann(pump, zeros, pumpkwh))
    R.clause('remaining', f'check_remaining {T} {q(s.v("reserv", "InitialReservoirHeatContent"))} {hekwh} {rem}')
    heatkwh = R.series('heatkwh', R.sp('HeatkWhProduced'))
    if R.cls in ELECTRIC:
        el, net = R.series('el', R.sp('ElectricityProduced')), R.series('net', R.sp('NetElectricityProduced'))
        R.clause('net', f'check_net {T} {el} {pump} {net}')
        R.clause('annual-total', ann(el, offe, R.series('totkwh', R.sp('TotalkWhProduced'))))
        R.clause('annual-net', ann(net, offe, R.series('netkwh', R.sp('NetkWhProduced'))))
        hp = R.series('hp', R.sp('HeatProduced'))
        fle = R.sp('FirstLawEfficiency')
        fle = R.series('fle', [x if math.isfinite(x) else 0.0 for x in (fle if isinstance(fle, list) else [fle])])
        R.clause('conservation', f'check_conservation {T} {q(eff if eu != 1 else 1)} {he} {hp} {net} {fle}')
        if eu == 1:
            R.clause('annual-heat-zero', f'check_zero {heatkwh}')
        else:
            R.clause('annual-heat', ann(hp, offh, heatkwh))
        R.clause('power-plant',
                 f'match plant_of_code {int(R.sp("plant_type")["int"])}%Z, enduse_of_code {eu}%Z with Some p, Some e => '
                 f'check_power_plant {T} p e {q(R.sp("ambient_temperature"))} {R.series("avail", R.sp("Availability"))} {q(n)} {q(m)} {q(cp)} '
                 f'{tprod} {q(tinj)} {q(R.sp("T_chp_bottom"))} {q(eff)} {q(R.sp("chp_fraction"))} {R.series("tpp", R.sp("TenteringPP"))} '
                 f'{el} {he} {hp} | _, _ => false end')
        R.clause('first-law-efficiency',
                 f'match plant_of_code {int(R.sp("plant_type")["int"])}%Z, enduse_of_code {eu}%Z with Some p, Some e => '
                 f'check_fle {T} p e {q(R.sp("ambient_temperature"))} avail {q(n)} {q(m)} {q(cp)} {tprod} {q(tinj)} '
                 f'{q(R.sp("T_chp_bottom"))} {q(eff)} {q(R.sp("chp_fraction"))} {net} {fle} | _, _ => false end')
        if eu in (41, 42):
            R.clause('bottoming', f'check_bottoming {T} {q(eff)} {q(n)} {q(m)} {q(cp)} {q(R.sp("T_chp_bottom"))} {tprod} {hp}')
        if eu in (51, 52):
            R.clause('parallel', f'check_scaled {T} ({q(eff)} * {q(R.sp("chp_fraction"))}) {he} {hp}')
    else:
        hp = R.series('hp', R.sp('HeatProduced'))
        R.clause('annual-heat', ann(hp, offh, heatkwh))
        if R.cls == 'SurfacePlantHeatPump':
            w = R.series('w', R.sp('heat_pump_electricity_used'))
            R.clause('heatpump', f'check_heatpump {T} {q(R.sp("heat_pump_cop"))} {q(eff)} {he} {hp} {w}')
            R.clause('annual-heatpump-electricity', ann(w, zeros, R.series('wkwh', R.sp('heat_pump_electricity_kwh_used'))))
        elif R.cls == 'SurfacePlantAbsorptionChiller':
            cool = R.series('cool', R.sp('cooling_produced'))
            R.clause('chiller', f'check_chiller {T} {q(R.sp("absorption_chiller_cop"))} {q(eff)} {he} {hp} {cool}')
            R.clause('annual-cooling', ann(cool, zeros, R.series('coolkwh', R.sp('cooling_kWh_Produced'))))
        else:
            R.clause('direct-use', f'check_scaled {T} {q(eff)} {he} {hp}')
        if dh:
            dem, geo = R.series('demand', R.sp('daily_heating_demand')), R.series('geo', R.sp('dh_geothermal_heating'))
            ng, annng = R.series('ng', R.sp('dh_natural_gas_heating')), R.series('annng', R.sp('annual_ng_demand'))
            R.clause('dh-split', f'check_dh {T} {life}%nat {k}%nat {hp} {dem} {geo} {ng} {utils} {q(R.sp("utilization_factor"))} '
                                 f'{annng} {q(R.sp("max_peaking_boiler_demand"))}')
    return R


def _kernel_bools(ctx, name, terms, shard):
    def body(lo, hi):
        return 'let l := [\n ' + ';\n '.join(terms[lo:hi]) + '] in (List.length l, mismatches (fun b : bool => b) 0 l)'
    return fw.kernel_eval(ctx, name, ['Base.Flat'] + REQ, body, len(terms), shard)


def check_runs(ctx, part, labelled_texts, report=True, batch=128):
    """Run the inputs through main(), evaluate every clause in the kernel.  -> list of (label, text, failing clauses).
    Batches bound the memory held in snapshots and Coq terms (the thorough tier runs several hundred inputs)."""
    out = []
    for lo in range(0, len(labelled_texts), batch):
        out += _check_batch(ctx, part, labelled_texts[lo:lo + batch], report)
    return out


def _check_batch(ctx, part, labelled_texts, report):
    results = runner.run_many(ctx, [t for _, t in labelled_texts])
    items, dist = [], {}
    for (label, text), r in zip(labelled_texts, results):
        if r['snap'] is None or 'surfaceplant' not in r['snap']:
            dist['rejected-or-crashed-before-the-hook'] = dist.get('rejected-or-crashed-before-the-hook', 0) + 1
            continue
        try:
            R = run_terms(r['snap'], years=(0, 29) if ctx.quick else None)
        except ValueError as e:
            dist['non-finite series ' + str(e)] = dist.get('non-finite series ' + str(e), 0) + 1
            continue
        except KeyError as e:   # an output the clauses need is no longer there: the tie is broken, not the property
            ctx.violate('corr', f'snapshot-missing:{e}', f'snapshot of {label} lacks {e}', inp={'kind': 'run', 'label': label, 'text': text})
            continue
        if R is None:
            dist['plant class not claimed'] = dist.get('plant class not claimed', 0) + 1
            continue
        for U in (R if isinstance(R, list) else [R]):
            items.append((label + ('#' + U.tag if U.tag else ''), text, U))
    failing = _kernel_bools(ctx, part, [R.term() for _, _, R in items], shard=max(1, min(4, len(items) // 16)))
    out = []
    diag = failing[:6]      # the failing clauses of the first few failing runs identify the defect; the rest is counted
    if len(failing) > len(diag):
        ctx.note(f'{part}: {len(failing)} runs with a failing clause, first {len(diag)} diagnosed')
    terms, owner = [], []
    for idx in diag:
        R = items[idx][2]
        for n, _ in R.clauses:
            terms.append(R.term(only=n))
            owner.append((idx, n))
    bad_by_run = {}
    for i in _kernel_bools(ctx, part + '-clauses', terms, shard=2):
        bad_by_run.setdefault(owner[i][0], []).append(owner[i][1])
    for idx in diag:
        label, text, R = items[idx]
        bad = bad_by_run.get(idx, [])
        out.append((label, text, bad))
        if report:
            for c in bad:
                ctx.violate('property', f'balance:{c}:{R.cls}:enduse={R.eu}',
                            f'{CLAUSE_WHAT[c]} (tol 1e-9, checker evaluated in Coq) on run {label}: {R.cls}, end-use {R.eu}, '
                            f'lifetime {R.life}, {R.k} steps/year',
                            inp={'kind': 'run', 'label': label, 'text': text, 'clauses': bad}, expected=CLAUSE_WHAT[c].replace('!=', '=='),
                            observed='checker false')
    good = set(range(len(items))) - set(failing)
    for idx in sorted(good):
        label, text, R = items[idx]
        for why in R.findings:   # the faithful model (integral + offset) holds, so the stated clause (offset = 0) fails
            if report:
                ctx.violate('property', f'annual-not-integral:{why}',
                            f'annual Total/Net/Heat kWh of run {label} are the integral of the power series PLUS what the {why} '
                            f'economics added in place (C02_annual_is_integral_refuted)',
                            inp={'kind': 'run', 'label': label, 'text': text, 'clauses': ['annual-total', 'annual-net', 'annual-heat']},
                            expected='annual figure == integral x utilization', observed=f'integral x utilization + {why} offset')
    nontrivial = [(R.cls, R.eu, R.life, R.k) for _, _, R in items]
    ctx.count(part, evaluations=sum(len(R.clauses) for _, _, R in items), nontrivial_keys=nontrivial,
              plant=_tally(R.cls for _, _, R in items), enduse=_tally(R.eu for _, _, R in items),
              lifetime=_tally(R.life for _, _, R in items), steps_per_year=_tally(R.k for _, _, R in items), not_evaluated=dist)
    for label, text, R in items[:2]:
        ctx.sample(part, {'label': label, 'plant': R.cls, 'enduse': R.eu, 'lifetime': R.life, 'steps_per_year': R.k,
                          'clauses': [n for n, _ in R.clauses]})
    return out


def _tally(xs):
    d = {}
    for x in xs:
        d[x] = d.get(x, 0) + 1
    return d


def _opts(rnd, **kw):
    return dict(addons=False, overpressure=rnd.random() < 0.15, **kw)


def _synthetic(rnd, life, tspy, **kw):
    """configs.synthetic; a one-sample series (lifetime 1, 1 step/year) crashes in WellBores.RameyCalc (framey[1]), which is
    not C02's business, so those configurations use the constant wellbore temperature drop"""
    cfg = configs.synthetic(rnd, life=life, tspy=tspy, **kw)
    if life * tspy == 1:
        cfg = [(k, v) for k, v in cfg if k not in ('Ramey Production Wellbore Model', 'Production Wellbore Temperature Drop')]
        cfg += [('Ramey Production Wellbore Model', 0), ('Production Wellbore Temperature Drop', 2)]
    return runner.params_to_text(cfg)


def gen_runs(ctx):
    rnd = ctx.rng
    runs = [('corpus:' + p.name, p.read_text()) for p in sorted(CORPUS.glob('*.txt'))]
    # (the two SBT examples cost 10+ CPU-minutes each and add no plant class: left to the properties about the reservoir)
    seen = set()
    for name, text in configs.example_texts(ctx, slow=not ctx.quick):
        if name.startswith('example_SBT'):
            continue
        # quick tier: one example per (end-use option, plant type) plus the add-on / S-DAC-GT ones; thorough tier: all
        sig = tuple(re.findall(r'^(?:End-Use Option|Power Plant Type)\s*,\s*([^,\n]*)', text, re.M))
        if ctx.quick and sig in seen and not re.search(r'addon|S-DAC', name, re.I):
            continue
        seen.add(sig)
        runs.append(('example:' + name, text))
    if ctx.quick:       # the SUTRA storage plant (5 s): two of its years in the quick tier, all of them in the thorough tier
        runs.append(('example:SUTRAExample1.txt', (fw.REPO / 'tests' / 'examples' / 'SUTRAExample1.txt').read_text()))
    lives = [1, 2, 3, 7] if ctx.quick else [1, 2, 3, 7, 30, 100]
    cells = [(eu, pl) for eu in configs.ENDUSES for pl in (configs.ELEC_PLANTS if eu != 2 else configs.HEAT_PLANTS)]
    for rep in range(ctx.n(2, 8)):
        for eu, pl in cells + [(2, 5), (2, 6), (2, 9)]:       # the direct-use plants twice per round
            dh = pl == 7
            if dh and rep >= ctx.n(2, 4):
                continue                                       # district heating costs 2-4 s per run
            life = rnd.choice([2, 3] if dh else lives)
            tspy = rnd.choice([1, 2, 4, 12]) if rep else [1, 2, 4, 12][(eu + pl) % 4]
            if life * tspy > ctx.n(60, 400):
                tspy = 1
            resm = rnd.choice([3, 4, 4] if ctx.quick or rep % 4 else [1, 2])
            opts = dict(addons=False, overpressure=False) if dh else _opts(rnd)
            runs.append((f'cell:eu{eu}:plant{pl}:{rep}:{len(runs)}',
                         _synthetic(rnd, life, tspy, enduse=eu, plant=pl, resmodel=resm, **opts)))
    for i in range(ctx.n(6, 60)):     # long series, add-ons
        eu = rnd.choice(configs.ENDUSES)
        pl = rnd.choice(configs.ELEC_PLANTS if eu != 2 else [5, 6, 9])
        runs.append((f'long:{i}', _synthetic(rnd, rnd.choice([10, 20, 30, 35] + ([] if ctx.quick else [60, 100])),
                                             rnd.choice([1, 2, 4, 6, 12]), enduse=eu, plant=pl, resmodel=rnd.choice([3, 4]),
                                             addons=i % 3 == 0, overpressure=False)))
    return runs


def correspondence(ctx, proofs_ok=True):
    t = energy_enums.tables()
    if sorted(t['enduse_codes']) != sorted(ENDUSE_CODES):
        ctx.note(f'end-use options of the source {t["enduse_codes"]} differ from the harness list {ENDUSE_CODES}')
    cases = helper_cases(ctx)    # generated first: the PRNG stream of the whole runs does not depend on the helper verdicts
    runs = gen_runs(ctx)
    try:
        run_helpers(ctx, cases)
    except Exception as e:       # e.g. a helper was renamed: the whole-run checkers below do not depend on the helpers
        ctx.violate('corr', f'harness:helpers:{type(e).__name__}', f'direct-call correspondence could not run: {e!r}'[:1500])
    check_runs(ctx, 'whole-runs', runs)


def search(ctx):
    """Only broken ties / proofs so far: evaluate the property itself on whole runs around every plant cell (robust to refactoring)."""
    rnd = ctx.rng
    runs = []
    for eu in configs.ENDUSES:
        for pl in (configs.ELEC_PLANTS if eu != 2 else [5, 6, 9]):
            for life, tspy in ((1, 1), (2, 1), (3, 4)):
                runs.append((f'search:eu{eu}:plant{pl}:life{life}:k{tspy}',
                             _synthetic(rnd, life, tspy, enduse=eu, plant=pl, resmodel=4, addons=False, overpressure=False)))
    check_runs(ctx, 'search-runs', runs)


def replay(ctx, data):
    inp = data['input']
    if inp.get('kind') == 'run':
        r = runner.run_many(ctx, [inp['text']])[0]
        if r['snap'] is None:
            print('run did not reach the hook:', r['error'])
            return 1
        R = run_terms(r['snap'])
        if isinstance(R, list):     # SUTRA: one unit per year; a clause is violated when it fails in any unit
            pairs = [(U, n) for U in R for n, _ in U.clauses]
            failing = _kernel_bools(ctx, 'replay', [U.term(only=n) for U, n in pairs], shard=2)
            for i in failing:
                print(f'  unit {pairs[i][0].tag}: clause {pairs[i][1]} VIOLATED')
            bad, names, R = {pairs[i][1] for i in failing}, sorted({n for _, n in pairs}), R[0]
        else:
            names = [n for n, _ in R.clauses]
            bad = {names[i] for i in _kernel_bools(ctx, 'replay', [R.term(only=n) for n in names], shard=4)}
        print(f'{R.cls}, end-use {R.eu}, lifetime {R.life}, {R.k} steps/year; in-place offsets of the annual figures by: '
              f'{R.findings or "none"} (year 1: electricity {R.offs[0]:+.6g} kWh, heat {R.offs[1]:+.6g} kWh)')
        for n in names:
            print(f'  clause {n:28s} {"VIOLATED" if n in bad else "holds   "}  {CLAUSE_WHAT[n].replace("!=", "==")}')
        stated = bool(bad) or bool(R.findings)
        if R.findings and not bad:
            print('  faithful model (integral + offset) agrees; the stated clause annual == integral x utilization is VIOLATED by the offset')
        print('property', 'VIOLATED' if stated else 'holds', 'on this input')
        return 1 if stated else 0
    I, d = _impl(), inp['desc']
    fn = d['fn']
    if fn == 'integrate_time_series_slice':
        c, run = integrate_case(I, d['series'], d['i'], d['k'], d['util'], d['regime']), 'run_integrate'
    elif fn == 'annual_electricity_pumping_power':
        c, run = annual_case(I, d['enduse'], d['life'], d['k'], d['util'], d['he'], d['pump'], d['el'], d['net'], d['hp']), 'run_annual_epp'
    elif fn == 'remaining_reservoir_heat_content':
        c, run = remaining_case(I, d['init'], d['kwh']), 'run_remaining'
    elif fn == 'electricity_heat_production':
        c, run = ehp_case(I, d['enduse'], d['nprod'], d['flow'], d['cp'], d['tinj'], d['tchp'], d['eff'], d['chpf'], d['avail'],
                          d['etau'], d['tprod'], d['reinj']), 'run_ehp'
    elif fn == 'reinjection_temperature':
        c = reinj_case(I, d['amb'], d['tinj'], d['coefs'], d['tpp'], plant=d['plant'])
        run = 'run_reinj' if d['plant'] is None else 'run_plant_corr'
    else:
        c, run = dh_case(I, d['life'], d['k'], d['heat_produced'], d['daily_demand']), 'run_dh'
    tol = F(0) if d.get('regime') == 'exact' else TOL
    failing = fastlit.kernel_cases(ctx, 'replay', REQ, run, tol, [(c['flat'], flatcorr.res_of(c['impl']))])
    print(fn, 'implementation:', str(flatcorr._show(c['impl']))[:600])
    print('Coq model (proved to satisfy the balance) agrees within', float(tol), ':', not failing)
    print('property', 'VIOLATED' if failing else 'holds', 'on this input')
    return 1 if failing else 0
