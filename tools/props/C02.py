"""C02 - energy flows balance at every time step and over every year."""
import math
import types
from fractions import Fraction as F
from pathlib import Path

from lib import configs, flatcorr, framework as fw, qconv, runner, snapshot
from gen import energy_enums

TOL = F(1, 10 ** 9)
REQ = ['Model.Energy']
ENDUSE_CODES = [1, 2, 31, 32, 41, 42, 51, 52]
CORPUS = fw.VERIF / 'corpus' / 'C02'

META = {
    'props': 'Props/C02.v',
    'claimed': True,
    'level_text': (
        'Proof (Coq, axiom-free) about an executable model of the surface-plant energy bookkeeping, for every series length, '
        'lifetime, year index and time steps per year >= 1: heat extracted per step; conservation in the electricity / topping / '
        'bottoming / parallel branches; net = gross - pumping; heat-pump, chiller and direct-use relations; the district-heating '
        'daily split (geothermal + peaking = demand/24, geothermal <= interpolated well output <= any bound of the series, peaking '
        '>= 0); integrate_time_series_slice = composite trapezoid of the samples it has rescaled to one year x utilization, its '
        'linearity, hence NetkWh = TotalkWh - PumpingkWh and HeatkWhProduced = factor x HeatkWhExtracted year by year; remaining '
        'heat = initial - 3.6e-9 x prefix sum. Tied to the current source by kernel-evaluated correspondence with direct calls of the '
        'real helpers and by reflective checkers (soundness proved) evaluated in the kernel on hook snapshots of whole runs of every '
        'plant type and end-use option. PARTIAL: with add-ons / S-DAC-GT the economics add to the annual figures in place, so the '
        'clause "annual figure = integral x utilization" is refuted for those runs (C02_annual_is_integral_refuted, known finding) '
        'and proved for zero adjustment (C02_annual_is_integral_partial).'),
    'level_note': ('Trusted: Coq kernel + vm_compute; Python harness (snapshot observer, case writer). Float rounding is outside '
                   'the theorems (exact rationals) and bounded by the 1e-9 comparisons done inside Coq. Conversion-efficiency '
                   'correlations (availability, etau, reinjection temperature), wellbore and reservoir physics enter as snapshot '
                   'values. SUTRA / AGS plants are not claimed.'),
    'technique': 'Coq proof about an executable Gallina model + kernel-evaluated correspondence with the implementation',
    'rule': ('(a) direct calls of integrate_time_series_slice, annual_electricity_pumping_power, remaining_reservoir_heat_content, '
             'electricity_heat_production, calc_util_factor on an exhaustive small integer domain (exact, tol 0) and on random '
             'non-neutral floats (tol 1e-9), compared inside Coq with the model; (b) whole runs through main() of corpus seeds, '
             'runnable examples and synthetic configurations covering every end-use x plant cell, lifetimes 1..35 (thorough: ..100), '
             '1..12 steps per year; every balance clause is a boolean Coq checker evaluated by vm_compute on the exact rational '
             'images of the snapshot floats. A run is non-trivial when its series vary in time and efficiency/utilization/COP are '
             'not 0/1; distinct = distinct (plant class, end-use, lifetime, steps per year) resp. distinct helper signatures'),
    'trusted_base': ['Coq 8.16.1 kernel + vm_compute (no native_compute)',
                     'all C02 theorems: Closed under the global context (no axioms)',
                     'hand-written model coq/Model/Energy.v tied to the SurfacePlant* code by direct-call correspondence and '
                     'snapshot checkers evaluated in the kernel (tools/props/C02.py, tools/lib/*.py: unverified Python)',
                     'coq/Gen/EnergyEnums.v regenerated from OptionList.EndUseOptions / PlantType on every run'],
    'modelled': ['SurfacePlant.integrate_time_series_slice (numpy slicing, np.trapz, the len==1 extrapolation branch)',
                 'SurfacePlant.electricity_heat_production', 'SurfacePlant.annual_electricity_pumping_power',
                 'SurfacePlant.remaining_reservoir_heat_content (np.add.accumulate)',
                 'SurfacePlantDistrictHeating.calc_util_factor (np.arange grid, np.interp)',
                 'inline formulas of SurfacePlantIndustrialHeat/HeatPump/AbsorptionChiller/DistrictHeating.Calculate',
                 'in-place update of the annual figures by EconomicsAddOns / EconomicsS_DAC_GT'],
    'assumptions': ['IEEE rounding of intermediate operations is not modelled; model and code are compared at 1e-9 relative',
                    'availability, etau, reinjection temperature, produced temperature and pumping power are taken from the run'],
    'fingerprint': [('src/geophires_x/SurfacePlant.py', 'SurfacePlant.integrate_time_series_slice'),
                    ('src/geophires_x/SurfacePlant.py', 'SurfacePlant.electricity_heat_production'),
                    ('src/geophires_x/SurfacePlant.py', 'SurfacePlant.annual_electricity_pumping_power'),
                    ('src/geophires_x/SurfacePlant.py', 'SurfacePlant.remaining_reservoir_heat_content'),
                    ('src/geophires_x/SurfacePlantDistrictHeating.py', 'SurfacePlantDistrictHeating.calc_util_factor'),
                    ('src/geophires_x/SurfacePlantHeatPump.py', 'SurfacePlantHeatPump.Calculate'),
                    ('src/geophires_x/SurfacePlantAbsorptionChiller.py', 'SurfacePlantAbsorptionChiller.Calculate'),
                    ('src/geophires_x/SurfacePlantIndustrialHeat.py', 'SurfacePlantIndustrialHeat.Calculate'),
                    ('src/geophires_x/SurfacePlantDistrictHeating.py', 'SurfacePlantDistrictHeating.Calculate')],
}
GENERATORS = (energy_enums.generate,)


# ------------------------------------------------------------------------------------------------------------------
# direct calls of the real helpers
# ------------------------------------------------------------------------------------------------------------------

def _impl():
    import numpy as np
    import geophires_x.Model  # noqa: F401  (circular import: Model first)
    from geophires_x.OptionList import EndUseOptions
    from geophires_x.SurfacePlant import SurfacePlant
    from geophires_x.SurfacePlantDistrictHeating import SurfacePlantDistrictHeating
    eu = {m.int_value: m for m in EndUseOptions}
    return types.SimpleNamespace(np=np, SP=SurfacePlant, DH=SurfacePlantDistrictHeating, eu=eu)


def _call(fn, *args):
    """res tuple of a helper call: RuntimeError -> 5, non-finite output -> 6 (numpy does not raise)."""
    import warnings
    try:
        with warnings.catch_warnings():
            warnings.simplefilter('ignore')
            r = flatcorr.call_impl(fn, *args)
    except RuntimeError:
        return ('E', 5)
    if r[0] == 'V':
        try:
            r = ('V', flatcorr.flatten(r[1]))
        except ValueError:
            return ('E', 6)
    return r


def _arr(I, xs):
    return I.np.array([float(x) for x in xs], dtype=float)


def integrate_case(I, series, i, k, util, regime):
    r = _call(I.SP.integrate_time_series_slice, _arr(I, series), i, k, float(util))
    n, start = len(series), i * k
    shape = ('beyond' if start >= n else 'single-flat' if start == n - 1 and start < 2 else
             'single-extrapolated' if start == n - 1 else 'short' if n - 1 - start < k else 'full')
    return {'flat': [F(i), F(k), qconv.F(util)] + [qconv.F(x) for x in series], 'impl': r, 'fn': 'integrate',
            'desc': {'fn': 'integrate_time_series_slice', 'series': [float(x) for x in series], 'i': i, 'k': k,
                     'util': float(util), 'regime': regime},
            'nontrivial': (shape, k, min(i, 3), regime) if len(set(series)) > 1 else None, 'shape': shape}


def annual_case(I, code, life, k, util, he, pump, el, net, hp):
    r = _call(lambda: I.SP.annual_electricity_pumping_power(None, life, I.eu[code], _arr(I, he), k, float(util), _arr(I, pump),
                                                            _arr(I, el), _arr(I, net), _arr(I, hp)))
    flat = [F(code), F(life), F(k), qconv.F(util), F(len(he)), F(len(hp))]
    for s in (he, pump, el, net, hp):
        flat += [qconv.F(x) for x in s]
    return {'flat': flat, 'impl': r, 'fn': 'annual',
            'desc': {'fn': 'annual_electricity_pumping_power', 'enduse': code, 'life': life, 'k': k, 'util': float(util),
                     'he': list(map(float, he)), 'pump': list(map(float, pump)), 'el': list(map(float, el)),
                     'net': list(map(float, net)), 'hp': list(map(float, hp))},
            'nontrivial': (code, life, k)}


def remaining_case(I, init, kwh):
    r = _call(lambda: I.SP.remaining_reservoir_heat_content(None, float(init), _arr(I, kwh)))
    return {'flat': [qconv.F(init)] + [qconv.F(x) for x in kwh], 'impl': r, 'fn': 'remaining',
            'desc': {'fn': 'remaining_reservoir_heat_content', 'init': float(init), 'kwh': list(map(float, kwh))},
            'nontrivial': len(kwh) if len(kwh) > 1 else None}


def ehp_case(I, code, n, m, cp, tinj, tchp, eff, chpf, avail, etau, tprod, reinj):
    r = _call(lambda: I.SP.electricity_heat_production(None, I.eu[code], _arr(I, avail), _arr(I, etau), n, float(m), float(cp),
                                                       _arr(I, tprod), float(tinj), _arr(I, reinj), float(tchp), float(eff),
                                                       float(chpf)))
    flat = [F(code), F(n)] + [qconv.F(x) for x in (m, cp, tinj, tchp, eff, chpf)] + \
           [F(len(avail)), F(len(etau)), F(len(tprod)), F(len(reinj))]
    for s in (avail, etau, tprod, reinj):
        flat += [qconv.F(x) for x in s]
    return {'flat': flat, 'impl': r, 'fn': 'ehp',
            'desc': {'fn': 'electricity_heat_production', 'enduse': code, 'nprod': n, 'flow': float(m), 'cp': float(cp),
                     'tinj': float(tinj), 'tchp': float(tchp), 'eff': float(eff), 'chpf': float(chpf),
                     'avail': list(map(float, avail)), 'etau': list(map(float, etau)), 'tprod': list(map(float, tprod)),
                     'reinj': list(map(float, reinj))},
            'nontrivial': (code, r[0], min(len(tprod), 3))}


def dh_case(I, life, k, fp, demand):
    stub = types.SimpleNamespace(plant_lifetime=types.SimpleNamespace(value=life),
                                 daily_heating_demand=types.SimpleNamespace(value=_arr(I, demand)))
    r = _call(lambda: I.DH.calc_util_factor(stub, _arr(I, fp), k))
    return {'flat': [F(life), F(k), F(len(fp))] + [qconv.F(x) for x in fp] + [qconv.F(x) for x in demand], 'impl': r, 'fn': 'dh',
            'desc': {'fn': 'calc_util_factor', 'life': life, 'k': k, 'heat_produced': list(map(float, fp)),
                     'daily_demand': list(map(float, demand))},
            'nontrivial': (life, k, r[0])}


def _demand(rnd, base, amp):
    """seasonal daily demand [MWh/day], short decimals"""
    return [round(24 * max(0.0, base + amp * math.cos(2 * math.pi * j / 365) + rnd.uniform(-0.5, 0.5)), 2) for j in range(365)]


def helper_cases(ctx):
    I = _impl()
    rnd = ctx.rng
    fl = lambda lo, hi: rnd.uniform(lo, hi)
    series = lambda n, lo, hi: [fl(lo, hi) for _ in range(n)]
    cases = []
    # integrate: exhaustive small integer domain (all float operations exact when dx_steps is a power of two)
    for n in range(0, ctx.n(8, 11)):
        s = [((7 * j * j + 3 * j + 2) % 23) + 1 for j in range(n)]
        for k in (1, 2, 3, 4):
            for i in range(0, n // k + 2):
                dxs = max(1, min(k, n - 1 - i * k))
                cases.append(integrate_case(I, s, i, k, F(3, 4), 'exact' if dxs in (1, 2, 4) else 'float'))
    for _ in range(ctx.n(300, 6000)):
        k = rnd.choice([1, 1, 2, 3, 4, 6, 12, 52])
        life = rnd.choice([1, 2, 3, 5, 10, 30] + ([] if ctx.quick else [60, 100]))
        n = max(0, life * k + rnd.choice([0, 0, 0, 1, -1, -k]))
        i = rnd.choice([0, life - 1, life - 1, rnd.randint(0, life), life])
        cases.append(integrate_case(I, series(n, 1, 90), i, k, round(fl(0.5, 0.99), 3), 'float'))
    # annual_electricity_pumping_power: five distinct series, every end-use option
    for _ in range(ctx.n(120, 3000)):
        code = rnd.choice(ENDUSE_CODES)
        life, k = rnd.choice([1, 2, 3, 5, 10]), rnd.choice([1, 2, 4, 12])
        n = life * k + rnd.choice([0, 0, 1])
        cases.append(annual_case(I, code, life, k, round(fl(0.5, 0.99), 3), series(n, 40, 90), series(n, 0.1, 3), series(n, 3, 9),
                                 series(n, 1, 6), series(n, 5, 30) if code != 1 else []))
    # remaining heat content
    for _ in range(ctx.n(80, 2000)):
        cases.append(remaining_case(I, round(fl(50, 900), 3), series(rnd.choice([0, 1, 2, 3, 7, 30, 100]), 1e7, 2e9)))
    # electricity_heat_production: every end-use option, error branches
    for _ in range(ctx.n(250, 5000)):
        code = rnd.choice(ENDUSE_CODES)
        n = rnd.choice([1, 2, 3, 5, 8])
        la = n
        r = rnd.random()
        sign = -1 if r < 0.08 else 1
        if 0.08 <= r < 0.12:
            n, la = 0, 0
        elif 0.12 <= r < 0.16 and n >= 2:
            la = n + 2          # shape mismatch between availability and etau (both >= 2: no broadcasting)
        avail = [sign * x for x in series(la, 0.02, 0.2)]
        if 0.16 <= r < 0.2:
            avail = [0.0] * la  # max() == 0 is not negative
        nr = n + 2 if (0.2 <= r < 0.24 and n >= 2) else n
        cases.append(ehp_case(I, code, rnd.randint(1, 5), round(fl(20, 110), 1), round(fl(3900, 4300), 2), round(fl(30, 80), 1),
                              round(fl(90, 150), 1), round(fl(0.5, 0.95), 2), round(fl(0.1, 0.9), 2), avail, series(n, 0.05, 0.2),
                              series(n, 120, 300), series(nr, 60, 95)))
    # district heating day-by-day split
    for idx in range(ctx.n(10, 120)):
        life, k = rnd.choice([1, 2, 3]), rnd.choice([1, 2, 4, 12])
        fp = [round(x, 3) for x in series(life * k + rnd.choice([0, 0, 1]), 8, 30)]
        dem = _demand(rnd, rnd.uniform(8, 25), rnd.uniform(3, 15))
        if idx == 0:
            fp = [0.0] * len(fp)       # zero well output: numpy yields nan
        if idx == 1:
            dem = dem[:364]            # IndexError on the last day
        if idx == 2:
            fp = []                    # np.interp on empty arrays
        cases.append(dh_case(I, life, k, fp, dem))
    return cases


HELPER_PARTS = [('integrate', 'run_integrate'), ('annual', 'run_annual_epp'), ('remaining', 'run_remaining'),
                ('ehp', 'run_ehp'), ('dh', 'run_dh')]
HELPER_WHAT = {
    'integrate': 'integrate_time_series_slice is not the trapezoid integral x utilization proved of the model (C02_integral)',
    'annual': 'annual_electricity_pumping_power does not integrate the corresponding power series (C02_annual_figures)',
    'remaining': 'remaining_reservoir_heat_content is not initial - 3.6e-9 x cumulative extracted heat (C02_remaining)',
    'ehp': 'electricity_heat_production breaks the per-step balance proved of the model (C02_conservation)',
    'dh': 'calc_util_factor breaks the district-heating supply split proved of the model (C02_dh)',
}


def _helper_key(c):
    d = c['desc']
    extra = {'integrate': lambda: c['shape'], 'annual': lambda: 'enduse=%s' % d['enduse'], 'remaining': lambda: 'n=%d' % len(d['kwh']),
             'ehp': lambda: 'enduse=%s' % d['enduse'], 'dh': lambda: 'k=%s' % d['k']}[c['fn']]()
    return 'helper:%s:%s' % (d['fn'], extra)


def run_helpers(ctx, cases):
    for fn, run in HELPER_PARTS:
        for regime, tol in (('exact', F(0)), ('float', TOL)):
            sel = [c for c in cases if c['fn'] == fn and c['desc'].get('regime', 'float') == regime]
            if sel:
                flatcorr.run(ctx, f'{fn}-{regime}', REQ, run, tol, sel, kind='property', key_of=_helper_key, what=HELPER_WHAT[fn],
                             shard=60 if fn == 'dh' else 300)
    ctx.count('helper-errors', error_cases={c['fn']: 1 for c in cases if c['impl'][0] == 'E'})
