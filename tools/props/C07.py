"""C07 - out-of-range and invalid inputs are rejected, never silently altered."""
import json
from concurrent.futures import ProcessPoolExecutor
from fractions import Fraction as F
from pathlib import Path

from gen import paramtable
from lib import framework as fw, rangeprobe as rp

META = {
    'props': 'Props/C07.v',
    'claimed': True,
    'level_text': ('Proof (partial): an executable Coq model of the range/membership validation of Parameter.ReadParameter is proved, for '
                   'EVERY parameter declaration and EVERY finite value, to satisfy the property predicate spec_ok: values in [Min,Max] / members '
                   'of AllowableRange (in particular exactly the bounds) become the value in use; everything else raises naming the parameter, '
                   'except the declared default / start value (the -1 style "not provided" sentinels), which changes nothing; nothing is ever '
                   'clamped or replaced (12 theorems, axiom-free).  Two clauses are refuted by the faithful model of the pinned reader and stated '
                   'as such: int parameters go through int(float(s)), so non-integral values are truncated and accepted (C07_int_fraction_refuted), '
                   'and a declared default that differs from the start value shadows that bound (C07_accept_bound_refuted); the int clauses are '
                   'proved under the corresponding hypotheses (integral, no_shadow).  Tie: Gen/ParamTable is regenerated from the live module '
                   'classes (discovered by scanning the packages) on every run; for every float/int parameter of every class and every probe '
                   '(just below min, min, max, just above max, far out, inside, non-member, fractional, float-form, sentinels) the real '
                   'ReadParameter, the class\'s own read_parameters loop, whole Model/HIP_RA_X reads per configuration family and the public '
                   'clients are executed and compared INSIDE Coq with the model and with spec_ok.'),
    'level_text_round2': ('Round 2 (Model/TokenReader.v, 10 more theorems): the TEXT of a value - canonical integers, other number notations, '
                          'non-numeric text, blanks, nan / inf - through ReadParameter and through the option conversions of the read_parameters methods '
                          '(strict from_input_string / else-branch / from_int, found by an ast scan and regenerated as Gen/OptionTable with the enum '
                          'members), and the boolean word lists.  Proved: numbers in any notation inherit the range theorems; +-inf and blank values are '
                          'rejected by name; every AllowableRange value of an option has an enum member.  Refuted and recorded: nan is stored by every '
                          'float parameter; junk text and int nan/inf die in float()/int() without the parameter name; members written "4.0" die in '
                          'from_input_string (anonymous for 3 enums); Fracture Shape "2.0" becomes member 4; any non-listed boolean text is True.'),
    'level_text_units': ('Unit-qualified values and values in use after Calculate: C07_unit_qualified - whatever the conversion into CurrentUnits is (pint, '
                         'as data), the verdict on "v unit" is the verdict of the range model on the converted value; tied for every float declaration with a '
                         'pint-convertible unit family by values written in other catalogue units at / next to the bounds (reader level, and Model level for '
                         'rejections; unit texts the pinned ConvertUnits cannot parse are C06 and skipped); HIP-RA-X: a bound / in-range value is still the '
                         'value held after read_parameters + Calculate.'),
    'level_note': ('Trusted: Coq kernel + vm_compute; the generator and harness (unverified Python) that dump the declarations and observe '
                   'the outcome of the real calls; CPython float()/int() parsing (the model starts from the parsed double). nan is outside the '
                   'model (Q): the pinned reader accepts it for float parameters because every comparison with nan is False (observation).'),
    'technique': 'Coq proof about an executable Gallina model + kernel-evaluated correspondence with the implementation',
    'rule': ('cases = (module class, float/int parameter, probe) for every class with a read_parameters method found by scanning geophires_x and '
             'hip_ra_x; probes are exact-regime values at and next to the declared bounds (math.nextafter), far outside, one random inside value, '
             'a non-member inside the hull, non-integral values truncating to a member / to the bounds, N.0, and the declared default / start '
             'value; each is run through ReadParameter on a copy of the live object, through the class\'s read_parameters with only that key '
             'provided (also under every deprecated input name that an ast scan of the read_parameters methods finds), through Model.read_parameters '
             'on an example of each configuration family and on end-use x power-plant-type gating variants with that key overridden (value in use '
             'AFTER all modules have read; all bounds always, the rest sampled in quick), and (sample) through '
             'GeophiresXClient/HipRaXClient; non-trivial = distinct (class, parameter, probe tag, layer)'),
    'trusted_base': ['Coq 8.16.1 kernel + vm_compute (no native_compute)',
                     'all C07 theorems: Closed under the global context (no axioms)',
                     'hand-written model coq/Model/RangeReader.v tied to Parameter.ReadParameter and the read_parameters loops by '
                     'kernel-evaluated comparison on every parameter (tools/props/C07.py, tools/lib/rangeprobe.py, tools/gen/paramtable.py: '
                     'unverified Python)'],
    'modelled': ['Parameter.ReadParameter (intParameter, floatParameter and boolParameter branches; nan / inf / text / blank inputs)', 'the option special cases of every read_parameters (from_input_string / else chain / coerce_int_params_to_enum_values) as regenerated Gen/OptionTable', 'Parameter declarations (Min, Max, AllowableRange, '
                 'DefaultValue, value) as regenerated table rows', 'CPython float()/int() (input of the model is the parsed double)'],
    'assumptions': ['float(sValue) and int() are CPython\'s; comparisons of doubles are exact comparisons of rationals (no rounding involved)',
                    'unit suffixes in the value (ConvertUnits) are C06, list/bool/str parameters and later physical rejections are outside C07'],
    'fingerprint': [('src/geophires_x/Parameter.py', 'ReadParameter'), ('src/geophires_x/Reservoir.py', 'Reservoir.read_parameters'),
                    ('src/geophires_x/WellBores.py', 'WellBores.read_parameters'), ('src/geophires_x/SurfacePlant.py', 'SurfacePlant.read_parameters'),
                    ('src/geophires_x/Economics.py', 'Economics.read_parameters'), ('src/hip_ra_x/hip_ra_x.py', 'HIP_RA_X.read_parameters'),
                    ('src/geophires_x/Model.py', 'Model.read_parameters'), ('src/geophires_x/Parameter.py', 'ConvertUnits'), ('src/hip_ra_x/hip_ra_x.py', 'HIP_RA_X.Calculate'), ('src/geophires_x/Parameter.py', 'coerce_int_params_to_enum_values'), ('src/geophires_x_client/__init__.py', 'GeophiresXClient.get_geophires_result')],
    'exhaustive': True,
}
GENERATORS = (paramtable.gen_paramtable, paramtable.gen_optiontable)
REQ = ['Base.ParamRec', 'Model.RangeReader', 'Gen.ParamTable']
TREQ = REQ + ['Model.TokenReader', 'Gen.OptionTable']
LAYER_TAGS = ('min', 'max', 'below-min', 'above-max', 'non-member', 'fraction', 'far-above', 'member')

# configuration families: an example of the repository per family, one key overridden per case
FAMILIES = [('standard', 'g', 'tests/examples/example1.txt'), ('add-ons', 'g', 'tests/examples/example1_addons.txt'),
            ('S-DAC-GT', 'g', 'tests/examples/S-DAC-GT.txt'), ('SBT', 'g', 'tests/examples/example_SBT_Lo_T.txt'),
            ('SUTRA', 'g', 'tests/examples/SUTRAExample1.txt'), ('AGS', 'g', 'tests/examples/Beckers_et_al_2023_Tabulated_Database_Uloop_water_elec.txt'),
            ('heat-pump', 'g', 'tests/examples/example10_HP.txt'), ('absorption-chiller', 'g', 'tests/examples/example11_AC.txt'),
            ('district-heating', 'g', 'tests/examples/example12_DH.txt'), ('direct-use', 'g', 'tests/examples/example2.txt'),
            ('HIP-RA-X', 'hip', 'tests/hip_ra_x_tests/examples/HIP-RA-X_example1.txt')]


def key_of(layer, tag, cls, name, alias=None):
    return f'{layer}:{tag}:{cls}:{name}' + (f':as:{alias}' if alias else '')


def kernel(ctx, part, fn, cases):
    """cases: dicts with i, v, obs -> indices on which the Coq boolean [fn param_table case] is false"""
    def body(lo, hi):
        return f'run_rcases {fn} param_table [\n ' + ';\n '.join(rp.rcase_lit(c['i'], c['v'], c['obs']) for c in cases[lo:hi]) + ']'
    return fw.kernel_eval(ctx, part, REQ, body, len(cases), shard=400) if cases else []


def judge(ctx, layer, cases, compare_model):
    """Property verdict (spec_ok on the implementation's outcome) and, for the reader layer, model = implementation; both in Coq."""
    both = 'fun t c => rcase_agrees t c && rcase_spec t c' if compare_model else 'rcase_spec'
    bad = kernel(ctx, layer + '-verdict', f'({both})', cases)
    ctx.count(layer, evaluations=len(cases), nontrivial_keys=[(c.get('family'), c['cls'], c['name'], c.get('alias'), c['tag'], c['s']) for c in cases],
              probes={t: sum(1 for c in cases if c['tag'] == t) for t in sorted({c['tag'] for c in cases})},
              outcomes={k: sum(1 for c in cases if c['obs']['o'][0] == k) for k in 'AURC'})
    for c in cases[:2]:
        ctx.sample(layer, {k: c[k] for k in ('cls', 'name', 'tag', 's')} | {'observed': rp.show(c['obs'])})
    if not bad:
        return
    sub = [cases[k] for k in bad]
    spec_bad = set(kernel(ctx, layer + '-spec', 'rcase_spec', sub)) if compare_model else set(range(len(sub)))
    for j, c in enumerate(sub):
        inp = {k: c[k] for k in ('layer', 'family', 'cls', 'name', 'tag', 's', 'alias', 'base') if c.get(k)}
        if j in spec_bad:
            ctx.violate('property', key_of(layer, c['tag'], c['cls'], c['name'], c.get('alias')),
                        f'{c["cls"]}.{c["name"]}' + (f' written under its deprecated name {c["alias"]!r}' if c.get('alias') else '')
                        + f' = {c["s"]!r} ({c["tag"]}, {layer} level'
                        + (f', family {c["family"]}' if c.get('family') else '') + f'): {rp.show(c["obs"])}',
                        inp=inp, expected=expected_text(c), observed=rp.show(c['obs']))
        else:
            ctx.violate('corr', 'model:' + key_of(layer, c['tag'], c['cls'], c['name']),
                        f'Coq model read_param and ReadParameter disagree on {c["cls"]}.{c["name"]} = {c["s"]!r}: {rp.show(c["obs"])}',
                        inp=inp, observed=rp.show(c['obs']), expected='outcome of Model/RangeReader.read_param on the regenerated row')


def expected_text(c):
    return ('in the documented domain: no error and the value in use equals the supplied one; outside it: ValueError naming the '
            'parameter (or, for the declared default / start value only, nothing changes)')


def live(ctx):
    if not hasattr(ctx, '_c07'):
        model = paramtable.dummy_model()
        ctx._c07 = (model, paramtable.sources(model), paramtable.rows(), paramtable.index())
    return ctx._c07


def numeric_params(ctx, level=None):
    """float / int parameters of every class.  level='reader' / 'module' in the quick tier: one representative per
    distinct declaration (ReadParameter sees nothing else) resp. per (declaration, chain of read_parameters functions the
    class inherits) - subclasses that re-declare nothing and override nothing are swept in the thorough tier."""
    model, srcs, rows, idx = live(ctx)
    classes = {c.__name__: c for _, c in paramtable.module_classes()}
    seen = set()
    for cls, o in srcs:
        chain = tuple(id(vars(k)['read_parameters']) for k in classes[cls].__mro__ if 'read_parameters' in vars(k))
        for name, p in o.ParameterDict.items():
            r = rows[idx[(cls, name)]]
            if r['kind'] in ('KFloat', 'KInt'):
                sig = (name, r['kind'], r['default'], r['value'], r['min'], r['max'], tuple(r['runs'])) + (chain if level == 'module' else ())
                if level and ctx.quick and sig in seen:
                    continue
                seen.add(sig)
                yield cls, o, name, p, idx[(cls, name)], r


def alias_list(ctx):
    """[(package, class object, alias key, target Name)] for the deprecated names the read_parameters methods look up"""
    if not hasattr(ctx, '_c07_alias'):
        found = rp.aliases(live(ctx)[0])
        ctx._c07_alias = [a for a in found if a[3]]
        ctx.note('deprecated input names found in read_parameters: '
                 + str(sorted({(c.__name__, a, t) for _, c, a, t in found})))
    return ctx._c07_alias


def mk(layer, cls, name, i, tag, s, v, obs, **kw):
    if layer != 'reader' and obs['o'][0] == 'A' and obs['fin'] == paramtable.rows()[i]['value']:
        obs = dict(obs, o=('U',))     # above the reader only the stored value is visible: start value = untouched
    return dict(layer=layer, cls=cls, name=name, i=i, tag=tag, s=s, v=v, obs=obs, **kw)


def table_layer(ctx):
    """finite side condition of C07_table on the regenerated table, evaluated in the kernel"""
    rows = live(ctx)[2]
    bad = fw.kernel_eval(ctx, 'table', REQ, lambda lo, hi: 'table_bad_rows param_table', len(rows), shard=len(rows))
    ctx.count('table', evaluations=len(rows), nontrivial_keys=[(r['cls'], r['name']) for r in rows if r['kind'] in ('KFloat', 'KInt')],
              kinds={k: sum(1 for r in rows if r['kind'] == k) for k in ('KFloat', 'KInt', 'KBool', 'KStr', 'KList')})
    for k in bad:
        r = rows[k]
        ctx.violate('property', key_of('table', 'row_ok', r['cls'], r['name']),
                    f'{r["cls"]}.{r["name"]}: a documented bound cannot be accepted and used (Min > Max, empty AllowableRange, or the '
                    f'declared default {r["default"]} equals a bound while the object starts at {r["value"]})',
                    inp={'layer': 'table', 'cls': r['cls'], 'name': r['name']}, expected='row_ok = true', observed='row_ok = false')


def dict_key_layer(ctx):
    """a ParameterDict key that is not the Name of the object stored under it: whatever is written under that key is never
    read (the loops look parameters up by Name) - shown on a concrete input"""
    model = live(ctx)[0]
    pkgs = {c.__name__: (pkg, c) for pkg, c in paramtable.module_classes()}
    for cls, key, name in paramtable.key_mismatches():
        pkg, c = pkgs[cls]
        def held(k):
            import contextlib, io
            from geophires_x.Parameter import ParameterEntry
            o = paramtable.instantiate(pkg, c, model)
            try:
                with contextlib.redirect_stdout(io.StringIO()):
                    model.InputParameters = {k: ParameterEntry(Name=k, sValue='5000', raw_entry=f'{k}, 5000')}
                    o.read_parameters(model)
            except Exception as e:  # noqa
                return f'{type(e).__name__}: {e}'
            finally:
                model.InputParameters = {}
            return {kk: repr(q.value) for kk, q in o.ParameterDict.items()}
        before, after = held('<no such key>'), held(key)
        if isinstance(after, dict) and after == before:
            ctx.violate('property', f'dict-key:{cls}:{key}', f'{cls}: ParameterDict[{key!r}] holds the parameter named {name!r}; the input line '
                        f'"{key}, 5000" is neither rejected nor used (nothing is read under that key; the parameter formerly registered there is gone)',
                        inp={'layer': 'dict-key', 'cls': cls, 'name': name, 'key': key, 's': '5000'}, expected='rejected by name or used', observed='silently ignored')
        else:
            ctx.violate('proof', f'dict-key:{cls}:{key}', f'{cls}: ParameterDict key {key!r} != Name {name!r}', inp={'layer': 'dict-key', 'cls': cls, 'name': name})
    ctx.count('dict-keys', evaluations=sum(len(o.ParameterDict) for _, o in live(ctx)[1]))


def reader_layer(ctx):
    model = live(ctx)[0]
    cases = []
    for cls, o, name, p, i, r in numeric_params(ctx, 'reader'):
        for tag, s, v in rp.probes(r, ctx.rng, extra=ctx.n(0, 8)):
            cases.append(mk('reader', cls, name, i, tag, s, v, rp.observe_reader(p, name, s, model)))
    judge(ctx, 'reader', cases, compare_model=True)
    return cases


def module_layer(ctx):
    model = live(ctx)[0]
    pkgs = {c.__name__: (pkg, c) for pkg, c in paramtable.module_classes()}
    cases = []
    for cls, o, name, p, i, r in numeric_params(ctx, 'module'):
        for tag, s, v in rp.probes(r, ctx.rng, extra=ctx.n(0, 3)):
            if tag in LAYER_TAGS or not ctx.quick and tag in ('inside', 'far-below'):   # 'N.0' / sentinels: reader level only
                cases.append(mk('module', cls, name, i, tag, s, v, rp.observe_module(*pkgs[cls], model, name, s)))
    rows, idx = live(ctx)[2], live(ctx)[3]
    for pkg, c, alias, target in alias_list(ctx):      # same accept / reject behaviour under a deprecated name
        i = idx[(c.__name__, target)]
        for tag, s, v in rp.probes(rows[i], ctx.rng, extra=ctx.n(1, 4)):
            if not tag.startswith('sentinel') and tag != 'float-form':
                cases.append(mk('module', c.__name__, target, i, tag, s, v, rp.observe_module(pkg, c, model, target, s, key=alias), alias=alias))
    judge(ctx, 'module', cases, compare_model=False)


# plant type / end-use combinations that gate special-case code in SurfacePlant.read_parameters and Model.read_parameters
# (flash plants fix the injection pressure and switch pumping off, heat end-use forces an industrial plant, ...)
GATES = [(1, 1), (1, 2), (1, 3), (1, 4), (31, 3), (32, 4), (41, 3), (42, 1), (51, 4), (52, 2), (2, 9)]
GATE_PARTS = ('wellbores', 'surfaceplant')
EXT_PARTS = ('addeconomics', 'sdacgteconomics')
EXT_TAGS = ('min', 'max', 'below-min', 'above-max', 'non-member')


def families(ctx=None):
    """[(family, kind, base input text, restrict to these Model parts or None)]"""
    out = [(fam, kind, (fw.REPO / rel).read_text(), None) for fam, kind, rel in FAMILIES]
    std = (fw.REPO / FAMILIES[0][2]).read_text().rstrip('\n')
    out += [(f'enduse{eu}-plant{pt}', 'g', std + f'\nEnd-Use Option, {eu}\nPower Plant Type, {pt}\n', GATE_PARTS) for eu, pt in GATES]
    # optional extensions enabled TOGETHER (Model.read_parameters reads each in its own branch): add-ons + S-DAC-GT, on the
    # standard and on the SBT configuration; probed on the parameters of both extensions
    addons = (fw.REPO / 'tests/examples/example1_addons.txt').read_text().rstrip('\n')
    addon_lines = '\n'.join(ln for ln in addons.splitlines() if ln.strip().startswith('AddOn') or ln.strip().startswith('Do AddOn'))
    sdac = '\nDo S-DAC-GT Calculations, True\n'
    out += [('add-ons+S-DAC-GT', 'g', addons + sdac, EXT_PARTS),
            ('SBT+add-ons+S-DAC-GT', 'g', (fw.REPO / 'tests/examples/example_SBT_Lo_T.txt').read_text().rstrip('\n') + '\n' + addon_lines + sdac, EXT_PARTS)]
    return out


def family_jobs(ctx):
    """(family, kind, base text, class, name, row index, probe) for the parameters of the modules each family activates.
    prio jobs (always run): the documented bounds of every parameter in every family, the gating families, deprecated names."""
    if hasattr(ctx, '_c07_jobs'):
        return list(ctx._c07_jobs)
    rows, idx = live(ctx)[2], live(ctx)[3]
    alias = {(c.__name__, t): a for _, c, a, t in alias_list(ctx)}
    jobs = []
    for fam, kind, base, parts in families():
        for cls in active_classes(kind, base, ctx, parts):
            for r in rows:
                if r['cls'] == cls and r['kind'] in ('KFloat', 'KInt'):
                    job = dict(family=fam, kind=kind, base=base, cls=cls, name=r['name'], i=idx[(cls, r['name'])])
                    for tag, s, v in rp.probes(r, ctx.rng):
                        if tag in LAYER_TAGS and (parts is None or tag in ('min', 'max') or parts == EXT_PARTS and tag in EXT_TAGS):
                            jobs.append(dict(job, tag=tag, s=s, v=v, prio=tag in ('min', 'max') or parts == EXT_PARTS))
                        if (cls, r['name']) in alias and parts is None and (tag in LAYER_TAGS or tag == 'inside'):
                            jobs.append(dict(job, tag=tag, s=s, v=v, prio=True, alias=alias[(cls, r['name'])]))
    ctx._c07_jobs = jobs
    return list(jobs)


def active_classes(kind, base, ctx, parts=None):
    import contextlib, io, os, sys
    if kind == 'hip':
        return ['HIP_RA_X']
    import geophires_x.Model as M
    path = Path(ctx.scratch, 'fam_base.txt')
    path.write_text(base)
    stash = (os.getcwd(), sys.argv)
    try:
        with contextlib.redirect_stdout(io.StringIO()):
            sys.argv = ['', str(path), str(path.with_suffix('.out'))]
            os.chdir(os.path.dirname(os.path.abspath(M.__file__)))      # as GEOPHIRESv3.main() does
            m = M.Model(enable_geophires_logging_config=False)
            m.read_parameters(default_output_path=ctx.scratch)
    finally:
        os.chdir(stash[0])
        sys.argv = stash[1]
    return [type(getattr(m, a)).__name__ for a in (parts or rp.MODEL_PARTS) if getattr(m, a, None) is not None and getattr(getattr(m, a), 'ParameterDict', None)]


def pool_map(ctx, fn, jobs):
    if not jobs:
        return []
    with ProcessPoolExecutor(max_workers=16) as ex:
        return list(ex.map(fn, jobs, chunksize=max(1, len(jobs) // 64)))


def job_tuple(ctx, j):
    return (j['kind'], j['base'], j['name'], j['s'], str(ctx.scratch), j.get('alias'))


def family_layer(ctx):
    jobs = family_jobs(ctx)
    if ctx.quick:                       # quick: every prio job + a seeded sample of the rest
        rest = [j for j in jobs if not j['prio']]
        ctx.rng.shuffle(rest)
        jobs = [j for j in jobs if j['prio']] + rest[:300]
        jobs.sort(key=lambda j: (j['family'], j['cls'], j['name'], j['tag'], j['s'], j.get('alias') or ''))
    res = pool_map(ctx, rp.family_read, [job_tuple(ctx, j) for j in jobs])
    rows, idx = live(ctx)[2], live(ctx)[3]
    cases, later = [], 0
    for j, (cls, obs) in zip(jobs, res):
        cls = cls if (cls, j['name']) in idx else j['cls']
        c = mk('family', cls, j['name'], idx[(cls, j['name'])], j['tag'], j['s'], j['v'], obs, family=j['family'], alias=j.get('alias'))
        if obs['o'][0] == 'C' and j['tag'] in ('min', 'max', 'inside'):
            later += 1                  # a documented bound that another, later test of the family refuses: not C07
            continue
        cases.append(c)
    ctx.count('family', later_rejections_not_C07=later, families={f[0]: sum(1 for c in cases if c['family'] == f[0]) for f in families()})
    judge(ctx, 'family', cases, compare_model=False)


def client_layer(ctx):
    """through the public clients: an out-of-range value gives RuntimeError naming the parameter and no result file"""
    slow = ('SBT', 'SUTRA', 'AGS', 'SBT+add-ons+S-DAC-GT')      # whole runs of these take 5-20 s each if a rejection is ever missed: read-level only
    jobs = [j for j in family_jobs(ctx) if j['tag'] in ('below-min', 'above-max', 'non-member', 'far-above') and j['family'] not in slow]
    ctx.rng.shuffle(jobs)
    picked, seen = [], {}
    for j in jobs:
        k = (j['family'], j['tag'])
        if j.get('alias') or seen.get(k, 0) < ctx.n(2, 12):        # deprecated names: always
            seen[k] = seen.get(k, 0) + 1
            picked.append(j)
    picked.sort(key=lambda j: (j['family'], j['cls'], j['name'], j['tag'], j['s'], j.get('alias') or ''))
    res = pool_map(ctx, rp.client_run, [job_tuple(ctx, j) for j in picked])
    ctx.count('client', evaluations=len(picked), nontrivial_keys=[(j['family'], j['name'], j['tag']) for j in picked])
    for j, r in zip(picked, res):
        named = r['error'] is not None and f'for {j["name"]} outside of valid range' in r['error']
        if not (named and not r['result_file']):
            ctx.violate('property', key_of('client', j['tag'], j['cls'], j['name'], j.get('alias')),
                        f'client run of family {j["family"]} with {j.get("alias") or j["name"]} = {j["s"]!r} ({j["tag"]}): error={r["error"]!r}, '
                        f'result file written={r["result_file"]}',
                        inp={'layer': 'client', 'family': j['family'], 'cls': j['cls'], 'name': j['name'], 'tag': j['tag'], 's': j['s'],
                             'alias': j.get('alias')},
                        expected='RuntimeError naming the parameter, no result file', observed=r)


# ---------------------------------------------------------------------------------------------------------------
# round 2: the text of a value - nan / inf, junk, blanks, other number notations, options, booleans
# ---------------------------------------------------------------------------------------------------------------

def tkey(layer, c):
    return f'{layer}:{c["tag"]}:{c["kind"]}:{rp.OUTKIND[c["o"][0]]}:{c["cls"]}:{c["name"]}'


def tjudge(ctx, layer, cases, compare_model):
    """cases: dicts i, s, strict, o (observed, token vocabulary), tag, kind, cls, name -> verdicts evaluated in Coq"""
    def body(fn, cs):
        return lambda lo, hi: (f'run_tcases {fn} param_table [\n ' + ';\n '.join(
            f'({c["i"]}%nat, {rp.tok_of(c["s"])}, {"true" if c["strict"] else "false"}, {"true" if c.get("named") else "false"}, '
            + ('None' if c.get('else_to') is None else f'Some ({c["else_to"]})%Z') + f', {rp.tout_lit(c["o"])})' for c in cs[lo:hi]) + ']')
    both = '(fun t c => tcase_agrees t c && tcase_spec t c)' if compare_model else 'tcase_spec'
    bad = fw.kernel_eval(ctx, layer + '-verdict', TREQ, body(both, cases), len(cases), shard=400) if cases else []
    ctx.count(layer, evaluations=len(cases), nontrivial_keys=[(c.get('family'), c['cls'], c['name'], c['s']) for c in cases],
              probes={t: sum(1 for c in cases if c['tag'] == t) for t in sorted({c['tag'] for c in cases})},
              outcomes={k: sum(1 for c in cases if rp.OUTKIND[c['o'][0]] == k) for k in rp.OUTKIND.values()})
    for c in cases[:1]:
        ctx.sample(layer, {k: c[k] for k in ('cls', 'name', 'tag', 's')} | {'observed': str(c['o'])})
    sub = [cases[k] for k in bad]
    spec_bad = set(fw.kernel_eval(ctx, layer + '-spec', TREQ, body('tcase_spec', sub), len(sub), shard=400)) if compare_model and sub else set(range(len(sub)))
    for j, c in enumerate(sub):
        inp = {k: c[k] for k in ('cls', 'name', 'tag', 's', 'family', 'strict', 'kind') if c.get(k) is not None} | {'layer': layer}
        what = (f'{c["cls"]}.{c["name"]} = {c["s"]!r} ({c["tag"]}, {layer}' + (f', family {c["family"]}' if c.get('family') else '')
                + f'): {rp.OUTKIND[c["o"][0]]}' + (f' {c["o"][1]}' if len(c['o']) > 1 else ''))
        if j in spec_bad:
            ctx.violate('property', tkey(layer, c), what, inp=inp, observed=str(c['o']),
                        expected='a value outside the documented range / set is rejected by an error that names the parameter; a member is accepted and used')
        else:
            ctx.violate('corr', 'model:' + tkey(layer, c), 'Coq model read_option and the implementation disagree: ' + what, inp=inp, observed=str(c['o']))


def option_probes(r, o):
    """texts for an option row: every member, one below, one above, a gap value, another notation of a member, junk, a blank"""
    ms = sorted(o['members'])
    gaps = [n for n in range(ms[0], ms[-1] + 1) if n not in ms][:1]
    return ([('member', str(n)) for n in ms] + [('below', str(ms[0] - 1)), ('above', str(ms[-1] + 1))] + [('non-member', str(n)) for n in gaps]
            + [('float-form', f'{ms[-1]}.0'), ('float-form', f'{ms[0]}e0'), ('text', 'junk'), ('text', o['enum']), ('blank', f' {ms[0]}'),
               ('nan', 'nan'), ('inf', 'inf')])


def token_layer(ctx):
    model, srcs, rows, idx = live(ctx)
    pkgs = {c.__name__: (pkg, c) for pkg, c in paramtable.module_classes()}
    objs = dict(srcs)
    opts = paramtable.option_rows()
    bad = fw.kernel_eval(ctx, 'option-table', TREQ, lambda lo, hi: 'bad_options param_table option_table', len(opts), shard=len(opts))
    ctx.count('option-table', evaluations=len(opts), nontrivial_keys=[(o['cls'], o['name']) for o in opts], strict=sum(o['strict'] for o in opts))
    for k in bad:
        o = opts[k]
        ctx.violate('property', f'option-table:{o["cls"]}:{o["name"]}', f'{o["cls"]}.{o["name"]}: AllowableRange {rows[o["i"]]["runs"]} is not the set of '
                    f'members of {o["enum"]} {o["members"]}: an accepted value has no option, or an option cannot be selected',
                    inp={'layer': 'option-table', 'cls': o['cls'], 'name': o['name']})
    kind = {'KFloat': 'float', 'KInt': 'int'}
    rd, md = [], []
    for cls, o_, name, p, i, r in numeric_params(ctx, 'reader'):   # nan / inf / junk for every float and int declaration
        for tag, s in (('nan', 'nan'), ('inf', 'inf'), ('-inf', '-inf'), ('text', 'junk')):
            rd.append(dict(i=i, s=s, strict=False, tag=tag, kind=kind[r['kind']], cls=cls, name=name, o=rp.observe_tok_reader(p, name, s, model)))
    for cls, o_, name, p, i, r in numeric_params(ctx, 'module'):
        if r['kind'] == 'KInt':
            for tag, s in (('nan', 'nan'), ('inf', 'inf')):
                md.append(dict(i=i, s=s, strict=False, tag=tag, kind='int', cls=cls, name=name, o=rp.observe_tok_module(*pkgs[cls], model, name, s)))
    for o in opts:
        p = objs[o['cls']].ParameterDict[o['name']]
        for tag, s in option_probes(rows[o['i']], o):
            base = dict(i=o['i'], s=s, tag=tag, kind='int', cls=o['cls'], name=o['name'])
            rd.append(dict(base, strict=False, o=rp.observe_tok_reader(p, o['name'], s, model)))
            md.append(dict(base, strict=o['strict'], named=o['named'], else_to=o['else_to'], o=rp.observe_tok_module(*pkgs[o['cls']], model, o['name'], s)))
    tjudge(ctx, 'tok-reader', rd, compare_model=True)
    tjudge(ctx, 'tok-module', [c for c in md if c['kind'] == 'int'], compare_model=True)     # (float nan at module level: family layer)
    # Model.read_parameters: options in every family, nan for a seeded sample of float parameters
    strict_of = {(o['cls'], o['name']): o for o in opts}
    jobs = []
    for fam, kindf, base_text, parts in families():
        if fam not in ('standard', 'SBT', 'SUTRA', 'AGS'):     # between them they activate every class that holds an option
            continue
        for cls in active_classes(kindf, base_text, ctx):
            for o in opts:
                if o['cls'] == cls:
                    jobs += [dict(family=fam, base=base_text, cls=cls, name=o['name'], i=o['i'], s=s, tag=tag, kind='int', strict=o['strict'],
                                  named=o['named'], else_to=o['else_to']) for tag, s in option_probes(rows[o['i']], o) if tag != 'blank']  # (the tokenizer strips blanks)
    nanj = [dict(family=j['family'], base=j['base'], cls=j['cls'], name=j['name'], i=j['i'], s='nan', tag='nan', kind='float', strict=False)
            for j in family_jobs(ctx) if j['tag'] == 'min' and rows[j['i']]['kind'] == 'KFloat' and not j.get('alias') and j['kind'] == 'g']
    ctx.rng.shuffle(nanj)
    jobs += sorted(nanj[:ctx.n(150, 100000)], key=lambda j: (j['family'], j['cls'], j['name']))
    res = pool_map(ctx, rp.family_read_tok, [('g', j['base'], j['name'], j['s'], str(ctx.scratch)) for j in jobs])
    fam_cases, later = [], 0
    for j, (cls, o) in zip(jobs, res):
        if o[0] == 'E' and j['tag'] == 'member':
            later += 1                      # a member the rest of the configuration cannot work with: not C07
            continue
        cls = cls if (cls, j['name']) in idx else j['cls']
        oo = strict_of.get((cls, j['name']), j)
        fam_cases.append(dict(j, cls=cls, i=idx[(cls, j['name'])], strict=oo['strict'], named=oo.get('named'), else_to=oo.get('else_to'), o=o))
    ctx.count('tok-family', later_errors_for_members=later)
    tjudge(ctx, 'tok-family', fam_cases, compare_model=False)


BOOL_TEXTS = [('word', w) for w in ('0', '1', 'True', 'False', 'true', 'false', 'yes', 'No', 'n', 'Y', 't', 'F')] + \
             [('junk', w) for w in ('maybe', 'FALSE', 'TRUE', 'off', '2', 'nan', '-1')]


def bool_layer(ctx):
    """every boolParameter x documented words and junk through the real ReadParameter"""
    model, srcs, rows, idx = live(ctx)
    cases = []
    for cls, o in srcs:
        for name, p in o.ParameterDict.items():
            if rows[idx[(cls, name)]]['kind'] == 'KBool':
                cases += [dict(cls=cls, name=name, tag=tag, s=s, b=rp.observe_bool(p, name, s, model)) for tag, s in BOOL_TEXTS]

    def body(fn):
        return lambda lo, hi: f'run_bcases {fn} [\n ' + ';\n '.join(
            f'({paramtable.cs(c["s"])}, ' + ('None' if c['b'] is None else f'Some {"true" if c["b"] else "false"}') + ')' for c in cases[lo:hi]) + ']'
    agree = fw.kernel_eval(ctx, 'bool-model', TREQ, body('bcase_agrees'), len(cases), shard=600, open_scope='string_scope')
    spec = fw.kernel_eval(ctx, 'bool-spec', TREQ, body('bcase_spec'), len(cases), shard=600, open_scope='string_scope')
    ctx.count('bool-reader', evaluations=len(cases), nontrivial_keys=[(c['cls'], c['name'], c['s']) for c in cases],
              stored={str(k): sum(1 for c in cases if c['b'] is k) for k in (True, False, None)})
    for k in spec:
        c = cases[k]
        out = 'raised' if c['b'] is None else f'accepted-{str(c["b"]).lower()}'
        ctx.violate('property', f'bool-reader:{c["tag"]}:{out}:{c["cls"]}:{c["name"]}',
                    f'{c["cls"]}.{c["name"]} = {c["s"]!r}: {out} (documented words: 0/1, true/false, t/f, yes/no, y/n)',
                    inp={'layer': 'bool-reader', 'cls': c['cls'], 'name': c['name'], 's': c['s'], 'tag': c['tag']},
                    expected='documented word -> that boolean; anything else rejected naming the parameter', observed=out)
    for k in agree:
        c = cases[k]
        if k not in spec:
            ctx.violate('corr', f'model:bool-reader:{c["cls"]}:{c["name"]}:{c["s"]}', f'Coq read_bool and ReadParameter disagree on {c["name"]} = {c["s"]!r}: {c["b"]}',
                        inp={'layer': 'bool-reader', 'cls': c['cls'], 'name': c['name'], 's': c['s'], 'tag': c['tag']})


# ---------------------------------------------------------------------------------------------------------------
# unit-qualified values, and the value in use after Calculate (HIP-RA-X)
# ---------------------------------------------------------------------------------------------------------------

def unit_layer(ctx):
    """every float declaration with a pint-convertible unit family: values written in other units of the catalogue whose
    converted value sits at / next to the declared bounds; verdict = range model on the converted value (C07_unit_qualified)"""
    model = live(ctx)[0]
    cases, skipped = [], 0
    for cls, o, name, p, i, r in numeric_params(ctx, 'reader'):
        if r['kind'] != 'KFloat':
            continue
        for tag, s, c, unit in rp.unit_probes(p, r, ctx.n(2, 6)):
            obs = rp.observe_reader(p, name, s, model)
            if obs['o'][0] == 'C':
                skipped += 1          # pint / LookupUnits cannot handle the unit text (compound units, '%'): C06, not a range verdict
                continue
            cases.append(mk('unit', cls, name, i, tag, s, c, obs))
    ctx.count('unit', unit_text_not_understood_C06=skipped, units={u: 1 for u in sorted({c['s'].split(' ')[1] for c in cases})})
    judge(ctx, 'unit', cases, compare_model=True)
    # Model.read_parameters: out-of-range values in another unit must be rejected by name (in-range: value echo is C06)
    rows, idx = live(ctx)[2], live(ctx)[3]
    fam, kind, base, _ = families()[0]
    holder = {r['name']: r['cls'] for r in rows if r['cls'] in active_classes(kind, base, ctx)}
    jobs = [dict(c, cls=holder[c['name']], i=idx[(holder[c['name']], c['name'])]) for c in cases if c['tag'] != 'unit-in' and c['name'] in holder]
    ctx.rng.shuffle(jobs)
    jobs = sorted(jobs[:ctx.n(120, 3000)], key=lambda c: (c['cls'], c['name'], c['s']))
    res = pool_map(ctx, rp.family_read, [(kind, base, c['name'], c['s'], str(ctx.scratch)) for c in jobs])
    judge(ctx, 'unit-family', [mk('unit-family', c['cls'], c['name'], c['i'], c['tag'], c['s'], c['v'], obs, family=fam) for c, (_, obs) in zip(jobs, res)],
          compare_model=False)


def hip_calculate_layer(ctx):
    """HIP-RA-X: a documented bound (or any in-range value) is still the value the parameter holds after Calculate"""
    model, srcs, rows, idx = live(ctx)
    base = (fw.REPO / FAMILIES[-1][2]).read_text()
    jobs = []
    for r in rows:
        if r['cls'] == 'HIP_RA_X' and r['kind'] in ('KFloat', 'KInt'):
            jobs += [dict(cls=r['cls'], name=r['name'], i=idx[(r['cls'], r['name'])], tag=tag, s=s, v=v)
                     for tag, s, v in rp.probes(r, ctx.rng, extra=ctx.n(0, 4)) if tag in ('min', 'max', 'inside', 'member')]
    res = pool_map(ctx, rp.hip_calculate, [(base, j['name'], j['s'], str(ctx.scratch)) for j in jobs])
    cases, later = [], 0
    for j, out in zip(jobs, res):
        if isinstance(out, tuple) and out[0] == 'calc':
            later += 1                  # Calculate itself cannot work with the value: a later, physical rejection
            continue
        obs = {'o': ('C', out[1]), 'fin': None, 'prov': False} if isinstance(out, tuple) else {'o': ('A', F(out)), 'fin': F(out), 'prov': True}
        cases.append(mk('hip-calculate', j['cls'], j['name'], j['i'], j['tag'], j['s'], j['v'], obs, family='HIP-RA-X'))
    ctx.count('hip-calculate', calculate_errors_not_C07=later)
    judge(ctx, 'hip-calculate', cases, compare_model=False)


def validator_layer(ctx):
    """secondary validators that Calculate calls (EconomicsS_DAC_GT.range_check, the AGS verify methods): a documented
    bound / in-range value that ReadParameter accepted must pass them too, and still be the value in use"""
    model, srcs, rows, idx = live(ctx)
    cases, skipped = [], []
    for pkg, c in paramtable.module_classes():
        for meth in rp.VALIDATORS:
            if not callable(getattr(c, meth, None)):
                continue
            base = rp.observe_validator(pkg, c, model, None, None, meth)
            if base[0] != 'ok':
                skipped.append(f'{c.__name__}.{meth} ({base[0]} on the defaults)')      # needs a configured / calculated model
                continue
            for r in rows:
                if r['cls'] == c.__name__ and r['kind'] in ('KFloat', 'KInt'):
                    for tag, s, v in rp.probes(r, ctx.rng, extra=ctx.n(0, 4)):
                        if tag in ('min', 'max', 'inside', 'member'):
                            o = rp.observe_validator(pkg, c, model, r['name'], s, meth)
                            obs = {'o': ('A', o[1]), 'fin': o[1], 'prov': True} if o[0] == 'ok' and o[1] is not None else \
                                  {'o': ('C', f'{o[0]}: {o[1]}'), 'fin': None, 'prov': False}
                            cases.append(mk('validator', f'{c.__name__}.{meth}', r['name'], idx[(c.__name__, r['name'])], tag, s, v, obs))
    ctx.note(f'secondary validators not runnable on a freshly read module (skipped): {skipped}')
    judge(ctx, 'validator', cases, compare_model=False)


def corpus_layer(ctx):
    """regression seeds: (class, parameter, sValue) triples, reader + module level"""
    model, srcs, rows, idx = live(ctx)
    pkgs = {c.__name__: (pkg, c) for pkg, c in paramtable.module_classes()}
    objs = dict(srcs)
    cases = []
    for f in sorted((fw.VERIF / 'corpus' / 'C07').glob('*.json')):
        for e in json.loads(f.read_text())['cases']:
            k = (e['cls'], e['name'])
            if k not in idx:
                ctx.note(f'corpus {f.name}: {k} no longer declared')
                continue
            v = F(float(e['s']))
            cases.append(mk('reader', *k, idx[k], e['tag'], e['s'], v, rp.observe_reader(objs[e['cls']].ParameterDict[e['name']], e['name'], e['s'], model)))
            cases.append(mk('module', *k, idx[k], e['tag'], e['s'], v, rp.observe_module(*pkgs[e['cls']], model, e['name'], e['s'])))
    judge(ctx, 'corpus', [c for c in cases if c['layer'] == 'reader'], compare_model=True)
    judge(ctx, 'corpus-module', [c for c in cases if c['layer'] == 'module'], compare_model=False)


def correspondence(ctx, proofs_ok=True):
    import time
    paramtable.build_gen(ctx, ('Gen/ParamTable.vo', 'Gen/OptionTable.vo'))
    for layer in (corpus_layer, dict_key_layer, table_layer, reader_layer, module_layer, family_layer, client_layer, token_layer, bool_layer, unit_layer, hip_calculate_layer, validator_layer):
        t = time.time()
        layer(ctx)
        ctx.note(f'{layer.__name__}: {time.time() - t:.1f} s')


def search(ctx):
    """Only model-vs-reader disagreements / broken obligations so far: evaluate the property itself on the implementation
    around every disagreeing parameter (all probes, reader and module level)."""
    model, srcs, rows, idx = live(ctx)
    pkgs = {c.__name__: (pkg, c) for pkg, c in paramtable.module_classes()}
    objs = dict(srcs)
    todo = sorted({(v.inp['cls'], v.inp['name']) for v in ctx.violations if isinstance(v.inp, dict) and 'cls' in v.inp and (v.inp['cls'], v.inp['name']) in idx})
    cases = []
    for cls, name in todo:
        r = rows[idx[(cls, name)]]
        for tag, s, v in rp.probes(r, ctx.rng):
            cases.append(mk('reader', cls, name, idx[(cls, name)], tag, s, v, rp.observe_reader(objs[cls].ParameterDict[name], name, s, model)))
            cases.append(mk('module', cls, name, idx[(cls, name)], tag, s, v, rp.observe_module(*pkgs[cls], model, name, s)))
    judge(ctx, 'search', cases, compare_model=False)


def replay_units(ctx, inp, k):
    model, srcs, rows, idx = live(ctx)
    p, r = dict(srcs)[k[0]].ParameterDict[k[1]], rows[idx[k]]
    if inp['layer'] == 'hip-calculate':
        out = rp.hip_calculate(((fw.REPO / FAMILIES[-1][2]).read_text(), k[1], inp['s'], str(ctx.scratch)))
        print(f'HIP-RA-X with {k[1]} = {inp["s"]!r}: value held after read_parameters + Calculate: {out}')
        obs = {'o': ('C', str(out)), 'fin': None, 'prov': False} if isinstance(out, tuple) else {'o': ('A', F(out)), 'fin': F(out), 'prov': True}
        cs = [('hip-calculate', mk('hip-calculate', *k, idx[k], inp.get('tag', '?'), inp['s'], F(float(inp['s'])), obs))]
    else:
        x, unit = inp['s'].split(' ')
        c = rp.convert_as_reader(float(x), unit, p.CurrentUnits.value)
        print(f'{inp["s"]} = {c} {p.CurrentUnits.value} (pint); declared range [{float(r["min"])}, {float(r["max"])}] {p.CurrentUnits.value}')
        cs = [('unit', mk('unit', *k, idx[k], inp.get('tag', '?'), inp['s'], F(c), rp.observe_reader(p, k[1], inp['s'], model)))]
        if c < r['min'] or c > r['max']:
            fam, kind, base, _ = families()[0]
            cs.append(('unit-family', mk('unit-family', *k, idx[k], inp.get('tag', '?'), inp['s'], F(c), rp.family_read((kind, base, k[1], inp['s'], str(ctx.scratch)))[1])))
    bad = 0
    for layer, c in cs:
        agrees = not kernel(ctx, 'replay-agree', 'rcase_agrees', [c]) if layer == 'unit' else None
        ok = not kernel(ctx, 'replay-spec', 'rcase_spec', [c])
        print(f'{layer:13s} implementation: {rp.show(c["obs"])}' + (f' | Coq model (on the converted value) agrees: {agrees}' if agrees is not None else '') + f' | spec_ok: {ok}')
        bad += not ok
    print('property', 'VIOLATED' if bad else 'holds', 'on this input')
    return 1 if bad else 0


def replay_text(ctx, inp, k, pkgs):
    """round-2 layers: the text of a value"""
    model, srcs, rows, idx = live(ctx)
    p = dict(srcs)[k[0]].ParameterDict[k[1]]
    if inp['layer'] == 'option-table':
        opts = paramtable.option_rows()
        bad = fw.kernel_eval(ctx, 'option-table', TREQ, lambda lo, hi: 'bad_options param_table option_table', len(opts), shard=len(opts))
        fails = any(opts[j]['cls'] == k[0] and opts[j]['name'] == k[1] for j in bad)
        print('option_ok on the regenerated row:', not fails)
        print('property', 'VIOLATED' if fails else 'holds', 'on this input')
        return 1 if fails else 0
    if inp['layer'].startswith('bool-'):
        b = rp.observe_bool(p, k[1], inp['s'], model)
        lit = f'({paramtable.cs(inp["s"])}, ' + ('None' if b is None else f'Some {"true" if b else "false"}') + ')'
        ok = [not fw.kernel_eval(ctx, 'replay-bool', TREQ, lambda lo, hi, f=f: f'run_bcases {f} [{lit}]', 1, open_scope='string_scope') for f in ('bcase_agrees', 'bcase_spec')]
        print(f'{k[1]} = {inp["s"]!r}: implementation stores {b} | Coq read_bool agrees: {ok[0]} | property (documented word -> that boolean, else rejected): {ok[1]}')
        print('property', 'holds' if ok[1] else 'VIOLATED', 'on this input')
        return 0 if ok[1] else 1
    o = next((x for x in paramtable.option_rows() if x['cls'] == k[0] and x['name'] == k[1]), {'strict': False, 'named': False, 'else_to': None})
    base = dict(i=idx[k], s=inp['s'], tag=inp.get('tag', '?'), kind=inp.get('kind', 'int'), cls=k[0], name=k[1])
    obs = [('tok-reader', dict(base, strict=False, o=rp.observe_tok_reader(p, k[1], inp['s'], model))),
           ('tok-module', dict(base, strict=o['strict'], named=o['named'], else_to=o['else_to'], o=rp.observe_tok_module(*pkgs[k[0]], model, k[1], inp['s'])))]
    fam = next((f for f in families() if f[0] == inp.get('family')), None)
    if fam:
        obs.append(('tok-family', dict(base, strict=o['strict'], named=o['named'], else_to=o['else_to'], family=fam[0],
                                       o=rp.family_read_tok(('g', fam[2], k[1], inp['s'], str(ctx.scratch)))[1])))
    bad = 0
    for layer, c in obs:
        n0 = len(ctx.violations)
        tjudge(ctx, layer, [c], compare_model=layer != 'tok-family')
        new = ctx.violations[n0:]
        print(f'{layer:10s} {k[1]} = {inp["s"]!r}: implementation: {rp.OUTKIND[c["o"][0]]} {c["o"][1:] or ""} | Coq model agrees: '
              f'{not any(v.kind == "corr" for v in new)} | property: {"VIOLATED" if any(v.kind == "property" for v in new) else "holds"}')
        bad += any(v.kind == 'property' for v in new)
    print('property', 'VIOLATED' if bad else 'holds', 'on this input')
    return 1 if bad else 0


def replay(ctx, data):
    inp = data['input']
    for g in GENERATORS:
        g(ctx)
    paramtable.build_gen(ctx, ('Gen/ParamTable.vo', 'Gen/OptionTable.vo', 'Model/TokenReader.vo'))
    model, srcs, rows, idx = live(ctx)
    k = (inp['cls'].split('.')[0], inp['name'])
    if k not in idx:
        print('parameter no longer declared:', k)
        return 1
    r = rows[idx[k]]
    print(f'declaration {k}: kind={r["kind"]} default={r["default"]} start value={r["value"]} Min={float(r["min"])} Max={float(r["max"])} AllowableRange runs={r["runs"]}')
    if inp.get('layer') == 'table':
        bad = fw.kernel_eval(ctx, 'table', REQ, lambda lo, hi: 'table_bad_rows param_table', len(rows), shard=len(rows))
        fails = idx[k] in bad
        print('row_ok on the regenerated row:', not fails)
        print('property', 'VIOLATED' if fails else 'holds', 'on this input')
        return 1 if fails else 0
    pkgs = {c.__name__: (pkg, c) for pkg, c in paramtable.module_classes()}
    if inp.get('layer') in ('validator', 'dict-key'):
        n0 = len(ctx.violations)
        (validator_layer if inp['layer'] == 'validator' else dict_key_layer)(ctx)
        hits = [v for v in ctx.violations[n0:] if v.key == data.get('key')]
        for v in hits:
            print('still failing:', v.what[:400])
        print('property', 'VIOLATED' if hits else 'holds', 'on this input')
        return 1 if hits else 0
    if str(inp.get('layer', '')).startswith(('unit', 'hip-calculate')):
        return replay_units(ctx, inp, k)
    if str(inp.get('layer', '')).startswith(('tok-', 'bool-', 'option-')):
        return replay_text(ctx, inp, k, pkgs)
    s, v = inp['s'], F(float(inp['s']))
    alias = inp.get('alias')
    obs = {'reader': rp.observe_reader(dict(srcs)[k[0]].ParameterDict[k[1]], k[1], s, model),
           'module': rp.observe_module(*pkgs[k[0]], model, k[1], s, key=alias)}
    if alias:
        print(f'(written under the deprecated input name {alias!r}; the reader line is the current name, for comparison)')
    fam = next((f for f in families() if f[0] == inp.get('family')), None)
    if fam:
        job = (fam[1], fam[2], k[1], s, str(ctx.scratch), alias)
        obs['family'] = rp.family_read(job)[1]
        if inp.get('layer') == 'client':
            print('client:', rp.client_run(job))
    bad = 0
    for layer, o in obs.items():
        c = mk(layer, *k, idx[k], inp.get('tag', '?'), s, v, o)
        agrees = not kernel(ctx, 'replay-agree', 'rcase_agrees', [c]) if layer == 'reader' else None
        ok = not kernel(ctx, 'replay-spec', 'rcase_spec', [c])
        print(f'{layer:7s} {k[1]} = {s!r}: implementation: {rp.show(o)}' + (f' | Coq model agrees: {agrees}' if agrees is not None else '')
              + f' | spec_ok: {ok}')
        bad += not ok
    print('property', 'VIOLATED' if bad else 'holds', 'on this input')
    return 1 if bad else 0
