"""C19 - the published parameter schema matches what the simulator accepts."""
import math
import tempfile
from fractions import Fraction as F
from pathlib import Path

from gen import paramtable, schematables
from lib import framework as fw, qconv, rangeprobe as rp

META = {
    'props': 'Props/C19.v',
    'claimed': True,
    'level_text': ('Proof (partial) over regenerated tables: Gen/ParamTable (every Parameter of every module class found by scanning geophires_x and '
                   'hip_ra_x - not the generator\'s own list) and Gen/SchemaTables (schema generated now, the three committed JSON files, the client\'s '
                   'field list) are rebuilt from the tree on every run; executable Coq comparisons (names both ways, type/unit/default/min/max/option '
                   'list per consistently declared parameter, committed = generated entry by entry, result fields within the client\'s fields) are '
                   'evaluated on them in the kernel and are proved sound for ANY tables (13 theorems, axiom-free).  For every value, "allowed by the '
                   'schema entry" is proved equal to "inside the domain the reader enforces" (floats; ints with a published option list or a '
                   'one-interval AllowableRange; soundness only for gapped ranges without option list), and through the C07 reader model to '
                   'accepted-and-used / rejected-by-name; for the array parameters read through ReadParameter (Gradients, Thicknesses) the list '
                   'reader is modelled (it warns and keeps the list instead of raising) and "first element schema-allowed <-> supplied list stored" '
                   'is proved for every value (later elements are never checked: C19_list_rest_refuted, recorded finding).  The pinned tree refutes the names clause (30 accepted names not published: '
                   'C19_names_refuted) and one bound (Maximum Drawdown: C19_bound_refuted); both are recorded findings.'),
    'level_text_round2': ('Round 2: the input tables of the generated parameter reference (.rst; GEOPHIRES-X and HIP-RA-X) are parsed into the same '
                          'entry type and compared with the ParameterDicts (names both ways; rendered type, preferred unit, default, Min, Max per '
                          'consistently declared parameter: C19_rst_fields / _meaning / _enforced_float); real reports of example runs (incl. add-ons and '
                          'S-DAC-GT): every result-schema field whose label the report prints with a value is extracted with a value (C19_report_fields).'),
    'level_note': ('Trusted: Coq kernel + vm_compute; the generators (unverified Python) that dump declarations, run the schema generator, read the '
                   'committed files and hash entries (SHA-256 prefix, for committed = generated); the reader model is tied to ReadParameter by C07 '
                   'and re-tied here at every schema bound. Defaults are compared within 1e-9 relative (the generator prettifies decimals), bounds '
                   'exactly.  The .rst reference pages and the parameters that specialised modules redefine are not claimed.'),
    'technique': 'Coq proof about an executable Gallina model + kernel-evaluated correspondence with the implementation',
    'rule': ('finite and exhaustive: every row of the regenerated parameter table x every entry of the generated and committed request schemas '
             '(GEOPHIRES-X and HIP-RA-X) x every field category of the result schema; enforcement cases = (schema entry, accepting class, value (lists: first element, and one out-of-bounds later element; reader and Model.read_parameters level) at / '
             'next to / inside the schema bounds or option list) run through the real ReadParameter; result fields additionally extracted by the '
             'real client from a synthetic report line; non-trivial = distinct (check, name, field or class, value)'),
    'trusted_base': ['Coq 8.16.1 kernel + vm_compute (no native_compute)',
                     'all C19 theorems: Closed under the global context (no axioms)',
                     'tools/gen/paramtable.py, tools/gen/schematables.py, tools/props/C19.py, tools/lib/rangeprobe.py (unverified Python); SHA-256'],
    'modelled': ['GeophiresXSchemaGenerator.generate_json_schema / HipRaXSchemaGenerator (as regenerated data)', 'Parameter declarations (as regenerated data)',
                 'Parameter.ReadParameter range validation (Model/RangeReader.v, C07)', 'GeophiresXResult._RESULT_FIELDS_BY_CATEGORY (as regenerated data)'],
    'assumptions': ['the parameters a module accepts are the entries of its ParameterDict (every read_parameters loop iterates over it: exercised by C07)',
                    'JSON numbers are compared as exact rationals of the doubles json.loads returns'],
    'fingerprint': [('src/geophires_x_schema_generator/__init__.py', 'GeophiresXSchemaGenerator.get_parameter_sources'),
                    ('src/geophires_x_schema_generator/__init__.py', 'GeophiresXSchemaGenerator.generate_json_schema'),
                    ('src/geophires_x_schema_generator/__init__.py', 'GeophiresXSchemaGenerator.get_result_json_schema'),
                    ('src/geophires_x_schema_generator/__init__.py', '_get_min_and_max'),
                    ('src/geophires_x_schema_generator/__init__.py', '_fix_floating_point_error'),
                    ('src/geophires_x/Parameter.py', 'ReadParameter'), ('src/geophires_x/Parameter.py', 'ConvertUnits')],
    'exhaustive': True,
}
GENERATORS = (paramtable.gen_paramtable, schematables.gen_schematables)
REQ = ['Base.ParamRec', 'Model.RangeReader', 'Model.Schema', 'Gen.ParamTable', 'Gen.SchemaTables']
FIELDS = ('f_type', 'f_units', 'f_min', 'f_max', 'f_default', 'f_enum')
JSON_KEY = {'f_type': 'type', 'f_units': 'units', 'f_min': 'minimum', 'f_max': 'maximum', 'f_default': 'default', 'f_enum': 'enum_values'}
PROGRAMS = {'geophires': ('geo_classes', 'gen_request', 'com_request', 'gen_required', 'com_required'),
            'hip-ra-x': ('hip_classes', 'gen_hip', 'com_hip', 'gen_hip_required', 'com_hip_required')}


def kbad(ctx, part, term, n):
    """indices on which the Coq boolean list check `bad f l` fails (one kernel evaluation over the regenerated tables)"""
    return fw.kernel_eval(ctx, part, REQ, lambda lo, hi: term, n, shard=max(1, n)) if n else []


def kbad_many(ctx, jobs):
    """jobs: [(part, term, n)] evaluated concurrently -> list of index lists"""
    from concurrent.futures import ThreadPoolExecutor
    with ThreadPoolExecutor(max_workers=8) as ex:
        return list(ex.map(lambda j: kbad(ctx, *j), jobs))


def tables(ctx):
    if not hasattr(ctx, '_c19'):
        ctx._c19 = (paramtable.rows(), schematables.load())
    return ctx._c19


def decl_text(rs):
    return '; '.join(f'{r["cls"]}: kind={r["kind"][1:]} default={r["deftxt"]} Min={float(r["min"])} Max={float(r["max"])} range={r["runs"]} '
                     f'units={r["units"]!r} type={r["jtype"]}' for r in rs[:4])


def names_layer(ctx):
    rows, d = tables(ctx)
    for prog, (ck, gk, _, _, _) in PROGRAMS.items():
        t = [r for r in rows if r['cls'] in d[ck]]
        T = f'(rows_of {ck} param_table)'
        missing = sorted({t[i]['name'] for i in kbad(ctx, f'names-missing-{prog}', f'bad (name_published {gk}) {T}', len(t))})
        extra = [d[gk][i]['name'] for i in kbad(ctx, f'names-extra-{prog}', f'bad (name_accepted {T}) {gk}', len(d[gk]))]
        ctx.count('names', evaluations=len(t) + len(d[gk]), nontrivial_keys=[(prog, r['name']) for r in t] + [(prog, e['name']) for e in d[gk]],
                  accepted_names={prog: len({r['name'] for r in t})}, schema_names={prog: len(d[gk])},
                  parameter_sources={prog: len({r['cls'] for r in t})})
        for n in missing:
            holders = sorted({r['cls'] for r in t if r['name'] == n})
            ctx.violate('property', f'names:missing:{prog}:{n}',
                        f'input parameter {n!r} is accepted by {", ".join(holders)} but is not in the generated {prog} request schema',
                        inp={'check': 'names', 'program': prog, 'name': n}, expected='listed in the request schema', observed=f'accepted by {holders}, not listed')
        for n in extra:
            ctx.violate('property', f'names:extra:{prog}:{n}', f'the generated {prog} request schema lists {n!r}, which no module class accepts',
                        inp={'check': 'names', 'program': prog, 'name': n}, expected='accepted by some module', observed='in no ParameterDict')
        ctx.sample('names', {'program': prog, 'accepted': len({r['name'] for r in t}), 'published': len(d[gk]), 'missing': missing[:5], 'extra': extra[:5]})


def fields_layer(ctx):
    rows, d = tables(ctx)
    for prog, (ck, gk, _, _, _) in PROGRAMS.items():
        t = [r for r in rows if r['cls'] in d[ck]]
        T = f'(rows_of {ck} param_table)'
        sch = d[gk]
        incons = [sch[i]['name'] for i in kbad(ctx, f'consistent-{prog}',
                  f'bad (fun s => match find_name (s_name s) {T} with Some p => consistent {T} p | None => true end) {gk}', len(sch))]
        ctx.note(f'{prog}: parameters redefined by specialised modules (bound/default clause not claimed): {incons}')
        ctx.count('fields', claimed={prog: len(sch) - len(incons)}, redefined={prog: len(incons)})
        results = kbad_many(ctx, [(f'{f}-{prog}', f'bad (entry_ok {f} {T}) {gk}', len(sch)) for f in FIELDS])
        for f, badi in zip(FIELDS, results):
            ctx.count('fields', evaluations=len(sch), nontrivial_keys=[(prog, e['name'], f) for e in sch if e['name'] not in incons])
            for i in badi:
                e = sch[i]
                rs = [r for r in t if r['name'] == e['name']]
                ctx.violate('property', f'field:{prog}:{e["name"]}:{JSON_KEY[f]}',
                            f'{prog} schema entry {e["name"]!r}: {JSON_KEY[f]} = {e["raw"].get(JSON_KEY[f])!r} is not what the simulator enforces ({decl_text(rs)})',
                            inp={'check': 'field', 'program': prog, 'name': e['name'], 'field': f}, expected=decl_text(rs),
                            observed={k: e['raw'].get(k) for k in ('type', 'units', 'default', 'minimum', 'maximum')})
        ctx.sample('fields', {'program': prog, 'entry': {k: sch[0]['raw'].get(k) for k in ('type', 'units', 'default', 'minimum', 'maximum')},
                              'declaration': decl_text([r for r in t if r['name'] == sch[0]['name']])})


def committed_layer(ctx):
    rows, d = tables(ctx)
    for prog, (_, gk, ck, grk, crk) in PROGRAMS.items():
        fname = schematables.FILES['request' if prog == 'geophires' else 'hip_request']
        for a, b, what in ((ck, gk, 'committed entry differs from / is absent in the generated schema'), (gk, ck, 'generated entry differs from / is absent in the committed file')):
            for i in kbad(ctx, f'committed-{prog}-{a}', f'bad (entry_in {b}) {a}', len(d[a])):
                n = d[a][i]['name']
                other = next((e['raw'] for e in d[b] if e['name'] == n), None)
                ctx.violate('property', f'committed:{prog}:{n}', f'{fname}: {what}: {n!r}',
                            inp={'check': 'committed', 'program': prog, 'name': n}, expected=other, observed=d[a][i]['raw'])
        ctx.count('committed', evaluations=len(d[gk]) + len(d[ck]), nontrivial_keys=[(prog, e['name']) for e in d[gk]])
        if sorted(d[grk]) != sorted(d[crk]) or kbad(ctx, f'required-{prog}', f'bad (fun b : bool => b) [same_strings {grk} {crk}]', 1):
            ctx.violate('property', f'committed:{prog}:<required>', f'{fname}: "required" differs from the generated list',
                        inp={'check': 'committed', 'program': prog, 'name': '<required>'}, expected=d[grk], observed=d[crk])
    for i, (key, fname) in enumerate((('request', 'geophires-request.json'), ('hip', 'hip-ra-x-request.json'), ('result', 'geophires-result.json'))):
        if kbad(ctx, f'meta-{key}', f'bad (fun b : bool => b) [String.eqb (nth {i} gen_meta "g"%string) (nth {i} com_meta "c"%string)]', 1):
            ctx.violate('property', f'committed:{key}:<top-level>', f'{fname}: title / $schema / other top-level keys differ from the generated schema',
                        inp={'check': 'committed', 'program': key, 'name': '<top-level>'})
    for a, b in (('com_result', 'gen_result'), ('gen_result', 'com_result')):
        for i in kbad(ctx, f'committed-result-{a}', f'bad (rfield_in {b}) {a}', len(d[a])):
            e = d[a][i]
            ctx.violate('property', f'committed:result:{e["category"]}:{e["field"]}',
                        f'geophires-result.json: {a} entry {e["category"]!r}/{e["field"]!r} differs from / is absent in {b}',
                        inp={'check': 'committed', 'program': 'result', 'name': f'{e["category"]}/{e["field"]}'})
    ctx.count('committed', evaluations=len(d['gen_result']) + len(d['com_result']), nontrivial_keys=[('result', e['category'], e['field']) for e in d['gen_result']])


def synthetic_extract(cat, field):
    """the real client on a one-field synthetic report -> extracted entry (None when the client cannot extract it)"""
    from geophires_x_client import GeophiresXResult
    # noinspection PyProtectedMember
    kinds = {(c, f if isinstance(f, str) else f.field_name): type(f).__name__ for c, fs in GeophiresXResult._RESULT_FIELDS_BY_CATEGORY.items() for f in fs}
    kind = kinds.get((cat, field), 'str')
    line = {'_EqualSignDelimitedField': f'    {field} = Synthetic Value\n', '_StringValueField': f'    {field}:  Synthetic Value\n'}.get(
        kind, f'    {field}:                      12.50 kW\n')
    if cat == 'Simulation Metadata':
        line = line[3:]
    with tempfile.NamedTemporaryFile('w', suffix='.out', delete=False, dir=tempfile.gettempdir()) as fh:
        fh.write(f'\n                               *****************\n                               ***CASE REPORT***\n\n{line}\n')
    try:
        return GeophiresXResult(fh.name).result.get(cat, {}).get(field)
    except Exception as e:  # noqa
        return None
    finally:
        Path(fh.name).unlink(missing_ok=True)


def result_layer(ctx):
    rows, d = tables(ctx)
    seen = set()
    for lst in ('gen_result', 'com_result'):
        for i in kbad(ctx, f'result-fields-{lst}', f'bad (extractable client_fields) {lst}', len(d[lst])):
            e = d[lst][i]
            seen.add((e['category'], e['field']))
            ctx.violate('property', f'result-field:{e["category"]}:{e["field"]}',
                        f'result schema ({lst}) names {e["category"]!r}/{e["field"]!r}, which is not a field the client extracts',
                        inp={'check': 'result-field', 'category': e['category'], 'field': e['field']})
    fields = sorted({(e['category'], e['field']) for lst in ('gen_result', 'com_result') for e in d[lst]})
    got = 0
    for cat, f in fields:
        v = synthetic_extract(cat, f)
        got += v is not None
        if v is None and (cat, f) not in seen:
            ctx.violate('property', f'result-field:{cat}:{f}',
                        f'the client returns nothing for result-schema field {cat!r}/{f!r} from a report that contains exactly that line',
                        inp={'check': 'result-field', 'category': cat, 'field': f}, expected='value extracted', observed=None)
    ctx.count('result-fields', evaluations=len(d['gen_result']) + len(d['com_result']) + len(fields), nontrivial_keys=fields,
              categories=len({c for c, _ in fields}), extracted_from_synthetic_report=got)
    ctx.sample('result-fields', {'field': fields[0], 'extracted': synthetic_extract(*fields[0])})


def schema_probes(e, rnd=None, extra=0):
    """values at / next to / inside what the schema entry publishes -> [(tag, sValue)]; thorough: + random values"""
    lo, hi = e['min'], e['max']
    if e['type'] == 'integer':
        if e['enum']:
            ms = sorted(e['enum'])
            gaps = [n for n in range(ms[0], ms[-1] + 1) if n not in ms][:1]
            return [('member', str(n)) for n in ms] + [('non-member', str(n)) for n in gaps] + [('below-min', str(ms[0] - 1)), ('above-max', str(ms[-1] + 1))]
        if lo is None or hi is None:
            return []
        lo, hi = int(lo), int(hi)
        rand = [t for _ in range(extra) for t in (('inside', str(rnd.randint(lo, hi))), ('below-min', str(lo - rnd.randint(1, 99))),
                                                  ('above-max', str(hi + rnd.randint(1, 99))))]
        return [('min', str(lo)), ('max', str(hi)), ('below-min', str(lo - 1)), ('above-max', str(hi + 1))] + ([('inside', str((lo + hi) // 2))] if hi - lo > 1 else []) + rand
    if e['type'] == 'number' and lo is not None and hi is not None:
        lo, hi = float(lo), float(hi)
        out = [('min', lo), ('max', hi), ('below-min', math.nextafter(lo, -math.inf) if lo else -2.0 ** -60),
               ('above-max', math.nextafter(hi, math.inf) if hi else 2.0 ** -60), ('inside', lo + (hi - lo) / 3)]
        for _ in range(extra):
            u, span = rnd.random(), (hi - lo) or 1.0
            out += [('inside', lo + (hi - lo) * u), ('below-min', lo - span * (u + 1e-6) * rnd.choice([1e-9, 1e-3, 1.0])),
                    ('above-max', hi + span * (u + 1e-6) * rnd.choice([1e-9, 1e-3, 1.0]))]
        out = [(t, x) for t, x in out if (t != 'below-min' or x < lo) and (t != 'above-max' or x > hi) and (t != 'inside' or lo <= x <= hi)]
        return [(t, rp.fl(x)) for t, x in out]
    return []


def enforce_layer(ctx):
    """every schema bound against the real ReadParameter of every class that accepts the name (consistent names only)"""
    rows, d = tables(ctx)
    model = paramtable.dummy_model()
    objs, idx = dict(paramtable.sources(model)), paramtable.index()
    for prog, (ck, gk, _, _, _) in PROGRAMS.items():
        t = [r for r in rows if r['cls'] in d[ck]]
        cases = []
        for j, e in enumerate(d[gk]):
            rs = [r for r in t if r['name'] == e['name'] and r['kind'] in ('KFloat', 'KInt')]
            if not rs or len({(r['kind'], r['default'], r['min'], r['max'], tuple(r['runs']), r['units'], r['jtype'], r['deftxt']) for r in rs}) > 1:
                continue
            for tag, s in schema_probes(e, ctx.rng, ctx.n(0, 6)):
                for r in rs:
                    obs = rp.observe_reader(objs[r['cls']].ParameterDict[r['name']], r['name'], s, model)
                    cases.append(dict(j=j, i=idx[(r['cls'], r['name'])], v=F(float(s)), obs=obs, tag=tag, s=s, cls=r['cls'], name=r['name']))

        def body(lo, hi):
            items = ';\n '.join(f'({c["j"]}%nat, {c["i"]}%nat, {qconv.q(c["v"])}, {rp.outcome_lit(c["obs"]["o"])}, '
                                + ('None' if c['obs']['fin'] is None else f'(Some {qconv.q(c["obs"]["fin"])})') + ')' for c in cases[lo:hi])
            return f'bad (ecase_ok param_table {gk}) [\n {items}]'
        badi = fw.kernel_eval(ctx, f'enforce-{prog}', REQ, body, len(cases), shard=400) if cases else []
        ctx.count('enforce', evaluations=len(cases), nontrivial_keys=[(prog, c['cls'], c['name'], c['tag'], c['s']) for c in cases],
                  probes={tg: sum(1 for c in cases if c['tag'] == tg) for tg in sorted({c['tag'] for c in cases})})
        for c in cases[:1]:
            ctx.sample('enforce', {k: c[k] for k in ('cls', 'name', 'tag', 's')} | {'observed': rp.show(c['obs'])})
        for k in badi:
            c = cases[k]
            e = d[gk][c['j']]
            ctx.violate('property', f'enforce:{prog}:{c["name"]}:{c["tag"]}',
                        f'{prog} schema entry {c["name"]!r} (minimum={e["raw"].get("minimum")!r}, maximum={e["raw"].get("maximum")!r}) vs the reader of '
                        f'{c["cls"]} at {c["s"]!r} ({c["tag"]}): {rp.show(c["obs"])}',
                        inp={'check': 'enforce', 'program': prog, 'name': c['name'], 'cls': c['cls'], 'tag': c['tag'], 's': c['s']},
                        expected='accepted and used iff the schema entry allows the value', observed=rp.show(c['obs']))


RST = {'geophires': ('geo_classes', 'gen_rst'), 'hip-ra-x': ('hip_classes', 'gen_hip_rst')}
RST_COLS = {'f_type': 'Default Value Type', 'f_pref': 'Preferred Units', 'f_min': 'Min', 'f_max': 'Max', 'f_default': 'Default Value'}


def rst_layer(ctx):
    """the input tables of the generated parameter reference (.rst) against the ParameterDicts: names both ways, and per
    consistently declared parameter the rendered type, preferred unit, default, Min, Max"""
    rows, d = tables(ctx)
    for prog, (ck, rk) in RST.items():
        t = [r for r in rows if r['cls'] in d[ck]]
        T = f'(rows_of {ck} param_table)'
        sch = d[rk]
        jobs = [(f'rst-missing-{prog}', f'bad (name_published {rk}) {T}', len(t)), (f'rst-extra-{prog}', f'bad (name_accepted {T}) {rk}', len(sch))] + \
               [(f'rst-{f}-{prog}', f'bad (entry_ok {f} {T}) {rk}', len(sch)) for f in RST_COLS]
        res = kbad_many(ctx, jobs)
        ctx.count('rst', evaluations=len(t) + len(sch) * (1 + len(RST_COLS)), nontrivial_keys=[(prog, e['name'], f) for e in sch for f in RST_COLS], rows={prog: len(sch)})
        for n in sorted({t[i]['name'] for i in res[0]}):
            ctx.violate('property', f'rst-names:missing:{prog}:{n}', f'input parameter {n!r} is accepted by {sorted({r["cls"] for r in t if r["name"] == n})} '
                        f'but has no row in the generated {prog} parameter reference (.rst)', inp={'check': 'rst', 'program': prog, 'name': n})
        for i in res[1]:
            ctx.violate('property', f'rst-names:extra:{prog}:{sch[i]["name"]}', f'the generated {prog} parameter reference lists {sch[i]["name"]!r}, which no module accepts',
                        inp={'check': 'rst', 'program': prog, 'name': sch[i]['name']})
        for f, badi in zip(RST_COLS, res[2:]):
            for i in badi:
                e = sch[i]
                rs = [r for r in t if r['name'] == e['name']]
                ctx.violate('property', f'rst-field:{prog}:{e["name"]}:{RST_COLS[f]}',
                            f'{prog} parameter reference row {e["name"]!r}: {RST_COLS[f]} is rendered as {e["raw"][RST_COLS[f]]!r}, the simulator has ({decl_text(rs)}; '
                            f'preferred units {rs[0]["pref"]!r})', inp={'check': 'rst', 'program': prog, 'name': e['name'], 'field': f}, expected=decl_text(rs), observed=e['raw'])
        ctx.sample('rst', {'program': prog, 'row': sch[0]['name'], 'rendered': sch[0]['raw']})


REPORT_EXAMPLES = ('example1.txt', 'example1_addons.txt', 'S-DAC-GT.txt', 'example2.txt', 'example3.txt', 'example10_HP.txt')


def printed_labels(report, fields):
    """(category, field) of the result schema whose label a report line prints: the line, stripped, starts with the
    label followed by ':' (value fields) or ' =' (equal-sign fields) - independent of the client's own matching"""
    lines = [ln.strip() for ln in report.splitlines() if ln.split(':', 1)[-1].strip() != 'N/A']      # 'N/A' prints no value
    return [(c, f) for c, f in fields if any(ln.startswith(f + ':') or ln.startswith(f + ' =') for ln in lines)]


def reports_layer(ctx):
    """real runs: every result-schema field that the report prints comes back from the client with a value"""
    from geophires_x_client import GeophiresXResult
    from lib import runner
    rows, d = tables(ctx)
    fields = [(e['category'], e['field']) for e in d['gen_result']]
    names = REPORT_EXAMPLES[:ctx.n(4, len(REPORT_EXAMPLES))]
    res = runner.run_many(ctx, [(fw.REPO / 'tests' / 'examples' / n).read_text() for n in names])
    cs = paramtable.cs
    for n, r in zip(names, res):
        if not r['ok'] or not r['report']:
            ctx.violate('corr', f'report-run:{n}', f'example {n} no longer runs: {r["error"]}', inp={'check': 'report', 'example': n})
            continue
        path = Path(ctx.scratch, f'report_{n}.out')
        path.write_text(r['report'])
        got = GeophiresXResult(str(path)).result
        printed = printed_labels(r['report'], fields)
        extracted = [(c, f) for c, f in fields if isinstance(got.get(c, {}).get(f), dict) and got[c][f].get('value') is not None
                     or isinstance(got.get(c, {}).get(f), (str, int, float))]
        term = ('bad (report_field_ok [' + '; '.join(f'({cs(c)}, {cs(f)})' for c, f in printed) + '] ['
                + '; '.join(f'({cs(c)}, {cs(f)})' for c, f in extracted) + ']) gen_result')
        badi = kbad(ctx, f'report-{n}', term, len(d['gen_result']))
        ctx.count('reports', evaluations=len(fields), nontrivial_keys=[(n, c, f) for c, f in printed], printed={n: len(printed)}, extracted={n: len(extracted)})
        ctx.sample('reports', {'example': n, 'printed schema fields': len(printed), 'extracted': len(extracted)})
        for i in badi:
            c, f = fields[i]
            line = next((ln for ln in r['report'].splitlines() if ln.strip().startswith(f + ':') or ln.strip().startswith(f + ' =')), '')
            ctx.violate('property', f'report-field:{c}:{f}', f'example {n}: the report prints {line.strip()!r} but the client returns {got.get(c, {}).get(f)!r} for '
                        f'result-schema field {c!r}/{f!r}', inp={'check': 'report', 'example': n, 'category': c, 'field': f}, expected='extracted with a value',
                        observed=got.get(c, {}).get(f))


LIST_FAMILIES = (('standard', 'tests/examples/example1.txt'), ('direct-use', 'tests/examples/example2.txt'))
PER_SEGMENT = ('Gradient ', 'Thickness ', 'Number of Segments')     # lines that would overwrite / truncate the lists


def list_probes(e, rnd, extra):
    """[(tag, [first, rest...])]: first element at / just inside / just outside the published bounds, in-range rest;
    and one case whose SECOND element is outside (the element-wise reading of the bounds)"""
    lo, hi = float(e['min']), float(e['max'])
    rest = [lo + (hi - lo) * 0.25, lo + (hi - lo) * 0.5]
    firsts = [('min', lo), ('max', hi), ('inside-min', math.nextafter(lo, math.inf)), ('inside-max', math.nextafter(hi, -math.inf)),
              ('below-min', math.nextafter(lo, -math.inf) if lo else -2.0 ** -60), ('above-max', math.nextafter(hi, math.inf)),
              ('inside', lo + (hi - lo) / 3), ('far-above', hi * 2 + 1), ('far-below', lo - 1 - abs(lo))]
    firsts += [t for _ in range(extra) for t in (('inside', lo + (hi - lo) * rnd.random()), ('far-above', hi + (hi - lo) * rnd.random() + 1e-9))]
    return [(t, [x] + rest) for t, x in firsts] + [('second-element-above-max', [lo + (hi - lo) / 3, math.nextafter(hi, math.inf), rest[0]])]


def list_layer(ctx):
    """array entries with published minimum/maximum whose parameter is a listParameter read through ReadParameter"""
    rows, d = tables(ctx)
    model = paramtable.dummy_model()
    objs, idx = dict(paramtable.sources(model)), paramtable.index()
    sch = d['gen_request']
    cases, skipped = [], []
    for j, e in enumerate(sch):
        rs = [r for r in rows if r['cls'] in d['geo_classes'] and r['name'] == e['name'] and r['kind'] == 'KList']
        if e['type'] != 'array' or e['min'] is None or e['max'] is None or not rs:
            continue
        if ' ' in e['name']:            # 'AddOn CAPEX', ...: collected from numbered keys by their module, never through ReadParameter
            skipped.append(e['name'])
            continue
        probes = list_probes(e, ctx.rng, ctx.n(0, 6))
        for r in rs:
            for tag, elems in probes:
                st, text = rp.observe_list(objs[r['cls']].ParameterDict[r['name']], r['name'], elems, model)
                cases.append(dict(j=j, i=idx[(r['cls'], r['name'])], elems=elems, st=st, text=text, tag=tag, cls=r['cls'], name=r['name'], layer='reader'))
        jobs = [(fam, (fw.REPO / rel).read_text(), tag, elems) for fam, rel in LIST_FAMILIES for tag, elems in probes]
        res = fw_pool(rp.family_read_list, [(b, e['name'], ln, PER_SEGMENT, str(ctx.scratch)) for b, ln in
                                            [((fw.REPO / rel).read_text(), None) for _, rel in LIST_FAMILIES]
                                            + [(b, rp.list_line(e['name'], elems)) for _, b, _, elems in jobs]])
        base = dict(zip([f for f, _ in LIST_FAMILIES], res[:len(LIST_FAMILIES)]))
        for (fam, _, tag, elems), after in zip(jobs, res[len(LIST_FAMILIES):]):
            st = None if isinstance(after, str) or isinstance(base[fam], str) else after != base[fam]
            cases.append(dict(j=j, i=idx[(rs[0]['cls'], e['name'])], elems=elems, st=st, text=f'list in the model after Model.read_parameters: {after} '
                              f'(without the line: {base[fam]})', tag=tag, cls=f'family {fam}', name=e['name'], layer='family', family=fam))
    ctx.note(f'array entries with bounds that never go through ReadParameter (not probed): {skipped}')

    def lit(c):
        st = 'None' if c['st'] is None else f'(Some {qconv.blit(c["st"])})'
        return f'({c["j"]}%nat, {c["i"]}%nat, {qconv.q(F(c["elems"][0]))}, {qconv.qlist([F(x) for x in c["elems"][1:]])}, {st})'
    spec = fw.kernel_eval(ctx, 'list-spec', REQ, lambda lo, hi: 'bad (lcase_spec gen_request) [\n ' + ';\n '.join(lit(c) for c in cases[lo:hi]) + ']', len(cases), shard=400) if cases else []
    rd = [c for c in cases if c['layer'] == 'reader']
    agree = fw.kernel_eval(ctx, 'list-model', REQ, lambda lo, hi: 'bad (lcase_agrees param_table) [\n ' + ';\n '.join(lit(c) for c in rd[lo:hi]) + ']', len(rd), shard=400) if rd else []
    ctx.count('enforce-list', evaluations=len(cases), nontrivial_keys=[(c['cls'], c['name'], c['tag'], tuple(c['elems'])) for c in cases],
              probes={tg: sum(1 for c in cases if c['tag'] == tg) for tg in sorted({c['tag'] for c in cases})},
              stored={str(k): sum(1 for c in cases if c['st'] is k) for k in (True, False, None)})
    for c in cases[:1]:
        ctx.sample('enforce-list', {'cls': c['cls'], 'line': rp.list_line(c['name'], c['elems']), 'tag': c['tag'], 'observed': c['text']})
    for k in spec:
        c = cases[k]
        e = sch[c['j']]
        ctx.violate('property', f'enforce-list:{c["name"]}:{c["tag"]}',
                    f'schema entry {c["name"]!r} publishes minimum={e["raw"].get("minimum")!r}, maximum={e["raw"].get("maximum")!r}; {c["cls"]} given '
                    f'{rp.list_line(c["name"], c["elems"])!r} ({c["tag"]}, {c["layer"]} level): supplied list '
                    + {True: 'stored / used', False: 'NOT used (value kept)', None: 'neither stored nor kept'}[c['st']] + f'; {c["text"]}',
                    inp={'check': 'enforce-list', 'program': 'geophires', 'name': c['name'], 'cls': c['cls'], 'tag': c['tag'], 'elems': [rp.fl(x) for x in c['elems']],
                         'layer': c['layer'], 'family': c.get('family')},
                    expected='stored and used iff every supplied element is within the published minimum / maximum', observed=c['text'])
    for k in agree:
        c = rd[k]
        if not any(v.key == f'enforce-list:{c["name"]}:{c["tag"]}' for v in ctx.violations):
            ctx.violate('corr', f'model:enforce-list:{c["name"]}:{c["tag"]}',
                        f'Coq model read_list and ReadParameter disagree on {c["cls"]} {rp.list_line(c["name"], c["elems"])!r}: {c["text"]}',
                        inp={'check': 'enforce-list', 'program': 'geophires', 'name': c['name'], 'cls': c['cls'], 'tag': c['tag'], 'elems': [rp.fl(x) for x in c['elems']]})


def fw_pool(fn, jobs):
    from concurrent.futures import ProcessPoolExecutor
    with ProcessPoolExecutor(max_workers=16) as ex:
        return list(ex.map(fn, jobs))


def unit_enforce_layer(ctx):
    """parameters declared with CurrentUnits != PreferredUnits: the schema publishes CurrentUnits and states the bounds in
    it - values written in the published unit AND in other units of the family are accepted-and-used / rejected exactly
    as the published bounds say for the converted value (conversion by pint, as data)"""
    rows, d = tables(ctx)
    model = paramtable.dummy_model()
    objs, idx = dict(paramtable.sources(model)), paramtable.index()
    for prog, (ck, gk, _, _, _) in PROGRAMS.items():
        cases, skipped = [], 0
        for j, e in enumerate(d[gk]):
            rs = [r for r in rows if r['cls'] in d[ck] and r['name'] == e['name'] and r['kind'] == 'KFloat']
            if not rs or e['type'] != 'number' or all(r['units'] == r['pref'] for r in rs) or len({(r['min'], r['max'], r['units']) for r in rs}) > 1:
                continue
            for r in rs:
                p = objs[r['cls']].ParameterDict[r['name']]
                for tag, s, c, unit in rp.unit_probes(p, r, ctx.n(2, 6), with_current=True):
                    obs = rp.observe_reader(p, r['name'], s, model)
                    if obs['o'][0] == 'C':
                        skipped += 1          # unit text pint / LookupUnits cannot handle (e.g. '%'): C06
                        continue
                    cases.append(dict(j=j, i=idx[(r['cls'], r['name'])], v=c, obs=obs, tag=tag, s=s, cls=r['cls'], name=r['name']))

        def body(lo, hi):
            items = ';\n '.join(f'({c["j"]}%nat, {c["i"]}%nat, {qconv.q(c["v"])}, {rp.outcome_lit(c["obs"]["o"])}, '
                                + ('None' if c['obs']['fin'] is None else f'(Some {qconv.q(c["obs"]["fin"])})') + ')' for c in cases[lo:hi])
            return f'bad (ecase_ok param_table {gk}) [\n {items}]'
        badi = fw.kernel_eval(ctx, f'unit-enforce-{prog}', REQ, body, len(cases), shard=400) if cases else []
        ctx.count('enforce-units', evaluations=len(cases), nontrivial_keys=[(prog, c['cls'], c['name'], c['s']) for c in cases],
                  parameters={prog: len({c['name'] for c in cases})}, unit_text_not_understood_C06=skipped)
        for c in cases[:1]:
            ctx.sample('enforce-units', {k: c[k] for k in ('cls', 'name', 'tag', 's')} | {'converted': float(c['v']), 'observed': rp.show(c['obs'])})
        for k in badi:
            c = cases[k]
            e = d[gk][c['j']]
            ctx.violate('property', f'enforce-units:{prog}:{c["name"]}:{c["tag"]}',
                        f'{prog} schema entry {c["name"]!r} publishes units={e["raw"].get("units")!r}, minimum={e["raw"].get("minimum")!r}, '
                        f'maximum={e["raw"].get("maximum")!r}; {c["cls"]} given {c["s"]!r} (= {float(c["v"])} {e["raw"].get("units")}): {rp.show(c["obs"])}',
                        inp={'check': 'enforce-units', 'program': prog, 'name': c['name'], 'cls': c['cls'], 'tag': c['tag'], 's': c['s']},
                        expected='accepted and held as the converted value iff it is within the published bounds', observed=rp.show(c['obs']))


STRING_TEXTS = ('plain.txt', 'two words.csv', 'C:\\Program Files\\x y.csv', '12 files', 'out 5 meter', '3 USD', 'a  b', '7')


def string_layer(ctx):
    """every schema entry of type string: the real ReadParameter of every accepting class holds the text verbatim, whatever
    it contains (blanks, digits, unit-looking suffixes)"""
    import contextlib, copy, io
    from geophires_x.Parameter import ParameterEntry, ReadParameter
    rows, d = tables(ctx)
    model = paramtable.dummy_model()
    objs, idx = dict(paramtable.sources(model)), paramtable.index()
    cases = []
    for prog, (ck, gk, _, _, _) in PROGRAMS.items():
        if True:          # every strParameter of every class (their declared json type is "string", published or - the 30 - not yet)
            for r in rows:
                if r['cls'] in d[ck] and r['kind'] == 'KStr':
                    for text in STRING_TEXTS:
                        q = copy.deepcopy(objs[r['cls']].ParameterDict[r['name']])
                        held = err = None
                        try:
                            with contextlib.redirect_stdout(io.StringIO()):
                                ReadParameter(ParameterEntry(Name=r['name'], sValue=text, raw_entry=f'{r["name"]}, {text}'), q, model)
                            held = q.value if isinstance(q.value, str) else None
                        except Exception as ex:  # noqa
                            err = f'{type(ex).__name__}: {ex}'[:160]
                        cases.append(dict(prog=prog, cls=r['cls'], name=r['name'], i=idx[(r['cls'], r['name'])], text=text, held=held, err=err))
    cs = paramtable.cs

    def body(lo, hi):
        return 'bad (scase_ok param_table) [\n ' + ';\n '.join(
            f'({c["i"]}%nat, {cs(c["text"])}, ' + ('None' if c['held'] is None else f'Some {cs(c["held"])}') + ')' for c in cases[lo:hi]) + ']'
    badi = fw.kernel_eval(ctx, 'strings', REQ, body, len(cases), shard=400, open_scope='string_scope') if cases else []
    ctx.count('enforce-strings', evaluations=len(cases), nontrivial_keys=[(c['cls'], c['name'], c['text']) for c in cases],
              parameters=len({c['name'] for c in cases}))
    for k in badi:
        c = cases[k]
        ctx.violate('property', f'enforce-string:{c["prog"]}:{c["name"]}', f'{c["prog"]} schema entry {c["name"]!r} has type string; the reader of {c["cls"]} given '
                    f'{c["text"]!r}: ' + (f'raised {c["err"]}' if c['err'] else f'holds {c["held"]!r}'),
                    inp={'check': 'enforce-string', 'program': c['prog'], 'name': c['name'], 'cls': c['cls'], 'text': c['text']},
                    expected='the text is held verbatim', observed=c['err'] or c['held'])


def stored_reports_layer(ctx):
    """every committed report under tests/examples (*.out: all report layouts - AGS/CLGS, SUTRA, SBT, add-ons, S-DAC-GT ...)
    parsed by the client: each result-schema field whose label a report prints with a value is extracted with a value"""
    from geophires_x_client import GeophiresXResult
    rows, d = tables(ctx)
    fields = [(e['category'], e['field']) for e in d['gen_result']]
    files = sorted((fw.REPO / 'tests' / 'examples').glob('*.out')) + sorted((fw.REPO / 'tests').glob('*.out'))
    items = []
    for f in files:
        text = f.read_text(encoding='UTF-8', errors='replace')
        if 'CASE REPORT' not in text or 'HIP' in text[:400]:
            continue
        try:
            got = GeophiresXResult(str(f)).result
        except Exception as ex:  # noqa
            ctx.violate('property', f'stored-report:{f.name}:<parse>', f'the client cannot parse the committed report {f.name}: {ex!r}', inp={'check': 'stored-report', 'file': f.name})
            continue
        printed = printed_labels(text, fields)
        extracted = [(c, n) for c, n in fields if isinstance(got.get(c, {}).get(n), dict) and got[c][n].get('value') is not None
                     or isinstance(got.get(c, {}).get(n), (str, int, float))]
        items.append((f, text, got, printed, extracted))
    cs = paramtable.cs
    pl = lambda l: '[' + '; '.join(f'({cs(c)}, {cs(n)})' for c, n in l) + ']'
    term = 'bad (fun x => report_ok gen_result (fst x) (snd x)) [\n ' + ';\n '.join(f'({pl(p)}, {pl(x)})' for _, _, _, p, x in items) + ']'
    badi = kbad(ctx, 'stored-reports', term, len(items))
    ctx.count('stored-reports', evaluations=len(items), nontrivial_keys=[(f.name, c, n) for f, _, _, p, _ in items for c, n in p], files=len(items))
    for k in badi:
        f, text, got, printed, extracted = items[k]
        for c, n in sorted(set(printed) - set(extracted)):
            line = next((ln.strip() for ln in text.splitlines() if ln.strip().startswith(n + ':') or ln.strip().startswith(n + ' =')), '')
            ctx.violate('property', f'stored-report-field:{c}:{n}', f'committed report {f.name} prints {line!r} but the client returns {got.get(c, {}).get(n)!r} for '
                        f'result-schema field {c!r}/{n!r}', inp={'check': 'stored-report', 'file': f.name, 'category': c, 'field': n}, expected='extracted with a value',
                        observed=got.get(c, {}).get(n))


def correspondence(ctx, proofs_ok=True):
    paramtable.build_gen(ctx, ('Gen/ParamTable.vo', 'Gen/SchemaTables.vo'))
    import time
    for layer in (names_layer, fields_layer, committed_layer, result_layer, enforce_layer, list_layer, rst_layer, reports_layer, unit_enforce_layer, string_layer, stored_reports_layer):
        t = time.time()
        layer(ctx)
        ctx.note(f'{layer.__name__}: {time.time() - t:.1f} s')


def replay(ctx, data):
    inp = data['input']
    for g in GENERATORS:
        g(ctx)
    paramtable.build_gen(ctx, ('Gen/ParamTable.vo', 'Gen/SchemaTables.vo'))
    layer = {'names': names_layer, 'field': fields_layer, 'committed': committed_layer, 'result-field': result_layer, 'enforce': enforce_layer,
             'enforce-list': list_layer, 'rst': rst_layer, 'report': reports_layer, 'enforce-units': unit_enforce_layer, 'enforce-string': string_layer, 'stored-report': stored_reports_layer}[inp['check']]
    layer(ctx)
    rows, d = tables(ctx)
    name = inp.get('name') or inp.get('field')
    if inp['check'] in ('names', 'field', 'enforce', 'enforce-list', 'enforce-units'):
        ck, gk = PROGRAMS[inp['program']][:2]
        print('declarations :', decl_text([r for r in rows if r['cls'] in d[ck] and r['name'] == name]) or 'none')
        print('schema entry :', next((e['raw'] for e in d[gk] if e['name'] == name), 'absent from the generated schema'))
    if inp['check'] == 'committed' and inp['program'] in PROGRAMS:
        _, gk, ck = PROGRAMS[inp['program']][:3]
        print('generated    :', next((e['raw'] for e in d[gk] if e['name'] == name), d[PROGRAMS[inp['program']][3]] if name == '<required>' else 'absent'))
        print('committed    :', next((e['raw'] for e in d[ck] if e['name'] == name), d[PROGRAMS[inp['program']][4]] if name == '<required>' else 'absent'))
    if inp['check'] == 'result-field':
        print('client lists the field:', (inp['category'], inp['field']) in d['client_fields'],
              '| extracted from a synthetic report line:', synthetic_extract(inp['category'], inp['field']))
    hits = [v for v in ctx.violations if v.key == data['key']]
    for v in hits:
        print('still failing:', v.what[:400])
    print('property', 'VIOLATED' if hits else 'holds', 'on this input')
    return 1 if hits else 0
