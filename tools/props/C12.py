"""C12 - input-file layout is irrelevant."""
import collections
import json
import logging
import re
import uuid
from pathlib import Path

from gen import input_param_uses
from lib import configs, framework as fw, layout, qconv, runner

META = {
    'props': 'Props/C12.v',
    'claimed': True,
    'level_text': ('Proof about a model of GeoPHIRESUtils.read_input_file on the BYTES of the file: strict UTF-8 decoding (errors = error for the '
                   'whole file) into a text of Unicode code points, then text-mode newline decoding, readlines, strip with the full str.isspace() '
                   'table (29 code points incl. U+00A0, U+2003, U+3000), comment prefixes, split, ParameterEntry, insertion-ordered dict: 19 '
                   'axiom-free Coq theorems, for every list of lines and every text - a lookup returns the last line carrying the name; lookups '
                   'are invariant under every permutation of distinct-name lines and under every rearrangement that keeps the occurrences of a '
                   'name in order; blank, comma-less and #/--/* lines are ignored; any Unicode whitespace around name and value and any trailing '
                   'comment leave name and value unchanged; LF/CRLF/CR files with or without final terminator read as the same lines; key '
                   'iteration order of any class of names (the add-on block) depends only on the order of that class; the overrides appended by '
                   'GeophiresInputParameters govern for every base text (code after fix e85b257; the pre-fix append is kept as '
                   'client_text_pinned with its refutation, witness in corpus/C12); every encodable text read from its UTF-8 bytes is read as '
                   'that text (C12_utf8_file) and a byte that can start no character anywhere makes the file an error (C12_decode_error); the '
                   'whitespace set is exactly the 29-point table compared with the interpreter on each run. The downstream pipeline is '
                   'covered by a table of every use of InputParameters regenerated from the source (all order-blind except the add-on '
                   'block: C12_lookup_only) plus whole runs of permuted/decorated/duplicated variants and client requests with parameters '
                   'moved into the params dict, compared report against report; it is tied, not proved.'),
    'level_note': ('Trusted: Coq kernel + vm_compute; the Python harness; the ast classifier of tools/gen/input_param_uses.py. Whole-run '
                   'invariance of the modules is sampled, not proved. A UTF-8 byte-order mark is not whitespace for Python: the first '
                   'parameter of a file saved with BOM is read under the name U+FEFF+name (modelled faithfully, corpus/C12/tok_bom.txt).'),
    'technique': 'Coq proof about an executable Gallina model + kernel-evaluated correspondence with the implementation',
    'rule': ('(a) random files (as bytes) over an alphabet of names, values, all 29 whitespace code points, comment prefixes, commas, latin-1 / CJK / '
             'astral letters, BOM, plus corrupted encodings (stray, truncated, overlong, surrogate, latin-1 bytes), '
             'three line-ending styles, duplicates: the real read_input_file dictionary (keys in order, Name, sValue, Comment, raw_entry) '
             'must equal the model\'s, compared inside Coq; (b) metamorphic variants (perm, ws, comment, dup, eol, all) of distinct-name '
             'parameter lists through the real tokenizer; (c) client override files (text) and (e) client runs with parameters moved into the params dict in two orders, duplicates left in the base file; (d) whole runs of the six variant classes of example '
             'and synthetic inputs (incl. add-ons combined with S-DAC-GT, add-on block moved first / last), reports compared after masking the metadata lines. Non-trivial = file with >= 2 parameter lines and '
             'at least one decoration; distinct = distinct feature signature / (base, class) pair'),
    'trusted_base': ['Coq 8.16.1 kernel + vm_compute (no native_compute)',
                     'all C12 theorems: Closed under the global context (no axioms)',
                     'hand-written models coq/Model/UTokenizer.v + coq/Model/Utf8.v tied to GeoPHIRESUtils.read_input_file (on file BYTES) and '
                     'GeophiresInputParameters by byte-exact correspondence evaluated in the kernel',
                     'tools/gen/input_param_uses.py (ast classifier, unverified Python, fail-closed)'],
    'modelled': ['GeoPHIRESUtils.read_input_file', 'UTF-8 decoding (strict)', 'str.strip / str.split / str.startswith on Unicode code points',
                 'io text-mode universal newlines + readlines', 'dict insertion order / replacement',
                 'geophires_x_client.GeophiresInputParameters (file text only)'],
    'assumptions': [
                    'order-blindness of the modules rests on the regenerated use-site table and on sampled whole runs'],
    'fingerprint': [('src/geophires_x/GeoPHIRESUtils.py', 'read_input_file'),
                    ('src/geophires_x_client/geophires_input_parameters.py', 'GeophiresInputParameters.__init__')],
}

GENERATORS = (input_param_uses.gen,)

NAMES = ['Reservoir Depth', 'Gradient 1', 'End-Use Option', 'Units:Foo', 'AddOn CAPEX 1', 'AddOn CAPEX 2', 'AddOn Nickname 1', 'A', '',
         'x y', 'Gradient  1', 'Power Plant Type', 'Reservoir Model', 'caf\xe9', 'T\xb0', '-x', '#n', 'Plant Lifetime', '\u6e29\u5ea6',
         'Gradient\u20131', '\ufeffReservoir Depth']
VALUES = ['3', '50', '2', '3 km', '1e-3', '', 'True', 'a b  c', '0.5', '-7', 'degC', '12.5 degC/km', 'x.csv', '\xb5', '\u201c5\u201d',
          '\U0001f600']
JUNK = list(' \t,,,#-*-ab1\xe9\x0b\x1c\x85\xa0\r\u2003\u3000\u2028\u200b\ufeff') + ['--', '# ', '* ', ', ']
MASK = re.compile(r'^\s*(Simulation Date|Simulation Time|Calculation Time|GEOPHIRES Version):.*$', re.M)


def _quiet():
    logging.disable(logging.CRITICAL)
    import geophires_x.Model  # noqa: F401


REQ = ['Base.UStr', 'Model.UTokenizer', 'Model.Utf8']


def real_read(ctx, text):
    """text: str (written UTF-8 encoded) or bytes -> dictionary dump of the real read_input_file, None on UnicodeDecodeError"""
    from geophires_x.GeoPHIRESUtils import read_input_file
    p = Path(ctx.scratch, f'tok_{uuid.uuid4().hex[:10]}.txt')
    p.write_bytes(text if isinstance(text, bytes) else text.encode('utf-8'))
    d = {}
    try:
        read_input_file(d, input_file_name=str(p))
    except UnicodeDecodeError:
        return None
    finally:
        p.unlink()
    return [(k, e.Name, e.sValue, e.Comment, e.raw_entry) for k, e in d.items()]


def ulit(s):
    """Coq term of type ustring (list of code points) for a Python str"""
    parts, run, nums = [], [], []

    def flush():
        if run:
            parts.append('us ' + qconv.coq_string(''.join(run)) + '%string')
            run.clear()
        if nums:
            parts.append('[' + '; '.join(map(str, nums)) + ']')
            nums.clear()
    for ch in s:
        if 32 <= ord(ch) < 127:
            if nums:
                flush()
            run.append(ch)
        else:
            if run:
                flush()
            nums.append(ord(ch))
    flush()
    return '(' + ' ++ '.join(parts) + ')%list' if parts else '[]'


def blist(b):
    return '[' + '; '.join(map(str, b)) + ']'


def _dump_lit(dump):
    return '[' + '; '.join('(%s, (%s, (%s, (%s, %s))))' % tuple(ulit(x) for x in row) for row in dump) + ']'


def file_term(data, dump):
    return f'file_reads_as {blist(data)} ' + ('None' if dump is None else f'(Some {_dump_lit(dump)})')


# ------------------------------------------------------------------------------------------ (a) model vs tokenizer
def random_file(rnd):
    lines, feats = [], set()
    for _ in range(rnd.randint(0, 9)):
        r = rnd.random()
        if r < 0.55:
            n, v = rnd.choice(NAMES), rnd.choice(VALUES)
            tail = rnd.choice(['', '', ',' + rnd.choice(layout.COMMENTS), ', c1, c2 ,c3', ',,', ', --x,y'])
            lines.append(f'{layout.ws(rnd)}{n}{layout.ws(rnd)},{layout.ws(rnd)}{v}{layout.ws(rnd)}{tail}{layout.ws(rnd, 0, 1)}')
            feats.add('p' + str(min(2, tail.count(','))))
        elif r < 0.7:
            lines.append(layout.ws(rnd) + rnd.choice(['#', '--', '*', '-', '- -']) + ''.join(rnd.choice(JUNK) for _ in range(rnd.randint(0, 6))))
            feats.add('c')
        elif r < 0.78:
            lines.append(layout.ws(rnd, 0, 4))
            feats.add('b')
        else:
            lines.append(''.join(rnd.choice(JUNK) for _ in range(rnd.randint(0, 10))))
            feats.add('j')
    if len(lines) >= 2 and rnd.random() < 0.35:      # a verbatim repeat of an earlier line, last (set / override / set back)
        lines.append(lines[rnd.randrange(len(lines) - 1)])
        feats.add('repeat')
    style = rnd.choice(['lf', 'lf', 'crlf', 'cr', 'mixed'])
    text = ''.join(l + (layout.EOLS[style] if style != 'mixed' else rnd.choice(['\n', '\r\n', '\r'])) for l in lines)
    if lines and rnd.random() < 0.3:
        text = text.rstrip('\r\n')
        feats.add('nofinal')
    return text, (style,) + tuple(sorted(feats))


def part_model_vs_tokenizer(ctx):
    n = ctx.n(2000, 40000)
    texts, sigs = [], []
    for _ in range(n):
        t, s = random_file(ctx.rng)
        texts.append(t)
        sigs.append(s)
    datas = [t.encode('utf-8') for t in texts]
    # byte level: corrupted encodings (stray / truncated / overlong / surrogate / latin-1 bytes): UnicodeDecodeError or not
    for i in range(0, n, 7):
        b, r = bytearray(datas[i]), ctx.rng
        k = r.randint(0, len(b))
        b[k:k] = r.choice([b'\x80', b'\xbf', b'\xc0\x80', b'\xc1\xbf', b'\xe9', b'\xa0', b'\xed\xa0\x80', b'\xe2\x80', b'\xf4\x90\x80\x80',
                           b'\xf5', b'\xff', b'\xe0\x9f\xbf', b'\xf0\x8f\xbf\xbf', b'\xc2', b'\xef\xbb\xbf', b'\xe2\x80\x83', b'\xf0\x9f\x98'])
        datas.append(bytes(b))
        sigs.append(('bytes',) + sigs[i])
    for t in sorted(Path(fw.VERIF, 'corpus', 'C12').glob('tok_*.txt')):
        datas.insert(0, t.read_bytes())
        sigs.insert(0, ('corpus', t.name))
    dumps = [real_read(ctx, d) for d in datas]
    terms = [file_term(d, dump) for d, dump in zip(datas, dumps)]
    failing = fw.kernel_bools(ctx, 'tokenizer', REQ, terms, open_scope='N_scope')
    table = [c for c in range(0x110000) if chr(c).isspace()]
    if fw.kernel_bools(ctx, 'wstable', REQ, [f'nlist_eqb ws_points {blist(table)}'], open_scope='N_scope'):
        ctx.violate('corr', 'tokenizer:isspace-table', 'str.isspace() of the running interpreter and ws_points of the Coq model differ',
                    inp={'part': 'wstable'}, observed=table)
    ctx.count('model-vs-read_input_file', evaluations=len(datas),
              nontrivial_keys=[s_ for s_, d in zip(sigs, dumps) if d is not None and len(d) >= 2 and len(s_) > 2],
              entries=dict(collections.Counter('decode-error' if d is None else min(len(d), 5) for d in dumps)))
    ctx.sample('model-vs-read_input_file', {'bytes': repr(datas[-1]), 'dictionary': dumps[-1]})
    if failing:   # a difference confined to the Comment field (never consulted by the simulator) is recorded, not reported
        again = fw.kernel_bools(ctx, 'tokenizer_nc', REQ,
                                [terms[i].replace('file_reads_as ', 'file_reads_as_nocomment ', 1) for i in failing], open_scope='N_scope')
        if len(again) < len(failing):
            ctx.note(f'{len(failing) - len(again)} files differ from the model in the Comment field only')
        failing = [failing[i] for i in again]
    for i in failing[:5]:
        ctx.violate('corr', 'tokenizer:model-disagrees', 'Coq model read_text and GeoPHIRESUtils.read_input_file give different dictionaries',
                    inp={'part': 'tokenizer', 'bytes_hex': datas[i].hex()}, observed=dumps[i], expected='read_file bytes of Model/Utf8.v + Model/UTokenizer.v')
    return failing


# ------------------------------------------------------------------------------------------ (b) metamorphic, tokenizer level
def random_params(rnd):
    names = rnd.sample([n for n in NAMES if n and not n.startswith(('#', '-'))] + ['P%d' % i for i in range(8)], rnd.randint(2, 8))
    return [('p', n, rnd.choice([v for v in VALUES if v]), '') for n in names]


def part_metamorphic(ctx, n):
    bad = 0
    for i in range(n):
        base = random_params(ctx.rng)
        want = layout.expected_map(base)
        block = [l[1] for l in base if layout.is_block(l[1])]
        for cls in layout.CLASSES:
            text = layout.variant(ctx.rng, base, cls)
            got = real_read(ctx, text)
            gmap = {k: v for k, _, v, _, _ in got}
            gblock = [k for k, *_ in got if layout.is_block(k)]
            ctx.count('tokenizer-metamorphic', evaluations=1, nontrivial_keys=[(i, cls)], classes={cls: 1})
            if gmap != want or gblock != block:
                bad += 1
                if bad <= 5:
                    ctx.violate('property', f'layout:{cls}:tokenizer',
                                f'read_input_file: a {cls} variant of a parameter list reads as a different parameter set',
                                inp={'part': 'metamorphic', 'cls': cls, 'text': text, 'want': want, 'block': block},
                                expected={'map': want, 'block_order': block}, observed={'map': gmap, 'block_order': gblock})
    return bad


# ------------------------------------------------------------------------------------------ (c) client override files
def client_case(ctx, base_text, params):
    from geophires_x_client import GeophiresInputParameters
    basef = Path(ctx.scratch, f'base_{uuid.uuid4().hex[:10]}.txt')
    basef.write_bytes(base_text.encode('utf-8'))
    gp = GeophiresInputParameters(dict(params), from_file_path=basef)
    text = Path(gp.as_file_path()).read_bytes().decode('utf-8')
    got = {k: v for k, _, v, _, _ in real_read(ctx, text)}
    for p in (basef, Path(gp.as_file_path())):
        p.unlink()
    return text, got


def part_client(ctx, n):
    terms, cases = [], []
    seeds = [json.loads(p.read_text()) for p in sorted(Path(fw.VERIF, 'corpus', 'C12').glob('client_*.json'))]
    for i in range(n + len(seeds)):
        rnd = ctx.rng
        if i < len(seeds):
            base_text, params = seeds[i]['base_text'], [tuple(p) for p in seeds[i]['params']]
            final, eol = base_text.endswith(('\n', '\r')), 'corpus'
        else:
            base = random_params(rnd)
            final = rnd.random() < 0.75
            eol = rnd.choice(['\n', '\n', '\r\n', '\r'])
            base_text = layout.render(base, eol, final)
            names = [l[1] for l in base]
            params = [(k, rnd.choice(['60', '2', 'x y', '1e9', 0, 0.0, False, '0', 0, True, 7, 2.5]))
                      for k in rnd.sample(names + ['New 1', 'New 2'], rnd.randint(1, 3))]   # values as the caller gives them: str(v) is written
        text, got = client_case(ctx, base_text, params)
        plit = '[' + '; '.join(f'({ulit(k)}, {ulit(str(v))})' for k, v in params) + ']'
        terms.append(f'US.eqb (client_text {ulit(base_text)} {plit}) {ulit(text)}')
        cases.append((base_text, params, text))
        lost = [k for k, v in params if got.get(k) != str(v)]
        ctx.count('client-append', evaluations=1, nontrivial_keys=[(i, final, eol)], base_terminated={str(final): 1})
        if lost:
            glued = not (base_text.endswith('\n') or base_text.endswith('\r') or not base_text)
            key = 'client-append:base-without-final-newline' if glued else 'client-append:override-ignored'
            ctx.violate('property', key,
                        'GeophiresInputParameters(params, from_file_path): an override parameter does not govern the run '
                        + ('(base file has no final line terminator: the first override is glued to its last line)' if glued else ''),
                        inp={'part': 'client', 'base_text': base_text, 'params': params}, expected={k: str(v) for k, v in params},
                        observed={k: got.get(k) for k, _ in params})
    failing = fw.kernel_bools(ctx, 'client', REQ, terms, open_scope='N_scope')
    for i in failing[:3]:
        ctx.violate('corr', 'client-append:model-disagrees', 'Coq model client_text and GeophiresInputParameters write different files',
                    inp={'part': 'client', 'base_text': cases[i][0], 'params': cases[i][1]}, observed=cases[i][2])
    return failing


# ------------------------------------------------------------------------------------------ (d) whole runs
def canonical(text):
    """distinct-name parameter list of an input text (last occurrence of each name, in first-occurrence position)"""
    lines = layout.split_text(text)
    last = {l[1]: i for i, l in enumerate(lines) if l[0] == 'p'}
    return [l for i, l in enumerate(lines) if l[0] == 'p' and last[l[1]] == i]


def masked(r):
    if r['report'] is None:
        return 'NO REPORT: ' + re.sub(r'/[^ \'"]*', '<path>', str(r['error']))[:300]
    return MASK.sub('', r['report']).replace('-0.00', '0.00')


def base_inputs(ctx):
    ex = [(n, t) for n, t in configs.example_texts() if 'MC_' not in n and 'Fervo' not in n]
    ctx.rng.shuffle(ex)
    ex = ex[:ctx.n(10, 40)]
    syn = [(f'synthetic{i}', runner.params_to_text(configs.synthetic(ctx.rng, addons=(i % 2 == 0))))
           for i in range(ctx.n(16, 150))]
    # add-ons (auto-detected from their names, no explicit switch) together with S-DAC-GT (explicit switch + parameters):
    # two families of prefixed keys that the simulator detects by scanning the dictionary
    for i in range(ctx.n(3, 20)):
        p = configs.synthetic(ctx.rng, enduse=1, plant=ctx.rng.choice([1, 2]), addons=True)
        p += [('Do S-DAC-GT Calculations', 'True'), ('S-DAC-GT CAPEX', configs.fmt(configs.dec(ctx.rng, 1000, 1800, 0))),
              ('S-DAC-GT OPEX', configs.fmt(configs.dec(ctx.rng, 40, 70, 0)))]
        syn.append((f'addons+sdacgt{i}', runner.params_to_text(p)))
    # list-style gradients / thicknesses (ReadParameter re-reads such lines from the raw entry)
    for i in range(ctx.n(3, 20)):
        p = configs.synthetic(ctx.rng, nseg=ctx.rng.choice([2, 3, 4]))
        g = [v for k, v in p if k.startswith('Gradient ')]
        th = [v for k, v in p if k.startswith('Thickness ')]
        p = [(k, v) for k, v in p if not k.startswith(('Gradient ', 'Thickness '))] + [('Gradients', ', '.join(g)), ('Thicknesses', ', '.join(th))]
        syn.append((f'list-style{i}', runner.params_to_text(p)))
    out = []
    for n, t in ex + syn:
        lines = [l for l in canonical(t) if l[1] != 'Print Output to Console'] + [('p', 'Print Output to Console', '0', '')]
        out.append((n, lines))
    return out


def part_runs(ctx, bases=None, classes=layout.CLASSES):
    bases = bases or base_inputs(ctx)
    texts, meta = [], []
    for name, lines in bases:
        texts.append(layout.render(lines))
        meta.append((name, 'base'))
        has_block = any(l[0] == 'p' and layout.is_block(l[1]) for l in lines)
        for cls in list(classes) + (layout.BLOCK_CLASSES if has_block else []):
            texts.append(layout.variant(ctx.rng, lines, cls))
            meta.append((name, cls))
    res = runner.run_many(ctx, texts)
    ref, ok, bad = None, 0, 0
    for (name, cls), text, r in zip(meta, texts, res):
        if cls == 'base':
            ref, reftext = masked(r), text
            ok += r['report'] is not None
            continue
        same = masked(r) == ref
        ctx.count('whole-runs', evaluations=1, nontrivial_keys=[(name, cls)] if not ref.startswith('NO REPORT') else [], classes={cls: 1})
        if not same:
            bad += 1
            if bad <= 5:
                diff = [(a, b) for a, b in zip(ref.splitlines(), masked(r).splitlines()) if a != b][:6]
                ctx.violate('property', f'layout:{cls}:run', f'a {cls} variant of input {name} gives a different case report',
                            inp={'part': 'runs', 'cls': cls, 'name': name, 'base_text': reftext, 'variant_text': text},
                            expected='identical report (metadata lines masked)', observed={'first_differing_lines': diff})
    ctx.count('whole-runs', bases_with_report={'yes': ok, 'no': len(bases) - ok})
    ctx.sample('whole-runs', {'base': bases[0][0], 'variant_perm': texts[1]})
    return bad


# ------------------------------------------------------------------------------------------ (g) one caching client, many layouts
def _cache_history_job(a):
    texts, order, scratch = a
    import os
    import sys
    from geophires_x_client import GeophiresInputParameters, GeophiresXClient
    os.chdir(scratch)
    sys.stdout = open(os.devnull, 'w')
    d = Path(scratch, f'cache_{uuid.uuid4().hex[:8]}')
    d.mkdir()
    paths = []
    for i, t in enumerate(texts):
        p = d / f'variant_{i}.txt'
        p.write_bytes(t.encode('utf-8'))
        paths.append(str(p))
    client, out = GeophiresXClient(), []      # ONE client, caching on (the default)
    for i in order:
        try:
            r = client.get_geophires_result(GeophiresInputParameters(from_file_path=Path(paths[i])))
            out.append(Path(r.output_file_path).read_text(encoding='UTF-8', errors='replace'))
        except BaseException as e:  # noqa
            out.append('NO REPORT: ' + f'{type(e).__name__}: {e}'[:200])
    return [paths[i] for i in order], out


def part_cache_history(ctx, bases):
    """files with the same lines in another order - in particular two duplicates of one parameter swapped, so that ANOTHER value
    governs - given to one caching client one after another: each request must get the result of ITS file"""
    from concurrent.futures import ProcessPoolExecutor
    rnd, jobs, texts_all = ctx.rng, [], []
    for name, lines in bases:
        cand = [l for l in lines if l[0] == 'p' and l[1] in ('Gradient 1', 'Reservoir Depth', 'Production Flow Rate per Well', 'Injection Temperature',
                                                           'Utilization Factor', 'Plant Lifetime')]
        try:
            z = rnd.choice(cand)
            other = repr(round(float(z[2]) * 0.9, 3)) if '.' in z[2] else str(int(float(z[2]) * 0.9) or 1)
        except (IndexError, ValueError):
            continue
        rest = [l for l in lines if l is not z]
        a = rest + [('p', z[1], other, ''), z]                 # z governs
        b = rest + [z, ('p', z[1], other, '')]                 # the same lines, the other value governs
        texts = [layout.render(a), layout.render(b), layout.variant(rnd, a, 'perm'), layout.render(b, '\r\n'), layout.variant(rnd, b, 'perm')]
        order = [0, 1, 2, 3, 0, 4, 1]
        jobs.append((texts, order, str(ctx.scratch)))
        texts_all.append((name, texts, order))
    refs = runner.run_many(ctx, [t for _, texts, _ in texts_all for t in texts], workers=8)
    with ProcessPoolExecutor(max_workers=8, initializer=runner._init_worker, initargs=(str(ctx.scratch),)) as ex:
        res = list(ex.map(_cache_history_job, jobs))
    terms, k = [], 0
    for (name, texts, order), (paths, outs) in zip(texts_all, res):
        ref = [masked(r) for r in refs[k:k + len(texts)]]
        k += len(texts)
        got = [MASK.sub('', o).replace('-0.00', '0.00') if not o.startswith('NO REPORT') else 'NO REPORT' for o in outs]
        # which file's result each request got (first matching reference among the files requested so far, own first)
        obs = []
        for n, (i, g) in enumerate(zip(order, got)):
            cands = [i] + [j for j in order[:n] if j != i]
            obs.append(next((order.index(j) for j in cands if ref[j] == g or (ref[j].startswith('NO REPORT') and g == 'NO REPORT')), 99))
        terms.append(f'cache_check [{"; ".join(ulit(p) for p in paths)}] {blist(obs)}')
        ctx.count('client-cache-history', evaluations=len(order), nontrivial_keys=[(name, n) for n in range(len(order))])
        wrong = [n for n, (i, g) in enumerate(zip(order, got)) if g != ref[i] and not (ref[i].startswith('NO REPORT') and g == 'NO REPORT')]
        if wrong and ref[0] != ref[1]:
            n = wrong[0]
            ctx.violate('property', 'client-cache:layout-variant-answered-with-another-files-result',
                        f'one caching GeophiresXClient, variants of input {name} (same lines, duplicates in another order) one after another: '
                        f'request {n} did not get the result of its own file',
                        inp={'part': 'cache-history', 'name': name, 'texts': texts, 'order': order}, expected='the report of the requested file',
                        observed={'request': n, 'file': order[n], 'got_result_of_request': obs[n]})
    for i in fw.kernel_bools(ctx, 'cache', REQ, terms, open_scope='N_scope'):
        ctx.violate('corr', 'client-cache:model-disagrees', 'Coq model serve/key_path and the caching client disagree on which result a request gets',
                    inp={'part': 'cache-history', 'name': texts_all[i][0], 'texts': texts_all[i][1], 'order': texts_all[i][2]})


# ------------------------------------------------------------------------------------------ (f) list-valued lines, ReadParameter
def part_list_params(ctx, n):
    """read_input_file + Parameter.ReadParameter on list-valued lines with trailing '--' comments (commas, digits, more '--'
    inside): the list the simulator gets must be the fields written before the comment; the Coq model list_fields must
    name the same fields."""
    import types
    from geophires_x.GeoPHIRESUtils import read_input_file
    from geophires_x.Parameter import ReadParameter, listParameter
    from geophires_x.Units import LengthUnit, TemperatureGradientUnit, Units
    rnd, terms, cases = ctx.rng, [], []
    stub = types.SimpleNamespace(logger=logging.getLogger('c12-list'))
    for i in range(n):
        name = rnd.choice(['Gradients', 'Thicknesses'])
        fields = [str(rnd.choice([1, 1.5, 2, 30, 40.5, 50, 0.5, 99])) for _ in range(rnd.randint(1, 4))]
        head = name + ''.join(f'{layout.ws(rnd, 0, 2)},{layout.ws(rnd, 0, 2)}{f}' for f in fields)
        comment = rnd.choice(['', ',', ', -- equal', ', -- per segment, 0.5 km each', ',-- 1, 2, 3', ',\t--note', ', -- a, b -- c, 7',
                              ',\u2003-- \u6e29\u5ea6, 9'])
        raw = head + comment
        d = {}
        f = Path(ctx.scratch, f'list_{uuid.uuid4().hex[:10]}.txt')
        f.write_bytes((raw + '\n').encode('utf-8'))
        read_input_file(d, input_file_name=str(f))
        f.unlink()
        p = (listParameter('Gradients', DefaultValue=[0.05], Min=0.0, Max=500.0, UnitType=Units.TEMP_GRADIENT,
                           PreferredUnits=TemperatureGradientUnit.DEGREESCPERKM, CurrentUnits=TemperatureGradientUnit.DEGREESCPERKM)
             if name == 'Gradients' else
             listParameter('Thicknesses', DefaultValue=[100.0], Min=0.01, Max=100.0, UnitType=Units.LENGTH,
                           PreferredUnits=LengthUnit.KILOMETERS, CurrentUnits=LengthUnit.KILOMETERS))
        try:
            ReadParameter(d[name], p, stub)
            got = [float(x) for x in p.value]
        except Exception as e:  # noqa
            got = f'{type(e).__name__}: {e}'[:120]
        want = [float(x) for x in fields]
        terms.append(f'fields_eqb (list_fields {ulit(d[name].raw_entry)}) [{"; ".join(ulit(x) for x in fields)}]')
        cases.append(raw)
        ctx.count('list-parameter-lines', evaluations=1, nontrivial_keys=[(name, len(fields), comment)] if comment else [])
        if got != want:
            ctx.violate('property', 'layout:comment:list-parameter', 'a trailing -- comment changes the value of a list-valued parameter line '
                        '(or makes it unreadable)', inp={'part': 'list', 'raw': raw, 'name': name, 'fields': fields}, expected=want, observed=got)
    for i in fw.kernel_bools(ctx, 'listfields', REQ, terms, open_scope='N_scope')[:3]:
        ctx.violate('corr', 'list-parameter:model-disagrees', 'Coq model list_fields does not give the fields written before the comment',
                    inp={'part': 'list', 'raw': cases[i]})


# ------------------------------------------------------------------------------------------ (e) client overrides, whole runs
def _client_run(a):
    base_text, params, scratch = a
    import os
    import sys
    from geophires_x_client import GeophiresInputParameters, GeophiresXClient
    os.chdir(scratch)
    sys.stdout = open(os.devnull, 'w')
    basef = Path(scratch, f'cbase_{uuid.uuid4().hex[:10]}.txt')
    basef.write_bytes(base_text.encode('utf-8'))
    try:
        r = GeophiresXClient(enable_caching=False).get_geophires_result(GeophiresInputParameters(dict(params), from_file_path=basef))
        return {'report': Path(r.output_file_path).read_text(encoding='UTF-8', errors='replace'), 'error': None}
    except BaseException as e:  # noqa
        return {'report': None, 'error': f'{type(e).__name__}: {e}'[:300]}


def _list_valued(line):
    """name, v1, v2, ...: list parameters are re-read from the raw line, they cannot travel through the params dict"""
    try:
        float(line[3].lstrip(',').split(',')[0].split('--')[0].strip())
        return True
    except ValueError:
        return False


def part_client_runs(ctx, bases):
    """GeophiresInputParameters(params, from_file_path=base): some parameters are moved from the file into the params dict (in two
    different dict orders), some of them ALSO stay in the base file with another value (duplicate names: the override must govern),
    base with and without final line terminator; every such request must give the report of the plain file."""
    from concurrent.futures import ProcessPoolExecutor
    rnd, jobs, meta, refs = ctx.rng, [], [], []
    for name, lines in bases:
        movable = [l for l in lines if l[0] == 'p' and not layout.is_block(l[1]) and not _list_valued(l) and l[1] != 'Print Output to Console']
        if len(movable) < 2:
            continue
        moved = rnd.sample(movable, min(len(movable), rnd.randint(3, 6)))
        stale = set(id(l) for l in rnd.sample(moved, max(1, len(moved) // 2)))      # these stay in the base file with a junk value
        base = [(('p', l[1], rnd.choice(['99999', '0', 'junk', '-1']), '') if id(l) in stale else None) if l in moved else l for l in lines]
        base = [l for l in base if l is not None]
        params = [(l[1], l[2]) for l in moved]
        # an override to zero / False of a parameter that is non-zero in the base file (the plain file carries the zero)
        zname, nonzero, zero = rnd.choice([('Inflation Rate During Construction', '0.05', 0), ('Water Loss Fraction', '0.05', 0.0),
                                           ('Production Wellbore Temperature Drop', '4', '0'), ('Injection Wellbore Temperature Gain', '2', 0),
                                           ('Water Loss Fraction', '0.08', '0.0'), ('Ramey Production Wellbore Model', 'True', False)])
        base = [l for l in base if l[1] != zname] + [('p', zname, nonzero, '')]
        params = [(k, v) for k, v in params if k != zname] + [(zname, zero)]
        lines = [l for l in lines if not (l[0] == 'p' and l[1] == zname)] + [('p', zname, str(zero), '')]
        refs.append(layout.render(lines))
        for variant in ('order-a', 'order-b'):
            if variant == 'order-b':
                params = list(reversed(params)) if len(params) > 1 else params
            eol, final = rnd.choice([('\n', True), ('\n', False), ('\r\n', True), ('\r\n', False)])
            jobs.append((layout.render(base, eol, final), params, str(ctx.scratch)))
            meta.append((name, variant, len(refs) - 1))
    ref_runs = runner.run_many(ctx, refs, workers=8)
    with ProcessPoolExecutor(max_workers=8, initializer=runner._init_worker, initargs=(str(ctx.scratch),)) as ex:
        res = list(ex.map(_client_run, jobs))
    for (name, variant, k), job, r in zip(meta, jobs, res):
        want = masked(ref_runs[k])
        got = MASK.sub('', r['report']).replace('-0.00', '0.00') if r['report'] is not None else 'NO REPORT: ' + re.sub(r'/[^ \'"]*', '<path>', str(r['error']))[:300]
        ctx.count('client-override-runs', evaluations=1, nontrivial_keys=[(name, variant)], variants={variant: 1})
        if want.startswith('NO REPORT') and got.startswith('NO REPORT'):
            continue      # the plain file does not run either (the client wraps the exception, the texts differ)
        if got != want:
            diff = [(a, b) for a, b in zip(want.splitlines(), got.splitlines()) if a != b][:6]
            ctx.violate('property', f'client-override:run:{variant}', f'GeophiresInputParameters(params, from_file_path): moving parameters of input {name} '
                        'into the params dict (duplicates left in the base file) changes the case report',
                        inp={'part': 'client-runs', 'name': name, 'base_text': job[0], 'params': job[1], 'plain_text': refs[k]},
                        expected='the report of the plain file', observed={'first_differing_lines': diff, 'error': r['error']})


def correspondence(ctx, proofs_ok=True):
    _quiet()
    part_model_vs_tokenizer(ctx)
    part_metamorphic(ctx, ctx.n(200, 4000))
    part_client(ctx, ctx.n(120, 3000))
    part_list_params(ctx, ctx.n(150, 3000))
    bases = base_inputs(ctx)
    part_runs(ctx, bases)
    part_client_runs(ctx, bases[:ctx.n(10, 40)])
    part_cache_history(ctx, bases[ctx.n(10, 40):][:ctx.n(6, 30)] + bases[:2])


def search(ctx):
    """Something is broken (model disagrees / use-site table no longer order-blind) but no variant failed yet:
    evaluate the property itself at higher volume around the transformation classes."""
    _quiet()
    part_metamorphic(ctx, 1500)
    if not any(v.kind == 'property' for v in ctx.violations):
        bases = base_inputs(ctx)
        for _ in range(3):
            if part_runs(ctx, bases, classes=['perm', 'all', 'dup']):
                break


def replay(ctx, data):
    _quiet()
    inp = data['input']
    part = inp.get('part')
    if part in ('tokenizer', 'metamorphic'):
        data = bytes.fromhex(inp['bytes_hex']) if 'bytes_hex' in inp else inp['text'].encode('utf-8')
        got = real_read(ctx, data)
        fails = fw.kernel_bools(ctx, 'replay', REQ, [file_term(data, got)], open_scope='N_scope')
        print('implementation dictionary:', got)
        print('Coq model agrees with the implementation:', not fails)
        bad = bool(fails)
        if part == 'metamorphic':
            gmap = {k: v for k, _, v, _, _ in got or []}
            gblock = [k for k, *_ in got or [] if layout.is_block(k)]
            print('expected parameter set:', inp['want'], 'block order', inp['block'])
            bad = gmap != inp['want'] or gblock != inp['block']
    elif part == 'client':
        params = [tuple(p) for p in inp['params']]
        text, got = client_case(ctx, inp['base_text'], params)
        print('file written by the client:', repr(text))
        print('overrides:', dict(params), '-> read back:', {k: got.get(k) for k, _ in params})
        bad = any(got.get(k) != str(v) for k, v in params)
    elif part == 'cache-history':
        before = len(ctx.violations)
        lines = canonical(inp['texts'][0])
        refs = runner.run_many(ctx, inp['texts'])
        from concurrent.futures import ProcessPoolExecutor
        with ProcessPoolExecutor(max_workers=1, initializer=runner._init_worker, initargs=(str(ctx.scratch),)) as ex:
            paths, outs = ex.submit(_cache_history_job, (inp['texts'], inp['order'], str(ctx.scratch))).result()
        got = [MASK.sub('', o).replace('-0.00', '0.00') for o in outs]
        wrong = [n for n, (i, g) in enumerate(zip(inp['order'], got)) if g != masked(refs[i]) and not g.startswith('NO REPORT')]
        print('requests (file index):', inp['order'], '-> requests that did not get their own file\'s result:', wrong)
        bad = bool(wrong)
    elif part == 'list':
        before = len(ctx.violations)
        part_list_params(ctx, 0)
        import types
        from geophires_x.GeoPHIRESUtils import read_input_file
        from geophires_x.Parameter import ReadParameter, listParameter
        from geophires_x.Units import LengthUnit, Units
        f = Path(ctx.scratch, 'list_replay.txt')
        f.write_bytes((inp['raw'] + '\n').encode('utf-8'))
        d = {}
        read_input_file(d, input_file_name=str(f))
        p = listParameter(inp['name'], DefaultValue=[1.0], Min=0.0, Max=500.0, UnitType=Units.LENGTH, PreferredUnits=LengthUnit.KILOMETERS,
                          CurrentUnits=LengthUnit.KILOMETERS)
        try:
            ReadParameter(d[inp['name']], p, types.SimpleNamespace(logger=logging.getLogger('c12-list')))
            got = [float(x) for x in p.value]
        except Exception as e:  # noqa
            got = f'{type(e).__name__}: {e}'[:120]
        print('line:', repr(inp['raw']), '-> list read by ReadParameter:', got, '| written fields:', inp['fields'])
        bad = got != [float(x) for x in inp['fields']]
    elif part == 'client-runs':
        from concurrent.futures import ProcessPoolExecutor
        ref = runner.run_many(ctx, [inp['plain_text']])[0]
        with ProcessPoolExecutor(max_workers=1, initializer=runner._init_worker, initargs=(str(ctx.scratch),)) as ex:
            r = ex.submit(_client_run, (inp['base_text'], [tuple(p) for p in inp['params']], str(ctx.scratch))).result()
        got = MASK.sub('', r['report']).replace('-0.00', '0.00') if r['report'] is not None else 'NO REPORT'
        bad = got != masked(ref)
        print('client(params, base file) report == report of the plain file:', not bad, r['error'] or '')
    elif part == 'runs':
        a, b = runner.run_many(ctx, [inp['base_text'], inp['variant_text']])
        bad = masked(a) != masked(b)
        print('base report == variant report (metadata masked):', not bad)
        if bad:
            print([(x, y) for x, y in zip(masked(a).splitlines(), masked(b).splitlines()) if x != y][:8])
    else:
        print('replay names a broken obligation, not an input:', data.get('what'))
        return 1
    print('property', 'VIOLATED' if bad else 'holds', 'on this input')
    return 1 if bad else 0
