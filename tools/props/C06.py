"""C06 - results do not depend on the units in which inputs are written."""
import math
import re
from fractions import Fraction as F

from gen import unit_catalogue as gen
import sys

from lib import c06_more as more, c06_units as cu, framework as fw, qconv, runner

META = {
    'props': 'Props/C06.v',
    'claimed': True,
    'level_text': ('Proof (partial): 33 axiom-free Coq theorems about an executable model of Parameter.ReadParameter / ConvertUnits / LookupUnits / '
                   'ConvertUnitsBack / ConvertOutputUnits over ARBITRARY registry tables: affine conversions round-trip, compose and preserve the '
                   'denoted quantity for every value; whenever LookupUnits recognises the unit pint reports after the conversion, writing "x u" has '
                   'exactly the effect of writing the equivalent value in the default unit (same value, remembered unit, flags, error) and the '
                   'echoed pair denotes the quantity supplied; a requested output unit converts every element of a series of any length by the '
                   'exact factor, relabels it and touches no other output of a dictionary of any size. The unrestricted clauses are REFUTED for the '
                   'faithful model of the pinned reader (C06_denotation_refuted / C06_echo_refuted: 122 degF is held as 50 but echoed as 10 degC; '
                   'C06_total_refuted: cm**2 raises; C06_currency_prefix_refuted: 0.005 KUSD is read as 5 MUSD) and proved under the missing '
                   'hypothesis (_partial). Tied to the current source on every run: unit catalogue, LookupUnits scan order, pint meanings and '
                   'parameter tables are regenerated (Gen/UnitCatalogue.v) and re-proved well-formed; EVERY scalar parameter of every module x '
                   'EVERY unit of its catalogue goes through the real ReadParameter (+ the echo step) and every output parameter x catalogue unit '
                   'through the real ConvertOutputUnits; model and implementation are compared inside Coq (vm_compute) and the property is judged '
                   'by Coq-defined oracles; whole runs with one entry re-expressed / one output unit requested are compared with their reference. '
                   'Round 2: ConvertUnitsBack is proved to be the same affine map as ConvertUnits and a round trip over any re-expression; the '
                   'depth (x1000, and Economics\' >500 -> /1000 back), diameter (>2 -> x0.0254, METERS) and impedance (x1000, unit kept) heuristics '
                   'are modelled with denotation / echo-round-trip theorems and tied to snapshots and echo lines of real runs; one-line list '
                   'parameters (a unit suffix is never read) and HIP-RA-X parameters go through the same reader enumeration, HIP-RA-X whole '
                   'runs are compared pairwise; output-unit requests are judged on profile-table columns (value x factor under a header that '
                   'shows the requested unit); the registry is checked against a frozen independent unit reference (C06_reference_units_agree); '
                   'the evidence counts, per unit class, the (parameter, unit) pairs covered by C06_catalogue vs each finding.'),
    'level_note': ('Trusted: Coq kernel + vm_compute; the generator and harness (Python); pint is the authority for what a catalogue text means '
                   '(its factors enter as regenerated rationals, cross-checked against registry conversions on every run); float rounding is outside '
                   'the theorems (comparisons at 1e-9 relative). "Nothing downstream depends on CurrentUnits" is tied by run pairs, not proved. '
                   'Seven defect classes of the pinned tree are recorded as findings C06-F1..F7 (known_findings.json) with class-specific keys.'),
    'technique': 'Coq proof about an executable Gallina model + kernel-evaluated correspondence with the implementation + tables regenerated from the source',
    'rule': ('reader level: every class of geophires_x owning a ParameterDict is instantiated on a stub model; every float/int parameter with a unit '
             'enum x every member of that enum (the program\'s own catalogue for the parameter) x in-range values drawn from ctx.rng (ints: member+0.5; '
             'currency: also amounts /1e3 and /1e6) is read through the real ReadParameter as "x u" and then through ConvertUnitsBack when '
             'UnitsMatch is false; a case is non-trivial when u differs from the preferred unit and is dimensionally convertible (same pint '
             'dimensionality); distinct = distinct (parameter name, unit). Output level: every OutputParameter x every member of its enum through '
             'LookupUnits + ConvertOutputUnits on scalars and arrays. Run level: fixed structures (end use, plant, reservoir, economic model) with '
             'numbers from ctx.rng; one entry (given or default) re-expressed per variant vs the same entry in the default unit; one "Units:" '
             'request per variant vs the base; quick samples one variant per unit class plus every entry of the file and every profile output, '
             'thorough enumerates all. HIP-RA-X: the shipped example with numbers moved by up to 10 %, every scalar input x catalogue unit and every '
             'output x catalogue unit as whole runs. Heuristics: depth / diameter / impedance entries in 2-7 units each, snapshot vs model and echo line.'),
    'trusted_base': ['Coq 8.16.1 kernel + vm_compute (no native_compute)',
                     'all 33 C06 theorems: Closed under the global context (no axioms)',
                     'hand-written models coq/Model/UnitAlg.v, coq/Model/UnitReader.v tied to Parameter.py by kernel-evaluated correspondence',
                     'tools/lib/c06_units.py, tools/gen/unit_catalogue.py, tools/props/C06.py (unverified Python), tools/lib/runner.py + hook snapshot',
                     'pint 0.26 registry + GEOPHIRES3_newunits.txt as the meaning of unit texts; forex_python CurrencyCodes (static table)'],
    'modelled': ['Parameter.ReadParameter (float/int path)', 'Parameter.ConvertUnits (pint branch, currency-prefix branch)', 'Parameter.LookupUnits',
                 'Parameter.ConvertUnitsBack (+ currency fall-back)', 'Parameter.ConvertOutputUnits', 'Outputs._convert_units guards',
                 'Reservoir depth x1000 / Economics depth > 500 back / WellBores diameter > 2 / impedance x1000 heuristics',
                 'ReadParameter on one-line list parameters', 'HIP-RA-X parameters (same ReadParameter / ConvertUnitsBack)', 'pint parsing/conversion as affine maps (table)',
                 'forex_python CurrencyCodes.get_symbol (table)'],
    'assumptions': ['a unit text means what the program\'s pint registry says it means (e.g. "gr" is grain, "mt" is milli-tonne)',
                    'unit "" (dimensionless) cannot be written in an input file (values are stripped) and is excluded from the input quantifier',
                    'currencies other than USD need the disabled forex service and are outside the property (not dimensionally convertible here)',
                    'add-on list entries ("AddOn CAPEX 1") bypass ReadParameter (float(sValue)) and are not modelled; table columns are matched '
                    'to header units by order inside "|" sections, else by horizontal position; spec/c06_unit_reference.json is a hand-written '
                    'reference (85 units) and is trusted as the documented meaning of those units',
                    'floating-point rounding of pint conversions is not modelled (exact rationals vs floats at 1e-9 relative)'],
    'fingerprint': [('src/geophires_x/Parameter.py', 'ConvertUnits'), ('src/geophires_x/Parameter.py', 'LookupUnits'),
                    ('src/geophires_x/Parameter.py', 'ConvertUnitsBack'), ('src/geophires_x/Parameter.py', 'ConvertOutputUnits'),
                    ('src/geophires_x/Parameter.py', 'ReadParameter'), ('src/geophires_x/Outputs.py', 'Outputs._convert_units'),
                    ('src/hip_ra_x/hip_ra_x.py', 'HIP_RA_X.read_parameters'), ('src/hip_ra_x/hip_ra_x.py', 'HIP_RA_X.PrintOutputs')],
}
GENERATORS = (gen.gen_unit_catalogue, gen.gen_unit_reference)
REQ = ['Model.UnitAlg', 'Model.UnitReader', 'Gen.UnitCatalogue', 'Gen.UnitReference']
TOL = F(1, 10 ** 9)
VERDICT = {1: 'raises', 2: 'value', 3: 'stale-units'}
ERRNAME = {3: 'range', 10: 'init', 11: 'undefined-unit', 12: 'convert', 13: 'forex', 14: 'attribute', 15: 'dimension', 98: 'other'}

cs = gen.cs
q = qconv.q


# ---------------------------------------------------------------------------------------------------------------
# Coq terms
# ---------------------------------------------------------------------------------------------------------------

def uref(u):
    return '(' + gen.uref(u) + ')'


def spec_term(r):
    p = r['param']
    if r['kind'] == 'int':
        allow = '[' + '; '.join(qconv.zlit(int(a)) for a in p.AllowableRange) + ']'
        return f'(mkS KInt {qconv.blit(r["currency"])} {cs(r["pref"])} 0 0 {q(int(p.DefaultValue))} {allow})'
    return f'(mkS KFloat {qconv.blit(r["currency"])} {cs(r["pref"])} {q(float(p.Min))} {q(float(p.Max))} {q(float(p.DefaultValue))} [])'


def state_term(value, cur, provided):
    return f'(mkP {q(value)} {uref(cur)} {qconv.blit(provided)})'


def obs_term(o):
    if o['status'] == 'err':
        return f'(OErr {qconv.zlit(o["code"])})'
    return f'(OOk {q(o["value"])} {uref(o["cur"])} {qconv.blit(o.get("provided", False))})'


def floor_of(d, *texts):
    """absolute comparison floor: TOL x the largest offset among the units involved (0 for offset-free units)"""
    return TOL * max([abs(d['pint'][t]['off']) for t in texts if d['pint'].get(t)] + [F(0)])


def zverdicts(ctx, name, terms, chunk=300):
    """terms of type Z (oracle verdicts, 0..15) -> list of ints, evaluated inside Coq (vm_compute)"""
    from concurrent.futures import ThreadPoolExecutor
    chunks = [(k, terms[lo:lo + chunk]) for k, lo in enumerate(range(0, len(terms), chunk))]

    def one(kc):
        k, ts = kc
        body = ('let l := [\n ' + ';\n '.join(ts) + '] in (List.length l, List.map (fun p => (fst p * 16 + Z.to_nat (snd p))%nat) '
                '(List.filter (fun p => negb (Z.eqb (snd p) 0)) (List.combine (List.seq 0 (List.length l)) l)))')
        return fw.kernel_eval(ctx, f'{name}_{k}', ['Base.Flat'] + REQ, lambda lo, hi: body, len(ts), shard=len(ts))

    out = []
    with ThreadPoolExecutor(max_workers=8) as ex:
        for (k, ts), codes in zip(chunks, ex.map(one, chunks)):
            v = [0] * len(ts)
            for c in codes:
                v[c // 16] = c % 16
            out += v
    return out


# ---------------------------------------------------------------------------------------------------------------
# case generation (reader level)
# ---------------------------------------------------------------------------------------------------------------

def sig7(x):
    return format(float(x), '.7g')


def to_unit(d, t, pref, u):
    """t (in preferred units) expressed in unit u, by the registry's own meaning of both texts; None if not convertible"""
    p, n = d['pint'].get(pref), d['pint'].get(u)
    if not p or not n or p['dim'] != n['dim']:
        return None
    return (p['fac'] * F(t) + p['off'] - n['off']) / n['fac']


def targets(r, rnd, k):
    """k values in PREFERRED units, inside the valid range, away from default/current (ints: a member + 0.5)"""
    p = r['param']
    out = []
    if r['kind'] == 'int':
        members = [a for a in sorted(p.AllowableRange) if a not in (p.DefaultValue, p.value)]
        for _ in range(k):
            out.append(F(rnd.choice(members)) + F(1, 2) if members else F(p.DefaultValue) + F(1, 2))
        return out
    lo, hi = F(float(p.Min)), F(float(p.Max))
    if hi > 10 ** 12:
        hi = max(lo, F(0)) + 1000
    if lo < -10 ** 12:
        lo = min(hi, F(0)) - 1000
    for _ in range(k):
        for _try in range(20):
            t = lo + (hi - lo) * F(rnd.randint(150, 850), 1000)
            t = F(sig7(t))
            if lo < t < hi and abs(t - F(float(p.DefaultValue))) > abs(t) / 100 and abs(t - F(float(p.value))) > abs(t) / 100 and t != 0:
                break
        out.append(t)
    return out


def reader_cases(ctx, d):
    # 'x' is the exact rational value of the float the implementation parses from the text 'xt'
    rnd = ctx.rng
    cases = []
    for r in d['params']:
        units = [u for u in r['units'] if u != '']          # '' cannot be written in an input file (values are stripped)
        extra = [] if ctx.quick else [u for u in cu.EXTRA_UNITS if u and u not in units and to_unit(d, 1, r['pref'], u) is not None]
        for u in units + extra:
            for t in targets(r, rnd, ctx.n(1, 2)):
                x = to_unit(d, t, r['pref'], u)
                xs = [sig7(x) if x is not None else '3.7']
                if r['currency'] and x is not None and u != r['pref']:
                    xs += [sig7(x / 1000), sig7(x / 10 ** 6)]   # small amounts: stay in range whatever the scaling
                for xt in xs:
                    cases.append({'row': r, 'u': u, 'xt': xt, 'x': F(float(xt)), 'catalogue': u in units, 'text': f'{xt} {u}'})
        # no unit at all, and the default value written with the default unit (the "== default / == current" early returns)
        t = targets(r, rnd, 1)[0]
        cases.append({'row': r, 'u': None, 'xt': sig7(t), 'x': F(float(sig7(t))), 'catalogue': False, 'text': sig7(t)})
        dv = repr(float(r['param'].DefaultValue))
        if r['pref'] and 'e' not in dv and 'inf' not in dv and 'nan' not in dv:
            cases.append({'row': r, 'u': r['pref'], 'xt': dv, 'x': F(float(dv)), 'catalogue': False, 'text': f'{dv} {r["pref"]}'})
    return cases


def mark_judged(d, cases):
    """the property speaks about a catalogue unit written with a value whose equivalent is a VALID value of the parameter
    (an equivalent outside [Min, Max] must be rejected: that is C07, not a unit defect)"""
    for c in cases:
        r, p = c['row'], c['row']['param']
        c['judged'] = c['u'] is not None and c['catalogue']
        pp, nn = d['pint'].get(r['pref']), d['pint'].get(c['u'])
        if c['judged'] and pp and nn and pp['dim'] == nn['dim']:
            e = (nn['fac'] * c['x'] + nn['off'] - pp['off']) / pp['fac']
            c['judged'] = (math.trunc(e) in p.AllowableRange) if r['kind'] == 'int' else (F(float(p.Min)) <= e <= F(float(p.Max)))


def run_reader(cases):
    for c in cases:
        o = cu.real_read(c['row']['param'], c['text'])
        c['obs'] = o
        c['echo'] = None
        if o['status'] == 'ok':
            p = o['p']
            c['echo'] = {'status': 'ok', 'value': p.value, 'cur': cu.uval(p.CurrentUnits)} if p.UnitsMatch else cu.real_back(p)


def case_key(c):
    r = c['row']
    p = r['param']
    rng = tuple(p.AllowableRange) if r['kind'] == 'int' else (p.Min, p.Max)
    return (r['kind'], r['currency'], r['pref'], r['cur'], rng, p.DefaultValue, p.value, c['text'])


def read_terms(c):
    r = c['row']
    p = r['param']
    fl = q(floor_of(gen.data(), *r['units'], *cu.EXTRA_UNITS))
    st = state_term(F(p.value) if r['kind'] == 'int' else F(float(p.value)), r['cur'], bool(p.Provided))
    u = f'(Some {cs(c["u"])})' if c['u'] is not None else 'None'
    model = f'(read_param gen_tables {spec_term(r)} {st} {q(c["x"])} {u})'
    corr = f'agree_state {q(TOL)} {fl} {model} {obs_term(c["obs"])}'
    isint = qconv.blit(r['kind'] == 'int')
    oracle = (f'(oracle_read gen_tables {q(TOL)} {cs(r["pref"])} {isint} {q(c["x"])} {cs(c["u"])} {obs_term(c["obs"])})'
              if c['u'] is not None else None)
    echo_model = f'(match {model} with ROk st => echo_state gen_tables {spec_term(r)} st | RErr c => RErr c end)'
    e = c['echo']
    echo_corr = f'agree_state {q(TOL)} {fl} {echo_model} {obs_term({**e, "provided": c["obs"].get("provided", False)})}' if e else None
    echo_oracle = (f'(oracle_echo gen_tables {q(TOL)} {cs(r["pref"])} {isint} {q(c["x"])} {cs(c["u"])} {obs_term(e)})'
                   if e and c['u'] is not None else None)
    return corr, oracle, echo_corr, echo_oracle


def klass(c):
    r = c['row']
    decl = '' if r['cur'] == ('E', r['pref']) else f':declared-current={r["cur"][1] or "dimensionless"}'
    return f'{r["utype"]}:{r["pref"] or "dimensionless"}:{c["u"]}{decl}'


def inp_of(c, part):
    r = c['row']
    return {'part': part, 'cls': r['cls'], 'key': r['key'], 'parameter': r['name'], 'text': c['text'],
            'entry': f'{r["name"]}, {c["text"]}'}


def show_obs(o):
    if o is None:
        return None
    if o['status'] == 'err':
        return {'raised': o['exc']}
    return {'value': o['value'], 'CurrentUnits': o['cur'][1] if o['cur'][0] != 'N' else None, 'CurrentUnits_kind': o['cur'][0]}


def check_reader(ctx, d):
    """Every (parameter, catalogue unit, value) goes through the real ReadParameter (+ the echo step) and is judged by
    py_verdict; the Coq model (correspondence) and the Coq oracle (must agree with py_verdict) are evaluated on
    representatives: thorough - every case, quick - two cases of every behaviour class (unit class x outcome x verdict)."""
    cases = corpus_cases(d) + reader_cases(ctx, d)
    mark_judged(d, cases)
    run_reader(cases)
    groups = {}
    for c in cases:
        judged = c['judged']
        c['pv'] = (py_verdict(d, c, c['obs'], False) if judged else None,
                   py_verdict(d, c, c['echo'], True) if judged and c['echo'] else None)
        o, e = c['obs'], c['echo']
        g = (klass(c) if c['u'] is not None else c['row']['kind'], c['judged'], o['status'], o.get('code'),
             e and e['status'], e and e.get('code'), c['pv'], c.get('corpus'), c['text'] if c.get('corpus') else None)
        groups.setdefault(g, []).append(c)
    reps = [c for g in groups.values() for c in (g if not ctx.quick else g[:2])]
    terms = [read_terms(c) for c in reps]
    # 1. model == implementation (reader, then echo)
    for part, col in (('reader-corr', 0), ('echo-corr', 2)):
        idx = [i for i, t in enumerate(terms) if t[col] is not None]
        bad = fw.kernel_bools(ctx, part, REQ, [terms[i][col] for i in idx], open_scope='Q_scope')
        ctx.count(part, evaluations=len(idx), nontrivial_keys=[klass(reps[i]) for i in idx if reps[i]['u'] is not None])
        for j in bad[:8]:
            c = reps[idx[j]]
            ctx.violate('corr', f'corr:{part}:{klass(c)}', f'Coq model of the {part[:-5]} path and the implementation disagree on '
                        f'"{c["row"]["name"]}, {c["text"]}" ({c["row"]["cls"]})', inp=inp_of(c, part),
                        observed=show_obs(c['obs'] if col == 0 else c['echo']), expected='value of the Coq model (see replay)')
    # 2. the Coq oracles on the representatives: they must say what py_verdict says
    for part, col, k in (('reader', 1, 0), ('echo', 3, 1)):
        idx = [i for i, t in enumerate(terms) if t[col] is not None and reps[i]['judged']]
        verdicts = zverdicts(ctx, part + '-oracle', [terms[i][col] for i in idx])
        ctx.count(part + '-oracle', evaluations=len(idx), coq_verdicts={v: verdicts.count(v) for v in set(verdicts)})
        for i, v in zip(idx, verdicts):
            c = reps[i]
            if v != c['pv'][k]:
                ctx.violate('corr', f'corr:oracle-twin:{part}:{klass(c)}', f'Coq oracle says {v}, its python twin {c["pv"][k]} on '
                            f'"{c["row"]["name"]}, {c["text"]}"', inp=inp_of(c, part), observed=show_obs(c['obs'] if k == 0 else c['echo']))
    # 3. the property on every case
    file_reader_verdicts(ctx, d, cases)
    ctx.count('reader-impl', evaluations=len(cases), nontrivial_keys=[(c['row']['name'], c['u']) for c in cases if c['judged']],
              behaviour_classes=len(groups))
    for c in cases[:2]:
        ctx.sample('reader', inp_of(c, 'reader'))
    return cases


def file_reader_verdicts(ctx, d, cases):
    seen = {}
    for part, k, what in (('reader', 0, 'reading'), ('echo', 1, 'the echo after Outputs._convert_units for')):
        for c in cases:
            v = c['pv'][k]
            if v in (None, 0, 9):
                continue
            o = c['obs'] if k == 0 else c['echo']
            kind = VERDICT[v] + ('-' + ERRNAME.get(o['code'], 'other') if v == 1 else '')
            key = f'{part}:{kind}:{klass(c)}'
            seen.setdefault(key, []).append(c['row']['name'])
            if len(seen[key]) == 1:
                ctx.violate('property', key, f'{what} "{c["row"]["name"]}, {c["text"]}": {describe(d, c, o, v)}',
                            inp=inp_of(c, part), expected=expected_of(d, c), observed=show_obs(o))
    for v in ctx.violations:
        if v.key in seen and isinstance(v.inp, dict):
            v.inp['parameters_in_this_class'] = sorted(set(seen[v.key]))[:20]


def expected_of(d, c):
    r = c['row']
    e = None
    p, n = d['pint'].get(r['pref']), d['pint'].get(c['u'])
    if p and n and p['dim'] == n['dim']:
        e = float((n['fac'] * c['x'] + n['off'] - p['off']) / p['fac'])
    return {'value_in_preferred_units': e, 'preferred_unit': r['pref'], 'remembered_unit': 'one that denotes the same quantity'}


def describe(d, c, o, v):
    if v == 1:
        return f'raises {o["exc"]} although {c["u"]!r} is in the catalogue of this parameter and convertible to {c["row"]["pref"]!r}'
    if v == 2:
        return f'holds {o["value"]!r} {c["row"]["pref"]} but the equivalent value is {expected_of(d, c)["value_in_preferred_units"]!r}'
    return (f'holds {o["value"]!r} remembered as {o["cur"][1]!r} ({"no unit" if o["cur"][0] == "N" else "enum" if o["cur"][0] == "E" else "bare str"}),'
            f' which does not denote the quantity supplied')


# ---------------------------------------------------------------------------------------------------------------
# tables: LookupUnits model vs the real function, Gen factors vs pint conversions, pinned witness fragment
# ---------------------------------------------------------------------------------------------------------------

def lres_term(l):
    if l[0] == 'E':
        return f'(LItem {cs(l[1])} {qconv.blit(l[3])})'
    return 'LNone' if l[0] == 'N' else 'LRaise'


def check_tables(ctx, d):
    gx, P, U = cu.modules()
    cur_enums = {c for c, is_cur, _ in d['scan'] if is_cur}
    texts = sorted(set(d['texts']) | set(d['canon']) | set(d['sym']))
    terms, descs = [], []
    for t in texts:
        l = cu.lookup_real(t)
        if l[0] == 'E':
            l = l + (l[2] in cur_enums,)
        terms.append(f'(match t_lookup gen_tables {cs(t)}, {lres_term(l)} with LItem a b, LItem c e => String.eqb a c && Bool.eqb b e '
                     f'| LNone, LNone | LRaise, LRaise => true | _, _ => false end)')
        descs.append((t, l))
    bad = fw.kernel_bools(ctx, 'lookup-corr', REQ, terms, open_scope='Q_scope')
    ctx.count('lookup-corr', evaluations=len(terms), nontrivial_keys=[t for t, l in descs if l[0] != 'E'],
              outcome={k: sum(1 for _, l in descs if l[0] == k) for k in 'ENR'})
    for i in bad[:5]:
        ctx.violate('corr', f'corr:lookup:{descs[i][0]}', f'Coq model of LookupUnits and the implementation disagree on {descs[i][0]!r}',
                    inp={'part': 'lookup', 'text': descs[i][0]}, observed=str(descs[i][1]), expected='value of lookup_units on the regenerated scan/symbol tables')
    # every catalogue unit against every other unit of its enum: registry conversion == affine model on Gen factors
    ureg = U.get_unit_registry()
    terms, descs = [f'wf_pint gen_pint'], [('wf', '', '')]
    for c, _, vals in sorted({(r['enum'], 0, tuple(r['units'])) for r in d['params'] + d['outs']}):
        for a in vals:
            for b in vals:
                if a == b or to_unit(d, 1, a, b) is None:
                    continue
                for x in ('37.25', '-4.5'):
                    y = ureg.Quantity(float(x), a).to(b).magnitude
                    terms.append(f'(match t_parse gen_tables {cs(a)}, t_parse gen_tables {cs(b)} with Some u, Some v => '
                                 f'rel_close (1#1000000000000) (convert u v {q(F(x))}) {q(y)} | _, _ => false end)')
                    descs.append((a, b, x))
    bad = fw.kernel_bools(ctx, 'registry-table', REQ, terms, open_scope='Q_scope')
    ctx.count('registry-table', evaluations=len(terms), nontrivial_keys=[(a, b) for a, b, _ in descs])
    for i in bad[:5]:
        ctx.violate('corr', f'corr:registry-table:{descs[i][0]}:{descs[i][1]}',
                    f'generated unit table disagrees with the registry on {descs[i]}', inp={'part': 'registry-table', 'case': descs[i]})
    # the pinned registry fragment of the _refuted witnesses still describes the current tree
    pins = [f'agree_state 0 0 (read_param pin_tables spec_temperature (mkP 70 (UEnum "degC") false) 122 (Some "degF")) '
            f'(match read_param gen_tables spec_temperature (mkP 70 (UEnum "degC") false) 122 (Some "degF") with ROk st => OOk (p_value st) (p_cur st) (p_provided st) | RErr c => OErr c end)',
            f'agree_state 0 0 (read_param pin_tables spec_area (mkP 250000 (UEnum "m**2") false) 5000 (Some "cm**2")) '
            f'(match read_param gen_tables spec_area (mkP 250000 (UEnum "m**2") false) 5000 (Some "cm**2") with ROk st => OOk (p_value st) (p_cur st) (p_provided st) | RErr c => OErr c end)',
            f'agree_state 0 0 (read_param pin_tables spec_cost (mkP (-1) (UEnum "MUSD") false) (5#1000) (Some "KUSD")) '
            f'(match read_param gen_tables spec_cost (mkP (-1) (UEnum "MUSD") false) (5#1000) (Some "KUSD") with ROk st => OOk (p_value st) (p_cur st) (p_provided st) | RErr c => OErr c end)']
    bad = fw.kernel_bools(ctx, 'pinned-witness', REQ, pins, open_scope='Q_scope')
    ctx.count('pinned-witness', evaluations=len(pins))
    for i in bad:
        ctx.note(f'pinned witness {i} of Model/UnitReader.v (pin_tables) no longer behaves like the regenerated tables: '
                 f'the defect behind the C06 _refuted theorem {i} may have been repaired in /repo')


# ---------------------------------------------------------------------------------------------------------------
# the frozen, registry-independent reference (spec/c06_unit_reference.json) vs the live registry
# ---------------------------------------------------------------------------------------------------------------

def registry_vs_reference(unit, ref):
    """what the live registry makes of 1 <unit> and 0 <unit>, expressed in <ref> -> (factor, offset) floats or an error text"""
    gx, P, U = cu.modules()
    ureg = U.get_unit_registry()
    try:
        z = ureg.Quantity(0.0, unit).to(ref if ref else 'dimensionless').magnitude
        return ureg.Quantity(1.0, unit).to(ref if ref else 'dimensionless').magnitude - z, z
    except Exception as e:
        return f'{type(e).__name__}: {e}'


def check_reference(ctx, d):
    ref = gen.reference()
    terms = [f'ref_entry_ok {q(TOL)} gen_tables ({cs(u)}, {cs(r)}, {q(f)}, {q(o)})' for u, r, f, o in ref]
    bad = fw.kernel_bools(ctx, 'reference', REQ, terms, open_scope='Q_scope')
    ctx.count('reference-units', evaluations=len(terms), nontrivial_keys=[u for u, r, _, _ in ref if u != r])
    for i in bad:
        u, r, f, o = ref[i]
        ctx.violate('property', f'reference:unit:{u}', f'the program\'s unit registry takes 1 {u!r} to be {registry_vs_reference(u, r)} {r!r} '
                    f'(factor, offset); the documented meaning is {float(f)!r}, {float(o)!r}: every input or output written in {u!r} is mis-scaled',
                    inp={'part': 'reference', 'unit': u, 'in': r, 'entry': f'1 {u} expressed in {r}'},
                    expected={'factor': float(f), 'offset': float(o)}, observed=str(registry_vs_reference(u, r)))


# ---------------------------------------------------------------------------------------------------------------
# output units: LookupUnits(text)[0] + ConvertOutputUnits on every output parameter x catalogue unit
# ---------------------------------------------------------------------------------------------------------------

def oobs_term(o):
    if o['status'] == 'err':
        return f'(OOutErr {qconv.zlit(o["code"])})'
    return f'(OOut {qconv.qlist(o["vals"])} {uref(o["cur"])})'


def check_outputs(ctx, d):
    import numpy as np
    cur_enums = {c for c, is_cur, _ in d['scan'] if is_cur}
    seen, cases = set(), []
    for r in d['outs']:
        if r['cls'] == 'HIP_RA_X':       # HIP-RA-X has its own output-unit path (whole runs: more.check_hip_runs)
            continue
        sig = (r['name'], r['enum'], r['pref'], r['cur'])
        if sig in seen:
            continue
        seen.add(sig)
        for k, nu in enumerate(r['units']):
            vals = [F('1234.5'), F('-0.75'), F('88')] if (len(seen) + k) % 2 else [F('42.125')]
            pv = np.array([float(v) for v in vals]) if len(vals) > 1 else float(vals[0])
            o = cu.real_output_units(r['param'], pv, nu)
            if o['status'] == 'ok':
                v = o['value']
                o['vals'] = [F(float(x)) for x in (v.tolist() if hasattr(v, 'tolist') and np.ndim(v) else [v])]
            cases.append({'row': r, 'nu': nu, 'vals': vals, 'obs': o})
    # ConvertOutputUnits cannot depend on the output's name: all outputs with one unit signature must behave alike
    # (checked here on the implementation's results); Coq evaluates one representative per signature in the quick tier
    by_sig = {}
    for c in cases:
        r = c['row']
        by_sig.setdefault((r['enum'], r['pref'], r['cur'], c['nu'], len(c['vals'])), []).append(c)
    for sig, g in by_sig.items():
        beh = lambda o: (o['status'], o.get('code'), o.get('vals'), o.get('cur'))
        first = beh(g[0]['obs'])
        for c in g[1:]:
            if beh(c['obs']) != first:
                ctx.violate('corr', f'corr:output-name-dependent:{c["row"]["name"]}', f'"Units:{c["row"]["name"]}, {c["nu"]}" behaves unlike '
                            f'"Units:{g[0]["row"]["name"]}, {c["nu"]}" on the same values and units', inp=out_inp(c), observed=show_oobs(c['obs']), expected=show_oobs(g[0]['obs']))
    n_all = len(cases)
    if ctx.quick:
        cases = [g[0] for g in by_sig.values()]
    terms, oracles = [], []
    for c in cases:
        r = c['row']
        l = cu.lookup_real(c['nu'])
        if l[0] == 'E':
            l = l + (l[2] in cur_enums,)
        ost = f'(mkO {qconv.qlist(c["vals"])} {uref(r["cur"])} {cs(r["pref"])})'
        terms.append(f'agree_output {q(TOL)} {q(floor_of(d, *r["units"]))} (output_step gen_tables (Some (t_lookup gen_tables {cs(c["nu"])})) {ost}) {oobs_term(c["obs"])}')
        oracles.append(f'(oracle_output gen_tables {q(TOL)} {cs(r["cur"][1])} {cs(c["nu"])} {qconv.qlist(c["vals"])} {oobs_term(c["obs"])})')
    bad = fw.kernel_bools(ctx, 'output-corr', REQ, terms, open_scope='Q_scope')
    okey = lambda c: f'{c["row"]["utype"]}:{c["row"]["cur"][1] or "dimensionless"}:{c["nu"] or "dimensionless"}'
    ctx.count('output-corr', evaluations=len(terms), nontrivial_keys=[okey(c) for c in cases if c['nu'] != c['row']['cur'][1]])
    for i in bad[:8]:
        c = cases[i]
        ctx.violate('corr', f'corr:output:{okey(c)}', f'Coq model of ConvertOutputUnits and the implementation disagree on '
                    f'"Units:{c["row"]["name"]}, {c["nu"]}"', inp=out_inp(c), observed=show_oobs(c['obs']))
    # judged twice: by the program's own registry (regenerated table) and by the frozen independent reference
    refd = {u: (r, f, o) for u, r, f, o in gen.reference()}
    for tables, tag in (('gen_tables', 'output'), ('ref_tables', 'output-ref')):
        verdicts = zverdicts(ctx, tag + '-oracle', [t.replace('gen_tables', tables) for t in oracles])
        dist, seen = {}, set()
        for c, v in zip(cases, verdicts):
            dist[v] = dist.get(v, 0) + 1
            if v in (0, 9):
                continue
            o = c['obs']
            kind = {1: 'raises-' + ERRNAME.get(o.get('code'), 'other'), 2: 'factor', 3: 'label'}[v]
            key = f'{tag}:{kind}:{okey(c)}'
            if key in seen:
                continue
            seen.add(key)
            ctx.violate('property', key, f'"Units:{c["row"]["name"]}, {c["nu"]}" on values {[float(x) for x in c["vals"]]} in '
                        f'{c["row"]["cur"][1]!r}: ' + ('raises ' + o['exc'] if v == 1 else f'gives {show_oobs(o)}') +
                        (' - judged by the frozen unit reference (spec/c06_unit_reference.json)' if tag == 'output-ref' else ''),
                        inp={**out_inp(c), 'reference': tag == 'output-ref'}, observed=show_oobs(o),
                        expected={'values': [float(x) for x in (ref_convert(refd, x, c['row']['cur'][1], c['nu']) if tag == 'output-ref'
                                                                else to_unit(d, x, c['row']['cur'][1], c['nu']) for x in c['vals'])], 'label': c['nu']})
        ctx.count(tag + '-oracle', evaluations=len(oracles), verdicts=dist)
    ctx.count('output-impl', evaluations=n_all)


def ref_convert(refd, x, a, b):
    """x <a> expressed in <b> by the frozen reference; None when the reference does not relate them"""
    if a not in refd or b not in refd or refd[a][0] != refd[b][0]:
        return float('nan')
    return (refd[a][1] * F(x) + refd[a][2] - refd[b][2]) / refd[b][1]


def out_inp(c):
    r = c['row']
    return {'part': 'output', 'cls': r['cls'], 'key': r['key'], 'output': r['name'], 'unit': c['nu'], 'values': [str(x) for x in c['vals']],
            'entry': f'Units:{r["name"]}, {c["nu"]}'}


def show_oobs(o):
    if o['status'] == 'err':
        return {'raised': o['exc']}
    return {'values': [float(x) for x in o['vals']], 'CurrentUnits': o['cur'][1]}


# ---------------------------------------------------------------------------------------------------------------
# Outputs._convert_units itself: the real loop on real component objects (stub model) vs convert_outputs / echo_state
# ---------------------------------------------------------------------------------------------------------------

def check_convert_loop(ctx, d):
    import copy
    from types import SimpleNamespace
    import numpy as np
    gx, P, U = cu.modules()
    from geophires_x.Outputs import Outputs
    rnd = ctx.rng
    core = ['Reservoir', 'WellBores', 'SurfacePlant', 'Economics']
    for rep in range(ctx.n(2, 12)):
        objs = {n: copy.deepcopy(d['objs'][n]) for n in core}
        model = SimpleNamespace(logger=cu.StubModel.logger, InputParameters={}, reserv=objs['Reservoir'], wellbores=objs['WellBores'],
                                surfaceplant=objs['SurfacePlant'], economics=objs['Economics'])
        outputs = cu._quiet(lambda: Outputs(model, output_file=str(ctx.scratch / 'loop.out')))
        # inputs: a third of the scalar parameters are put into another unit of their catalogue, consistently (value converted)
        ins = []
        for r in d['params']:
            if r['cls'] not in core or r['kind'] != 'float' or r['currency']:
                continue
            p = objs[r['cls']].ParameterDict[r['key']]
            E = type(p.PreferredUnits)
            us = [m for m in E if m.value not in ('', r['pref']) and to_unit(d, 1, r['pref'], m.value) is not None]
            st = {'row': r, 'p': p, 'v0': F(float(p.value)), 'c0': cu.uval(p.CurrentUnits)}
            if us and r['cur'] == ('E', r['pref']) and rnd.random() < 0.35 and p.value not in (0, -1):
                m = rnd.choice(us)
                p.value = float(to_unit(d, F(float(p.value)), r['pref'], m.value))
                p.CurrentUnits = m
                st.update(v0=F(p.value), c0=cu.uval(m), moved=True)
            ins.append(st)
        # outputs: values, and a "Units:" request for 40% of them
        outs, reqs = {n: [] for n in core}, {}
        for r in d['outs']:
            if r['cls'] not in core:
                continue
            o = objs[r['cls']].OutputParameterDict[r['key']]
            vals = [F(rnd.randint(-5000, 90000), 8) for _ in range(rnd.choice([1, 1, 3]))]
            o.value = np.array([float(v) for v in vals]) if len(vals) > 1 else float(vals[0])
            us = [u for u in r['units'] if u != '' and to_unit(d, 1, r['cur'][1], u) is not None]
            req = rnd.choice(us) if us and rnd.random() < 0.4 else None
            if req is not None:
                outputs.ParameterDict[r['key']] = P.LookupUnits(req)[0]      # what Outputs.read_parameters stores
                reqs[r['key']] = req
            outs[r['cls']].append({'row': r, 'vals': vals, 'req': req})
        try:
            cu._quiet(lambda: outputs._convert_units(model))
            err = None
        except Exception as e:
            err = e
        if err is not None:
            ctx.violate('property', f'loop:raises:{type(err).__name__}', f'Outputs._convert_units raises {type(err).__name__}: {str(err)[:200]} '
                        f'on convertible requests {dict(list(reqs.items())[:5])}', inp={'part': 'loop', 'requests': reqs}, observed=str(err)[:300])
            continue
        cur_enums = {c for c, is_cur, _ in d['scan'] if is_cur}
        terms, oracles, descs = [], [], []
        for n in core:
            obs, mod = [], []
            for x in outs[n]:
                r = x['row']
                o = objs[n].OutputParameterDict[r['key']]
                v = o.value
                ob = {'status': 'ok', 'vals': [F(float(y)) for y in (v.tolist() if hasattr(v, 'tolist') and np.ndim(v) else [v])], 'cur': cu.uval(o.CurrentUnits)}
                obs.append(f'({cs(r["key"])}, {oobs_term(ob)})')
                mod.append(f'({cs(r["key"])}, mkO {qconv.qlist(x["vals"])} {uref(r["cur"])} {cs(r["pref"])})')
                if x['req'] is not None:
                    oracles.append(f'(oracle_output gen_tables {q(TOL)} {cs(r["cur"][1])} {cs(x["req"])} {qconv.qlist(x["vals"])} {oobs_term(ob)})')
                    descs.append(('output-loop', f'{r["utype"]}:{r["cur"][1] or "dimensionless"}:{x["req"]}', f'Units:{r["name"]}, {x["req"]}', ob, x))
                elif r['cur'] == ('E', r['pref']):
                    oracles.append(f'(oracle_untouched {uref(r["cur"])} {qconv.qlist(x["vals"])} {oobs_term(ob)})')
                    descs.append(('output-loop-untouched', f'{r["utype"]}:{r["cur"][1] or "dimensionless"}', f'{r["name"]} (not requested)', ob, x))
            rq = '[' + '; '.join(f'({cs(k)}, t_lookup gen_tables {cs(u)})' for k, u in reqs.items()) + ']'
            terms.append(f'agree_outputs {q(TOL)} {q(floor_of(d, *d["texts"]))} (convert_outputs gen_tables {rq} [' + '; '.join(mod) + ']) (ROk [' + '; '.join(obs) + '])')
        for st in ins:
            r, p = st['row'], st['p']
            ob = {'status': 'ok', 'value': p.value, 'cur': cu.uval(p.CurrentUnits), 'provided': bool(p.Provided)}
            terms.append(f'agree_state {q(TOL)} {q(floor_of(d, *r["units"]))} (echo_state gen_tables {spec_term(r)} {state_term(st["v0"], st["c0"], bool(p.Provided))}) {obs_term(ob)}')
            if st.get('moved'):
                oracles.append(f'(oracle_echo gen_tables {q(TOL)} {cs(r["pref"])} false {q(st["v0"])} {cs(st["c0"][1])} {obs_term(ob)})')
                descs.append(('echo-loop', klass({'row': r, 'u': st['c0'][1]}), f'{r["name"]} held as {float(st["v0"])!r} {st["c0"][1]}', ob, None))
        bad = fw.kernel_bools(ctx, f'loop-corr-{rep}', REQ, terms, open_scope='Q_scope', shard=40)
        ctx.count('convert-units-loop-corr', evaluations=len(terms), nontrivial_keys=[(rep, i) for i in range(len(terms))])
        for i in bad[:4]:
            what = core[i] + '.OutputParameterDict' if i < len(core) else f'input parameter {ins[i - len(core)]["row"]["name"]}'
            ctx.violate('corr', f'corr:convert-units-loop:{what}', f'Coq model of Outputs._convert_units and the implementation disagree on {what} '
                        f'(requests {dict(list(reqs.items())[:6])})', inp={'part': 'loop', 'requests': reqs})
        verdicts = zverdicts(ctx, f'loop-oracle-{rep}', oracles)
        ctx.count('convert-units-loop-oracle', evaluations=len(oracles), verdicts={v: verdicts.count(v) for v in set(verdicts)},
                  nontrivial_keys=[(k, kk) for k, kk, _, _, _ in descs])
        seen = set()
        for (part, k, what, ob, x), v in zip(descs, verdicts):
            if v in (0, 9):
                continue
            kind = {1: 'raises', 2: 'factor' if part != 'echo-loop' else 'value', 3: 'label' if part != 'echo-loop' else 'stale-units'}[v]
            key = f'{part}:{kind}:{k}'
            if key not in seen:
                seen.add(key)
                ctx.violate('property', key, f'after Outputs._convert_units: {what} -> {show_oobs(ob) if "vals" in ob else show_obs(ob)}' +
                            (f' from values {[float(y) for y in x["vals"]]} {x["row"]["cur"][1]!r}' if x else ''),
                            inp={'part': 'loop', 'entry': what, 'requests': reqs}, observed=show_oobs(ob) if 'vals' in ob else show_obs(ob))


# ---------------------------------------------------------------------------------------------------------------
# whole runs: a configuration vs the same configuration with ONE entry re-expressed in another catalogue unit
# (computed results, report echo), and vs the same configuration with a "Units:<output>, <unit>" request
# ---------------------------------------------------------------------------------------------------------------

MASK = re.compile(r'Calculation Time|Simulation Date|Simulation Time|GEOPHIRES Version|Calculation time')
NUM = r'[-+]?(?:\d[\d,]*\.?\d*|\.\d+)(?:[eE][-+]?\d+)?'
LINE = re.compile(r'^\s*(?P<label>[^:]+):\s+(?P<num>' + NUM + r')(?:\s+(?P<unit>\S.*?))?\s*$')


def numeric_leaves(snap):
    out = {}
    for comp, c in snap.items():
        if comp in ('input_parameters', 'outputs') or not isinstance(c, dict):
            continue
        for attr, rec in list(c.items()) + [('__plain__.' + k, {'value': v}) for k, v in c.get('__plain__', {}).items()]:
            if not isinstance(rec, dict) or 'value' not in rec:
                continue
            v = rec['value']
            vals = v if isinstance(v, list) else [v]
            if vals and all(isinstance(x, (int, float)) and not isinstance(x, bool) for x in vals):
                out[f'{comp}.{attr}'] = [float(x) for x in vals]
    return out


def results_differ(a, b, tol=1e-6):
    """first quantity of snapshot b that differs from snapshot a, or None.  A quantity differs when it is off by more than
    1e-6 relative AND by more than 1e-9 of the largest magnitude held by the same component (net quantities that nearly
    cancel - e.g. net electricity of a plant whose pumps eat the output - amplify the 1e-10 rounding of the re-expressed entry)"""
    la, lb = numeric_leaves(a), numeric_leaves(b)
    big = {}
    for k, v in la.items():
        c = k.split('.')[0]
        big[c] = max([big.get(c, 0.0)] + [abs(x) for x in v if not math.isnan(x) and not math.isinf(x)])
    for k in sorted(la):
        if k not in lb or len(la[k]) != len(lb[k]):
            return k, la[k][:3], lb.get(k, [])[:3]
        floor = 1e-8 + 1e-9 * big[k.split('.')[0]]
        for x, y in zip(la[k], lb[k]):
            if x != y and not (math.isnan(x) and math.isnan(y)) and not abs(x - y) <= tol * max(abs(x), abs(y)) + floor:
                return k, x, y
    return None


def half_ulp(numtext):
    t = numtext.replace(',', '')
    m = re.match(r'^[-+]?(\d*)\.?(\d*)(?:[eE]([-+]?\d+))?$', t)
    digits = len(m.group(2) or '')
    return F(1, 2) * F(10) ** (int(m.group(3) or 0) - digits)


def same_quantity(d, nb, ub, nv, uv):
    """do the printed pairs (nb ub) and (nv uv) denote one quantity, up to the printed precision?"""
    xb, xv = F(nb.replace(',', '')), F(nv.replace(',', ''))
    pb, pv = d['pint'].get(ub or ''), d['pint'].get(uv or '')
    if (ub or '') == (uv or '') or not pb or not pv or pb['dim'] != pv['dim']:
        return (ub or '') == (uv or '') and abs(xb - xv) <= half_ulp(nb) + half_ulp(nv) + F(1, 10 ** 6) * max(abs(xb), abs(xv))
    bb, bv = pb['fac'] * xb + pb['off'], pv['fac'] * xv + pv['off']
    slack = abs(pb['fac']) * half_ulp(nb) * 2 + abs(pv['fac']) * half_ulp(nv) * 2 + F(1, 10 ** 6) * max(abs(bb), abs(bv))
    return abs(bb - bv) <= slack


def report_diffs(d, base, var, scalar_only=False, requested=None):
    """lines of the variant report that do not say what the base report says -> [(label, base line, variant line, kind)], #changed"""
    bl = [l for l in base.splitlines() if not MASK.search(l)]
    vl = [l for l in var.splitlines() if not MASK.search(l)]
    if len(bl) != len(vl):
        return [('<number of lines>', str(len(bl)), str(len(vl)), 'line')], 1
    bad, changed = [], 0
    for x, y in zip(bl, vl):
        if x == y:
            continue
        mx, my = LINE.match(x), LINE.match(y)
        if scalar_only and not (mx and my):
            continue                      # tables (header units + columns) are not interpreted here
        changed += 1
        if mx and my and mx['label'].strip() == my['label'].strip() and same_quantity(d, mx['num'], mx['unit'], my['num'], my['unit']):
            continue
        if requested and mx and my and (mx['unit'] or '') == (my['unit'] or '') and same_quantity(d, mx['num'], mx['unit'], my['num'], requested):
            bad.append((mx['label'].strip(), x.strip(), y.strip(), 'stale-label'))   # value converted, label not
            continue
        if re.sub(NUM, '#', x) == re.sub(NUM, '#', y):     # table rows etc.: same layout, numbers within print precision
            nx, ny = re.findall(NUM, x), re.findall(NUM, y)
            if all(abs(F(a.replace(',', '')) - F(b.replace(',', ''))) <= half_ulp(a) + half_ulp(b) + abs(F(a.replace(',', ''))) / 10 ** 6
                   for a, b in zip(nx, ny)):
                continue
        bad.append(((mx['label'].strip() if mx else x.strip()[:40]), x.strip(), y.strip(), 'line'))
    return bad, changed


def base_configs(ctx):
    from lib import configs
    rnd = ctx.rng
    out = []
    # the structure (end use, plant, reservoir and economic model) is fixed, the numbers are drawn from ctx.rng
    for (eu, pl, rm, ec) in [(1, 2, 4, 3), (2, 9, 3, 2), (31, 1, 4, 1), (1, 4, 3, 2), (2, 5, 4, 1), (52, 3, 4, 2)][:ctx.n(2, 6)]:
        out.append(configs.synthetic(rnd, enduse=eu, plant=pl, resmodel=rm, econ=ec, nseg=2, addons=False))
    # last: ONE gradient segment with the temperature cap within reach (max depth (200-20)/50 = 3.6 km over a 3 km reservoir): a
    # temperature re-read through a stale unit tag (200 "degF" = 93 degC) moves the cap above the reservoir and changes every result
    capped = dict(configs.synthetic(rnd, enduse=1, plant=2, resmodel=4, econ=2, nseg=1, addons=False))
    capped.update({'Gradient 1': '50', 'Reservoir Depth': '3', 'Maximum Temperature': '200', 'Surface Temperature': '20'})
    out.append(list(capped.items()))
    return out


def run_variants(ctx, d, bases, snaps):
    """one re-expressed entry per variant: entries of the base file, and defaults of parameters the file does not set"""
    rnd = ctx.rng
    variants, classes = [], set()
    for bi, (base, snap) in enumerate(zip(bases, snaps)):
        used = {c.get('__class__') for c in snap.values() if isinstance(c, dict)}
        rows = {}
        for r in d['params']:
            if r['cls'] in used:
                rows.setdefault(r['name'], r)
        given = dict(base)
        cand = []
        for name, r in sorted(rows.items()):
            try:
                val = F(given[name]) if name in given else F(float(r['param'].value))
            except (ValueError, TypeError):
                continue
            p = r['param']
            if name not in given:    # a default is re-expressed only when it is an ordinary in-range, non-zero value
                lo, hi = (min(p.AllowableRange), max(p.AllowableRange)) if r['kind'] == 'int' else (p.Min, p.Max)
                if not (lo < val < hi) or val == 0 or min(abs(val - F(float(lo))), abs(F(float(hi)) - val)) < abs(val) / 1000:
                    continue
            for u in r['units']:
                if u in ('', r['pref']) or to_unit(d, 1, r['pref'], u) is None:
                    continue
                cand.append((r, name, val, u, name in given))
        rnd.shuffle(cand)
        names = set()
        for r, name, val, u, isgiven in cand:
            k = (r['utype'], r['pref'], u, r['cur'])
            # quick: every entry of the file in one other unit (entries have parameter-specific post-read code: depth x1000,
            # diameter > 2, gradient > 1 ...), defaults once per unit class; thorough: everything
            # temperatures: every entry and every default in EVERY other unit (their CurrentUnits stays stale - finding F1 - so any
            # downstream .quantity() re-reads the converted number in the user's unit)
            if ctx.quick and r['utype'] != 'TEMPERATURE' and ((isgiven and name in names) or (not isgiven and k in classes)):
                continue
            classes.add(k)
            names.add(name)
            if r['kind'] == 'int':
                val = val + F(1, 2)
            x = format(float(to_unit(d, val, r['pref'], u)), '.10g')
            entry = (name, f'{x} {u}')
            lines = [(n, v) if n != name else entry for n, v in base] + ([] if isgiven else [entry])
            ref = list(base) + ([] if isgiven else [(name, format(float(val), '.10g'))])   # the same entry in the default unit
            variants.append({'base': bi, 'row': r, 'u': u, 'text': entry[1], 'x': F(x), 'given': isgiven, 'lines': lines, 'ref': ref})
    return variants


def run_klass(v):
    return klass({'row': v['row'], 'u': v['u']})


def check_runs(ctx, d):
    bases = base_configs(ctx)
    res = runner.run_many(ctx, [runner.params_to_text(b) for b in bases])
    ok = [i for i, r in enumerate(res) if r['ok'] and r['snap'] and r['report']]
    if len(ok) < len(bases):
        ctx.note(f'{len(bases) - len(ok)} base configuration(s) did not run: ' + '; '.join(str(r['error'])[:80] for r in res if not r['ok']))
    bases, res = [bases[i] for i in ok], [res[i] for i in ok]
    variants = run_variants(ctx, d, bases, [r['snap'] for r in res])
    reftexts = sorted({runner.params_to_text(v['ref']) for v in variants})
    allres = runner.run_many(ctx, reftexts + [runner.params_to_text(v['lines']) for v in variants])
    refres, vres = dict(zip(reftexts, allres[:len(reftexts)])), allres[len(reftexts):]
    seen, nontrivial = set(), []

    def file(key, what, v, r, expected, observed):
        if key not in seen:
            seen.add(key)
            ctx.violate('property', key, what, inp={'part': 'run', 'entry': f'{v["row"]["name"]}, {v["text"]}', 'base_index': v['base'],
                                                     'input_file': runner.params_to_text(v['lines']), 'reference_file': runner.params_to_text(v['ref'])},
                        expected=expected, observed=observed)

    for v, r in zip(variants, vres):
        b = refres[runner.params_to_text(v['ref'])]
        if not b['ok'] or not b['report']:
            continue            # the entry is not accepted in the default unit either: nothing to compare
        k = run_klass(v)
        ent = f'"{v["row"]["name"]}, {v["text"]}" (instead of the equivalent value in {v["row"]["pref"]!r})'
        if not r['ok'] or not r['report']:
            file(f'run:raises:{k}', f'the run with {ent} fails: {str(r["error"])[:200]}', v, r, 'a run with the same results', {'error': str(r['error'])[:300]})
            continue
        nontrivial.append(k)
        diff = results_differ(b['snap'], r['snap'])
        if diff:
            file(f'run:results:{k}', f'the run with {ent} computes {diff[0]} = {diff[2]!r}, the run with the default unit {diff[1]!r}',
                 v, r, {diff[0]: diff[1]}, {diff[0]: diff[2]})
        bad, changed = report_diffs(d, b['report'], r['report'])
        for label, x, y, _ in bad[:3]:
            file(f'run:echo:{k}:{label}', f'the report of the run with {ent} says "{y}" where the run with the default unit says "{x}"',
                 v, r, x, y)
    ctx.count('run-pairs', evaluations=len(variants), nontrivial_keys=nontrivial, bases=len(bases),
              given={'entry of the file': sum(1 for v in variants if v['given']), 'default re-expressed': sum(1 for v in variants if not v['given'])})
    for v in variants[:2]:
        ctx.sample('run-pairs', {'entry': f'{v["row"]["name"]}, {v["text"]}', 'base': v['base']})
    check_output_requests(ctx, d, bases[:-1], res[:-1])      # the capped base serves the input pairs only
    check_plant_requests(ctx, d)


def judge_request(ctx, d, b, r, x, seenk):
    """one "Units:<output>, <unit>" run against its base: every changed scalar line and table column must be the old one converted,
    under the requested unit -> (changed a line?, changed a table?)"""
    o = x['out']
    k = f'{o["utype"]}:{o["cur"][1] or "dimensionless"}:{x["u"]}'
    inp = {'part': 'run-output', 'entry': f'Units:{o["name"]}, {x["u"]}', 'input_file': runner.params_to_text(x['lines'])}

    def file(key, what, expected=None, observed=None):
        if key not in seenk:
            seenk.add(key)
            ctx.violate('property', key, what, inp=inp, expected=expected, observed=observed)

    if not r['ok'] or not r['report']:
        file(f'run-output:raises:{k}', f'the run with "Units:{o["name"]}, {x["u"]}" fails: {str(r["error"])[:200]}', observed={'error': str(r['error'])[:300]})
        return 0, 0
    bad, changed = report_diffs(d, b['report'], r['report'], scalar_only=True, requested=x['u'])
    tbad, tchanged = more.table_diffs(sys.modules[__name__], d, b['report'], r['report'], x['u'], o['cur'][1])
    for kind, where, xl, yl in tbad:
        file(f'run-output:{kind}:{o["name"]}:{where.split(": column")[0]}',
             f'with "Units:{o["name"]}, {x["u"]}" the table {where} shows "{yl}" where it showed "{xl}": ' +
             ('the column is converted but its header keeps the old unit' if kind == 'stale-header' else
              'the header changes to the requested unit but the numbers under it do not' if kind == 'header-only' else
              'not the old column times the conversion factor under the requested unit'), xl, yl)
    for label, xl, yl, kind in bad:
        file(f'run-output:stale-label:{o["name"]}:{label}' if kind == 'stale-label' else f'run-output:line:{k}:{label}',
             f'with "Units:{o["name"]}, {x["u"]}" the report says "{yl}" where it said "{xl}": ' +
             ('the value is converted but the label is not' if kind == 'stale-label' else 'not the same quantity under the new label'), xl, yl)
    return (1 if changed else 0), (1 if tchanged else 0)


def check_plant_requests(ctx, d):
    """plant-type specific report lines (chiller: LCOC, cooling; heat pump / district heating: LCOH and their own outputs): a run of THAT
    plant type with a "Units:" request on its levelized cost and on the outputs only that plant has"""
    from lib import configs
    rnd = ctx.rng
    bases = [configs.synthetic(rnd, enduse=2, plant=pl, resmodel=4, econ=ec, nseg=2, addons=False) for pl, ec in ((5, 1), (6, 2), (7, 1))]
    res = runner.run_many(ctx, [runner.params_to_text(b) for b in bases])
    common = {o['name'] for o in d['outs'] if o['cls'] == 'SurfacePlant'}
    reqs = []
    for bi, (base, r) in enumerate(zip(bases, res)):
        if not r['ok'] or not r['snap'] or not r['report']:
            ctx.note(f'plant-specific base {bi} did not run: {str(r["error"])[:100]}')
            continue
        used = {c.get('__class__') for c in r['snap'].values() if isinstance(c, dict)}
        lev = [o for o in d['outs'] if o['cls'] in used and o['name'] in ('LCOE', 'LCOH', 'LCOC')]
        own = [o for o in d['outs'] if o['cls'] == r['snap']['surfaceplant']['__class__'] and o['name'] not in common]
        for o in lev + own:
            us = [u for u in o['units'] if u not in ('', o['cur'][1]) and to_unit(d, 1, o['cur'][1], u) is not None]
            rnd.shuffle(us)
            for u in us[:ctx.n(2 if o in lev else 1, 99)]:
                reqs.append({'base': bi, 'out': o, 'u': u, 'lines': list(base) + [(f'Units:{o["name"]}', u)]})
    rres = runner.run_many(ctx, [runner.params_to_text(x['lines']) for x in reqs])
    seenk, eff = set(), 0
    for x, r in zip(reqs, rres):
        eff += judge_request(ctx, d, res[x['base']], r, x, seenk)[0]
    ctx.count('run-output-requests-plant-specific', evaluations=len(reqs), nontrivial_keys=[(x['base'], x['out']['name'], x['u']) for x in reqs],
              changed_a_report_line=eff)


def check_output_requests(ctx, d, bases, res):
    """"Units:<output>, <unit>" added to a configuration: only lines of that output may change, and they must denote the same quantity"""
    rnd = ctx.rng
    reqs = []
    for bi, (base, r) in enumerate(zip(bases, res)):
        used = {c.get('__class__') for c in r['snap'].values() if isinstance(c, dict)}
        cand = []
        for o in d['outs']:
            if o['cls'] in used:
                cand += [(o, u) for u in o['units'] if u not in ('', o['cur'][1]) and to_unit(d, 1, o['cur'][1], u) is not None]
        rnd.shuffle(cand)
        seen = set()
        profiles = {rec['name'] for c in r['snap'].values() if isinstance(c, dict) for rec in c.values()
                    if isinstance(rec, dict) and rec.get('k') == 'out' and isinstance(rec.get('value'), list) and len(rec['value']) > 1}
        done = set()
        for o, u in cand:            # every profile (table) output once, in one other unit
            if o['name'] in profiles and o['name'] not in done:
                done.add(o['name'])
                seen.add((o['name'], u))
                reqs.append({'base': bi, 'out': o, 'u': u, 'lines': list(base) + [(f'Units:{o["name"]}', u)]})
        for o, u in cand:
            if (o['name'], u) in seen:
                continue
            k = (o['name'], u) if not ctx.quick else (o['utype'], o['cur'][1], u, len([1 for x in seen if x[:3] == (o['utype'], o['cur'][1], u)]) < 2 and o['name'])
            if k in seen or (ctx.quick and k[3] is False):
                continue
            seen.add(k)
            reqs.append({'base': bi, 'out': o, 'u': u, 'lines': list(base) + [(f'Units:{o["name"]}', u)]})
    rres = runner.run_many(ctx, [runner.params_to_text(x['lines']) for x in reqs])
    seenk, effective, tables = set(), 0, 0
    took = []
    for x, r in zip(reqs, rres):
        ch, tch = judge_request(ctx, d, res[x['base']], r, x, seenk)
        effective += ch
        tables += tch
        if ch:
            took.append(x)
    # the same requests in an input file WITHOUT a 'Print Output to Console' line (as tests/examples/example_SHR-1.txt): a request
    # that changes the report above must change it here too
    strip = lambda lines: [(k, v) for k, v in lines if k != 'Print Output to Console']
    again = took[:ctx.n(3, 12)]
    if again:
        nres = runner.run_many(ctx, [runner.params_to_text(strip(bases[x['base']])) for x in again] + [runner.params_to_text(strip(x['lines'])) for x in again])
        for x, b, r in zip(again, nres[:len(again)], nres[len(again):]):
            y = {**x, 'lines': strip(x['lines'])}
            if not b['ok'] or not b['report']:
                continue
            ch, tch = judge_request(ctx, d, b, r, y, seenk)
            if r['ok'] and not (ch or tch):
                ctx.violate('property', f'run-output:directive-dropped:{x["out"]["name"]}', f'"Units:{x["out"]["name"]}, {x["u"]}" changes nothing in the '
                            f'report when the input has no "Print Output to Console" line (it does when the line is there)',
                            inp={'part': 'run-output', 'entry': f'Units:{x["out"]["name"]}, {x["u"]}', 'input_file': runner.params_to_text(y['lines']), 'must_change': True})
        ctx.count('run-output-requests-no-console-line', evaluations=len(again), nontrivial_keys=[(x['out']['name'], x['u']) for x in again])
    ctx.count('run-output-requests', evaluations=len(reqs), nontrivial_keys=[(x['out']['name'], x['u']) for x in reqs], changed_a_report_line=effective, changed_a_table=tables)


# ---------------------------------------------------------------------------------------------------------------
# corpus, python twin of the reader oracle (used by search() when Coq cannot be run, cross-checked in the thorough tier)
# ---------------------------------------------------------------------------------------------------------------

def corpus_cases(d):
    import json
    rows = {(r['cls'], r['key']): r for r in d['params']}
    out = []
    for f in sorted((fw.VERIF / 'corpus' / 'C06').glob('*.json')):
        for e in json.loads(f.read_text()).get('reader', []):
            r = rows.get((e['cls'], e['key']))
            if r is None:
                continue
            xt, _, u = e['text'].partition(' ')
            out.append({'row': r, 'u': u or None, 'xt': xt, 'x': F(float(xt)), 'catalogue': u in r['units'] and u != '', 'text': e['text'], 'corpus': f.name})
    return out


def py_verdict(d, c, o, echo):
    r = c['row']
    p, n = d['pint'].get(r['pref']), d['pint'].get(c['u'])
    if not p or not n or p['dim'] != n['dim']:
        return 9
    if o['status'] == 'err':
        return 1
    e = (n['fac'] * c['x'] + n['off'] - p['off']) / p['fac']
    if r['kind'] == 'int':
        e = F(math.trunc(e))
    v = F(o['value']) if r['kind'] == 'int' else F(float(o['value']))
    close = lambda a, b, fl: abs(a - b) <= TOL * max(abs(a), abs(b)) or abs(a - b) <= fl
    if not echo and not close(v, e, TOL * max(abs(p['off']), abs(n['off']))):
        return 2
    cu_ = d['pint'].get('' if o['cur'][0] == 'N' else o['cur'][1])
    if not cu_ or cu_['dim'] != p['dim']:
        return 3
    back = (cu_['fac'] * v + cu_['off'] - p['off']) / p['fac']
    return 0 if close(back, e if echo else v, TOL * max(abs(p['off']), abs(n['off']), abs(cu_['off']))) else 3


def py_reader_oracle(ctx, d, cases):
    mark_judged(d, cases)
    for c in cases:
        judged = c['judged']
        c['pv'] = (py_verdict(d, c, c['obs'], False) if judged else None, py_verdict(d, c, c['echo'], True) if judged and c['echo'] else None)
    file_reader_verdicts(ctx, d, cases)


# ---------------------------------------------------------------------------------------------------------------

def correspondence(ctx, proofs_ok=True):
    d = gen.data()
    if d['scan_error']:
        raise RuntimeError('LookupUnits scan order not recognised: ' + d['scan_error'])
    me = sys.modules[__name__]
    check_tables(ctx, d)
    check_reference(ctx, d)
    cases = check_reader(ctx, d)
    more.catalogue_coverage(me, ctx, d, cases)
    more.check_lists(me, ctx, d)
    check_outputs(ctx, d)
    check_convert_loop(ctx, d)
    check_runs(ctx, d)
    more.check_heuristics(me, ctx, d)
    more.check_echo_lines(me, ctx, d)
    more.check_hip_runs(me, ctx, d)


def search(ctx):
    """Only model/proof-level breakage so far: evaluate the property itself on the implementation, without Coq."""
    d = gen.data()
    cases = corpus_cases(d) + reader_cases(ctx, d)
    run_reader(cases)
    py_reader_oracle(ctx, d, cases)
    if not any(p in ctx.parts for p in ('run-pairs',)):
        check_runs(ctx, d)


def replay(ctx, data):
    with fw.coq_lock():
        gen.gen_unit_catalogue(ctx)
        gen.gen_unit_reference(ctx)
        rc, log = fw.make(['Gen/UnitCatalogue.vo', 'Gen/UnitReference.vo'])
    if rc != 0:
        print('cannot build the model: ' + log[-500:])
    d = gen.data()
    inp = data['input']
    part = inp.get('part', '')
    print('replay of', data.get('key'), '-', inp.get('entry'))
    if part in ('reader', 'echo', 'reader-corr', 'echo-corr'):
        rows = [r for r in d['params'] if r['cls'] == inp['cls'] and r['key'] == inp['key']]
        if not rows:
            print('parameter no longer exists'); return 1
        xt, _, u = inp['text'].partition(' ')
        c = {'row': rows[0], 'u': u or None, 'xt': xt, 'x': F(float(xt)), 'catalogue': True, 'judged': True, 'text': inp['text']}
        run_reader([c])
        print('implementation: after ReadParameter ->', show_obs(c['obs']), '| after Outputs._convert_units ->', show_obs(c['echo']))
        print('expected:', expected_of(d, c))
        terms = read_terms(c)
        bad = 0
        for name, t in zip(('reader', 'reader-oracle', 'echo', 'echo-oracle'), terms):
            if t is None:
                continue
            if 'oracle' in name:
                v = zverdicts(ctx, 'replay_' + name.replace('-', '_'), [t])[0]
                print(f'  Coq {name}: verdict {v} ({ {0: "property holds", 9: "outside the domain"}.get(v, VERDICT.get(v)) })')
                bad += v not in (0, 9)
            else:
                ok = not fw.kernel_bools(ctx, 'replay_' + name, REQ, [t], open_scope='Q_scope')
                print(f'  Coq model of the {name} path agrees with the implementation: {ok}')
                bad += (not ok) and part.endswith('corr')
        print('property', 'VIOLATED' if bad else 'holds', 'on this input')
        return 1 if bad else 0
    if part == 'output':
        rows = [r for r in d['outs'] if r['cls'] == inp['cls'] and r['key'] == inp['key']]
        vals = [F(x) for x in inp['values']]
        import numpy as np
        o = cu.real_output_units(rows[0]['param'], np.array([float(v) for v in vals]) if len(vals) > 1 else float(vals[0]), inp['unit'])
        if o['status'] == 'ok':
            v = o['value']
            o['vals'] = [F(float(x)) for x in (v.tolist() if hasattr(v, 'tolist') and np.ndim(v) else [v])]
        print('implementation:', show_oobs(o))
        tables = 'ref_tables' if inp.get('reference') else 'gen_tables'
        t = f'(oracle_output {tables} {q(TOL)} {cs(rows[0]["cur"][1])} {cs(inp["unit"])} {qconv.qlist(vals)} {oobs_term(o)})'
        if inp.get('reference'):
            refd = {u: (r, f, o_) for u, r, f, o_ in gen.reference()}
            print('expected by the frozen reference:', [float(ref_convert(refd, x, rows[0]['cur'][1], inp['unit'])) for x in vals], inp['unit'])
        v = zverdicts(ctx, 'replay_output', [t])[0]
        print('Coq oracle verdict', v, '-> property', 'holds' if v in (0, 9) else 'VIOLATED')
        return 0 if v in (0, 9) else 1
    if part in ('run', 'run-output'):
        ref = inp.get('reference_file') or ''.join(l + '\n' for l in inp['input_file'].splitlines() if not l.startswith('Units:'))
        b, r = runner.run_many(ctx, [ref, inp['input_file']])
        if not r['ok']:
            print('variant run fails:', r['error']); print('property VIOLATED on this input'); return 1
        diff = results_differ(b['snap'], r['snap']) if part == 'run' else None
        bad, changed = report_diffs(d, b['report'], r['report'], scalar_only=(part == 'run-output'),
                                    requested=inp['entry'].split(',')[-1].strip() if part == 'run-output' else None)
        print('first differing computed quantity:', diff)
        for x in bad[:10]:
            print('  report:', x)
        viol = bool(diff or bad) or (inp.get('must_change') and not changed)
        if inp.get('must_change'):
            print('report lines changed by the request:', changed)
        print('property', 'VIOLATED' if viol else 'holds', 'on this input')
        return 1 if viol else 0
    if part == 'loop':
        return replay_loop(ctx, d, inp)
    if part == 'reference':
        e = [x for x in gen.reference() if x[0] == inp['unit']][0]
        got = registry_vs_reference(e[0], e[1])
        ok = not isinstance(got, str) and abs(got[0] - float(e[2])) <= 1e-9 * abs(float(e[2])) and abs(got[1] - float(e[3])) <= 1e-9 * max(1, abs(float(e[3])))
        print(f'registry: 1 {e[0]} = {got} {e[1]} (factor, offset); frozen reference: ({float(e[2])!r}, {float(e[3])!r})')
        print('property', 'holds' if ok else 'VIOLATED', 'on this input')
        return 0 if ok else 1
    return more.replay_more(sys.modules[__name__], ctx, d, inp)


def replay_loop(ctx, d, inp):
    """the recorded "Units:" requests (and, for an echo entry, the recorded parameter state) through the real Outputs._convert_units"""
    import copy
    from types import SimpleNamespace
    gx, P, U = cu.modules()
    from geophires_x.Outputs import Outputs
    core = ['Reservoir', 'WellBores', 'SurfacePlant', 'Economics']
    objs = {n: copy.deepcopy(d['objs'][n]) for n in core}
    model = SimpleNamespace(logger=cu.StubModel.logger, InputParameters={}, reserv=objs['Reservoir'], wellbores=objs['WellBores'],
                            surfaceplant=objs['SurfacePlant'], economics=objs['Economics'])
    outputs = cu._quiet(lambda: Outputs(model, output_file=str(ctx.scratch / 'loop.out')))
    rows = {r['key']: r for r in d['outs'] if r['cls'] in core}
    for k, u in inp.get('requests', {}).items():
        objs[rows[k]['cls']].OutputParameterDict[k].value = 1234.5
        outputs.ParameterDict[k] = P.LookupUnits(u)[0]
    m = re.match(r'^(.*) held as (\S+) (\S+)$', inp.get('entry', ''))
    held = None
    if m:
        r = [r for r in d['params'] if r['cls'] in core and r['name'] == m.group(1)][0]
        p = objs[r['cls']].ParameterDict[r['key']]
        p.value, p.CurrentUnits = float(m.group(2)), [x for x in type(p.PreferredUnits) if x.value == m.group(3)][0]
        held = (r, p, F(m.group(2)), m.group(3))
    try:
        cu._quiet(lambda: outputs._convert_units(model))
    except Exception as e:
        print('Outputs._convert_units raises', type(e).__name__, e); print('property VIOLATED on this input'); return 1
    bad = 0
    close = lambda a, b: abs(a - b) <= F(1, 10 ** 9) * max(abs(a), abs(b))
    for k, u in inp.get('requests', {}).items():
        o = objs[rows[k]['cls']].OutputParameterDict[k]
        e = to_unit(d, F('1234.5'), rows[k]['cur'][1], u)
        ok = cu.uval(o.CurrentUnits)[1] == u and close(F(float(o.value)), e)
        bad += not ok
        if not ok:
            print(f'  Units:{k}, {u}: 1234.5 {rows[k]["cur"][1]} -> {o.value!r} {cu.uval(o.CurrentUnits)[1]!r}, expected {float(e)!r} {u!r}')
    if held:
        r, p, v0, u0 = held
        e, back = to_unit(d, v0, u0, r['pref']), to_unit(d, F(float(p.value)), cu.uval(p.CurrentUnits)[1], r['pref'])
        ok = back is not None and close(back, e)
        bad += not ok
        print(f'  {r["name"]}: {float(v0)!r} {u0} -> {p.value!r} {cu.uval(p.CurrentUnits)[1]!r}; same quantity: {ok}')
    print('property', 'VIOLATED' if bad else 'holds', 'on this input')
    return 1 if bad else 0
