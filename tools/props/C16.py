"""C16 - price and incentive schedules have the documented shape."""
import itertools
from fractions import Fraction as F

from lib import configs, econ, flatcorr, framework as fw, runner
from props import C03

META = {
    'props': 'Props/C16.v',
    'level_text': ('Proof: for every lifetime, escalation start year, rate, start/end price (including start > end), PTC duration and '
                   'inflation setting the modelled schedule equals min(start + max(0, i-s)*rate, end) + PTC_i with PTC only inside its '
                   'window, zero in construction years (9 Coq theorems by induction on the lifetime, axiom-free). The model is tied to the '
                   'current BuildPTCModel/BuildPricingModel by executing them on exact rationals over an exhaustive small integer domain '
                   'plus random tuples and comparing inside Coq for equality, so an off-by-one in a start year or window is a failing input; which '
                   'inputs feed which product is tied by the price columns of whole runs (all four products, zero-padded for the construction '
                   'years) recomputed by the Coq model from the run\'s own inputs, and the ITC identity RITCValue = rate x pre-credit cost, '
                   'CCap = (1-rate) x cost + fees - incentives - grants is proved of the roll-up model and evaluated on every run.'),
    'level_note': ('Trusted: Coq kernel + vm_compute; the Python harness that calls the real functions on Fractions and writes the case '
                   'files; rounding of float arithmetic is outside the theorem (schedule arithmetic is exact on rationals; whole-run columns are '
                   'compared at 1e-12). The O&M fee / tax-relief arithmetic is checked component by component under C03 (same roll-up code).'),
    'rule': ('tuples (lifetime, PTC duration, PTC price, inflation flag+rate, start/end price, escalation start, rate) '
             'drawn from one PRNG plus an exhaustive small integer domain; the real BuildPTCModel/BuildPricingModel are '
             'executed on fractions.Fraction arguments (exact arithmetic) and compared for equality inside Coq with the '
             'model; a case is non-trivial when its escalation starts inside the lifetime with a non-zero rate or its PTC '
             'window is non-empty; distinct = distinct (life, esc, dur, adj, capped?) signatures'),
    'trusted_base': ['Coq 8.16.1 kernel + vm_compute (no native_compute)',
                     'all C16 theorems: Closed under the global context (no axioms)',
                     'hand-written model coq/Model/Price.v tied to Economics.BuildPTCModel/BuildPricingModel by exact-call '
                     'correspondence evaluated in the kernel (tools/props/C16.py, tools/lib/flatcorr.py: unverified Python)'],
    'modelled': ['Economics.BuildPTCModel', 'Economics.BuildPricingModel', 'construction-year padding in Economics.Calculate',
                 'Python list/IndexError semantics (modelled as option)'],
    'assumptions': ['floating-point rounding of the schedule arithmetic is not modelled: the functions are executed on exact '
                    'rationals (duck typing) so the comparison is equality; a float run can differ from the rational '
                    'schedule by rounding only'],
    'fingerprint': [('src/geophires_x/Economics.py', 'BuildPTCModel'), ('src/geophires_x/Economics.py', 'BuildPricingModel'),
                    ('src/geophires_x/Economics.py', 'Economics.Calculate')],
}


def _impl():
    import geophires_x.Model  # noqa: F401  (circular import: Model first)
    from geophires_x import Economics
    return Economics


def _case(E, life, dur, ptc, adj, infl, start, endp, esc, rate):
    r_ptc = flatcorr.call_impl(E.BuildPTCModel, life, dur, ptc, adj, infl)
    cases = []
    desc = dict(life=life, dur=dur, ptc=str(ptc), adj=adj, infl=str(infl), start=str(start), endp=str(endp), esc=esc,
                rate=str(rate))
    capped = start + max(0, life - 1 - esc) * rate > endp
    sig = (life, esc, dur, adj, capped)
    nontrivial = sig if ((esc < life and rate != 0) or dur > 0) else None
    cases.append({'flat': [F(life), F(dur), ptc, F(int(adj)), infl], 'impl': r_ptc,
                  'desc': {'fn': 'BuildPTCModel', **desc}, 'nontrivial': nontrivial, 'fn': 'ptc'})
    if r_ptc[0] == 'V':
        ptcl = [F(x) for x in r_ptc[1]]
    else:
        ptcl = [F(0)] * max(0, life - 1)  # too short on purpose: exercises the IndexError path of the price builder
    r_pr = flatcorr.call_impl(E.BuildPricingModel, life, start, endp, esc, rate, list(ptcl))
    cases.append({'flat': [F(life), start, endp, F(esc), rate] + ptcl, 'impl': r_pr,
                  'desc': {'fn': 'BuildPricingModel', **desc, 'ptc_list_len': len(ptcl)}, 'nontrivial': nontrivial,
                  'fn': 'pricing'})
    return cases


def gen_cases(ctx):
    E = _impl()
    rnd = ctx.rng

    def dec(lo, hi, d):
        return F(rnd.randint(int(lo * 10 ** d), int(hi * 10 ** d)), 10 ** d)

    cases = []
    # exhaustive small integer domain, fixed non-neutral rationals, both cap regimes
    small = range(1, ctx.n(5, 9))
    for life in small:
        for esc in range(-1, life + 2):
            for dur in range(0, life + 2):
                for adj in (False, True):
                    for (start, endp, rate) in ((F('0.055'), F('0.07'), F('0.004')), (F('0.09'), F('0.06'), F('0.01'))):
                        cases += _case(E, life, dur, F('0.012'), adj, F('0.03'), start, endp, esc, rate)
    n_small = len(cases)
    # random tuples, mostly valid, a small malformed stream (duration > lifetime)
    nrand = ctx.n(500, 3000)
    for _ in range(nrand):
        life = rnd.choice([1, 2, 3, 5, 7, 10, 15, 20, 30] + ([] if ctx.quick else [40, 60, 100]))
        dur = rnd.randint(0, life) if rnd.random() > 0.05 else life + rnd.randint(1, 3)
        esc = rnd.randint(0, life + 2) if rnd.random() > 0.05 else -rnd.randint(1, 3)
        ptc = dec(0.001, 0.1, 3)
        adj = rnd.random() < 0.5
        infl = dec(0.001, 0.1, 3)
        start = dec(0.001, 0.2, 3)
        endp = dec(0.001, 0.3, 3)
        rate = dec(0, 0.02, 4) if rnd.random() > 0.1 else F(0)
        cases += _case(E, life, dur, ptc, adj, infl, start, endp, esc, rate)
    ctx.count('schedule-domain', small_exhaustive=n_small, random=len(cases) - n_small)
    return cases


def whole_runs(ctx):
    """which parameters feed which product's schedule: the price columns of real runs (snapshot, zero-padded for the
    construction years) against product_schedule applied to the run's own price / PTC inputs."""
    rnd = ctx.rng
    cfgs = [configs.synthetic(rnd, addons=False) for _ in range(ctx.n(60, 1500))]
    for _ in range(ctx.n(8, 100)):   # user-fixed totals together with fees / tax relief / grants
        c = [(k, v) for k, v in configs.synthetic(rnd, addons=False) if k not in ('Total O&M Cost', 'Total Capital Cost', 'Annual License Fees Etc',
                                                                                  'Tax Relief Per Year', 'One-time Grants Etc')]
        c += [('Total O&M Cost', configs.fmt(configs.dec(rnd, 1, 6, 2))), ('Annual License Fees Etc', configs.fmt(configs.dec(rnd, 0.05, 0.5, 2))),
              ('Tax Relief Per Year', configs.fmt(configs.dec(rnd, 0.05, 0.5, 2)))]
        if rnd.random() < 0.5:
            c += [('Total Capital Cost', configs.fmt(configs.dec(rnd, 20, 150, 1))), ('One-time Grants Etc', configs.fmt(configs.dec(rnd, 0.5, 8, 2)))]
        cfgs.append(c)
    for prodname in ('Electricity', 'Heat', 'Cooling'):   # a tax credit stated with exactly the declared default value of its parameter
        for _ in range(ctx.n(1, 6)):
            c = [(k, v) for k, v in configs.synthetic(rnd, addons=False) if not k.startswith('Production Tax Credit')]
            c += [(f'Production Tax Credit {prodname}', {'Electricity': '0.04', 'Heat': '0', 'Cooling': '0'}[prodname]),
                  ('Production Tax Credit Duration', str(rnd.randint(1, 6))), ('Production Tax Credit Inflation Adjusted', rnd.choice(['True', 'False']))]
            cfgs.append(c)
    texts = [runner.params_to_text(c) for c in cfgs] + [t for _, t in configs.example_texts(slow=False)]
    cases, itc_terms, itc_owner, fee_terms, fee_owner = [], [], [], [], []
    for text, r in zip(texts, runner.run_many(ctx, texts)):
        if r['snap'] is None:
            ctx.count('price-columns', rejected={(r['error'] or 'no snapshot')[:50]: 1})
            continue
        if not r['ok']:   # the schedules are complete once Calculate() has returned; a later failure (report writer) does not hide them
            ctx.count('price-columns', failed_after_calculate={(r['error'] or '')[:50]: 1})
        R = econ.Run(r['snap'])
        if R.cls not in ('Economics', 'SBTEconomics'):
            continue
        P = lambda a: R.s.p('economics', a)
        q = econ.q15
        pre = f'({q(P("CCap")["value"])} + {q(P("RITCValue")["value"])} - {q(P("FlatLicenseEtc")["value"])} + {q(P("OtherIncentives")["value"])} + {q(P("TotalGrant")["value"])})'
        rate = q(P('RITC')['value']) if P('RITC')['provided'] else '0'
        itc_terms.append(f'close_scale (1#1000000000) {pre} ({rate} * {pre}) {q(P("RITCValue")["value"])}')
        itc_owner.append((text, {'RITC': P('RITC')['value'], 'provided': bool(P('RITC')['provided']), 'RITCValue': P('RITCValue')['value'],
                                 'CCap': P('CCap')['value'], 'grant': P('TotalGrant')['value']}))
        try:   # grants, incentives, fees and tax relief: the whole roll-up of the run against Model/Costs.v (shared with C03)
            ct, _flags, _int, _out = C03.cost_record(R)
            fee_terms.append(ct)
            fee_owner.append((text, {'AnnualLicenseEtc': P('AnnualLicenseEtc')['value'], 'TaxRelief': P('TaxRelief')['value'],
                                     'oam_total_fixed': bool(P('oamtotalfixed')['valid']), 'Coam': P('Coam')['value']}))
        except KeyError:
            pass
        raw_in = R.snap.get('input_parameters', {}) or {}

        def stated(a):
            """the figure the user stated for parameter a (a bare number in the input file), else the value the run holds: a
            reader that rewrites a stated price must not thereby redefine 'the starting / ending price'"""
            prm = P(a)
            raw = raw_in.get(prm.get('name')) if prm.get('provided') else None
            try:
                return float(raw[0].strip()) if raw else prm['value']
            except (ValueError, IndexError, AttributeError, TypeError):
                return prm['value']

        def stated_or(a):
            prm = P(a)
            raw = raw_in.get(prm.get('name'))
            try:
                return float(raw[0].strip()) if raw else prm['value']
            except (ValueError, IndexError, AttributeError, TypeError):
                return prm['value']

        for prod, ptc in (('Elec', 'PTCElec'), ('Heat', 'PTCHeat'), ('Cooling', 'PTCCooling'), ('Carbon', None)):
            # "provided" = stated in the input file (a credit stated at the value that happens to be the default is stated)
            prov = bool(ptc and (P(ptc)['provided'] or P(ptc).get('name') in raw_in))
            flat = [F(R.life), F(int(prov)), F(int(P('PTCDuration')['value'])), F(stated_or(ptc)) if ptc else F(0),
                    F(int(bool(P('PTCInflationAdjusted')['value']))), F(P('RINFL')['value']), F(stated(prod + 'StartPrice')),
                    F(stated(prod + 'EndPrice')), F(int(stated(prod + 'EscalationStart'))), F(stated(prod + 'EscalationRate')),
                    F(R.cy)]
            series = P(prod + 'Price')['value']
            desc = {'product': prod, 'life': R.life, 'cy': R.cy, 'ptc_provided': prov, 'esc': int(P(prod + 'EscalationStart')['value']),
                    'dur': int(P('PTCDuration')['value'])}
            nontrivial = (prod, R.life, R.cy, prov, desc['esc'] < R.life) if R.life >= 2 else None
            cases.append({'flat': flat, 'impl': ('V', series), 'desc': desc, 'nontrivial': nontrivial, 'text': text})
    key = lambda c: 'price-column:%s:ptc=%s' % (c['desc']['product'], c['desc']['ptc_provided'])
    failing = flatcorr.run(ctx, 'price-columns', ['Model.Price'], 'run_schedule', F(1, 10 ** 12), cases, kind='property', key_of=key,
                           what='price column of a whole run differs from the documented schedule of that product\'s own inputs')
    bad = fw.kernel_bools(ctx, 'itc', ['Base.Flat'], itc_terms)
    ctx.count('itc-identity', evaluations=len(itc_terms), nontrivial_keys=[('itc', o[1]['RITC'], o[1]['grant']) for o in itc_owner if o[1]['provided']])
    if itc_owner:
        ctx.sample('itc-identity', itc_owner[0][1])
    for i in bad[:3]:
        ctx.violate('property', 'itc:value', f'RITCValue is not rate x pre-credit capital cost on {itc_owner[i][1]}',
                    inp={'part': 'price-columns', 'desc': itc_owner[i][1], 'input_text': itc_owner[i][0]})
    bad = fw.kernel_bools(ctx, 'fees', ['Model.Costs'], fee_terms, shard=150)
    ctx.count('fees-tax-relief', evaluations=len(fee_terms),
              nontrivial_keys=[('fee', o[1]['oam_total_fixed']) for o in fee_owner if o[1]['AnnualLicenseEtc'] or o[1]['TaxRelief']])
    for i in bad[:3]:
        ctx.violate('property', 'fees:roll-up', f'capital cost / O&M are not changed by exactly the stated grants, incentives, fees and tax relief on {fee_owner[i][1]}',
                    inp={'part': 'price-columns', 'desc': fee_owner[i][1], 'input_text': fee_owner[i][0]})
    for v in ctx.violations:
        if v.inp and v.inp.get('part') == 'price-columns' and 'input_text' not in v.inp:
            i = next((j for j in failing if cases[j]['desc'] == v.inp['desc']), None)
            if i is not None:
                v.inp['input_text'] = cases[i]['text']


def correspondence(ctx, proofs_ok=True):
    whole_runs(ctx)
    cases = gen_cases(ctx)
    ptc = [c for c in cases if c['fn'] == 'ptc']
    pr = [c for c in cases if c['fn'] == 'pricing']
    key = lambda c: 'schedule:%s:life=%s,esc=%s,dur=%s' % (c['desc']['fn'], c['desc']['life'], c['desc']['esc'], c['desc']['dur'])
    what = 'schedule differs from the documented shape (Coq model proved equal to it: C16_schedule_shape)'
    flatcorr.run(ctx, 'BuildPTCModel-exact', ['Model.Price'], 'run_ptc', F(0), ptc, kind='property', key_of=key, what=what, shard=ctx.n(400, 150))
    flatcorr.run(ctx, 'BuildPricingModel-exact', ['Model.Price'], 'run_pricing', F(0), pr, kind='property', key_of=key, what=what, shard=ctx.n(400, 150))
    errs = sum(1 for c in cases if c['impl'][0] == 'E')
    ctx.count('schedule-domain', error_cases=errs)


def replay(ctx, data):
    E = _impl()
    d = data['input']['desc']
    if data['input'].get('part') == 'price-columns':
        print('price column case', d, '- re-running the whole-run part')
        whole_runs(ctx)
        for v in ctx.violations:
            print(v.kind, v.key, v.what[:300])
        return 1 if ctx.violations else 0
    cs = _case(E, d['life'], d['dur'], F(d['ptc']), d['adj'], F(d['infl']), F(d['start']), F(d['endp']), d['esc'], F(d['rate']))
    bad = 0
    for c in cs:
        run = 'run_ptc' if c['fn'] == 'ptc' else 'run_pricing'
        failing = fw.kernel_cases(ctx, 'replay', ['Model.Price'], run, F(0), [(c['flat'], flatcorr.res_of(c['impl']))])
        print(c['desc']['fn'], 'implementation:', flatcorr._show(c['impl']), '-> model agrees:', not failing)
        bad += len(failing)
    print('property', 'VIOLATED' if bad else 'holds', 'on this input')
    return 1 if bad else 0
