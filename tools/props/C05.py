"""C05 - resource temperature and thermal drawdown obey the model definition."""
import contextlib
import io
import json
import logging
import math
import re
from fractions import Fraction as F

from gen.c05_ranges import gen_c05_ranges
from lib import framework as fw, qconv, runner, snapshot

META = {
    'props': 'Props/C05.v',
    'claimed': True,
    'level_text': (
        'Proof (partial where stated). Proved for every number of layers / every series length, axiom-free: the layer walk equals '
        'surface temperature + integral of the gradients; Trock = min(T(depth), Tmax) with the depth reduced exactly when needed; the '
        'code-shaped walk of Reservoir.Calculate (pre-filled interface list, next(), max(), cumsum) computes that function for 1..4 '
        'segments, and the magnitude heuristics of read_parameters always yield well-formed layers, so the statement holds for every '
        'accepted input, with or without a reservoir depth in the file (C05_bht_meets_definition; before fix a8610e4 the 3 km default was '
        'walked as 3 m: C05_bht_default_depth_pinned_refuted, the corpus seed 01_depth_omitted is the regression witness); every analytical history starts at Trock; the redrilling step keeps every '
        'production temperature >= (1-maxdrawdown)*P[0] when P[0] >= 0 (refuted for P[0] < 0, known finding), preserves lengths, repeats '
        'the first cycle (element j = P[j mod index]) and restarts it at every reported redrilling that falls inside the series (the '
        'reported count includes one at index = series length when the cycle divides it: C05_redrill_count_refuted, known finding); '
        'TDP and single-fracture histories never exceed Trock and never rise inside a cycle when Tinj <= Trock (refuted otherwise, '
        'known finding), single fracture under the stated hypotheses on erf/sqrt. Tied by correspondence on every run: direct calls of '
        'Reservoir.Calculate and WellBores.Calculate and whole runs through main() are compared inside Coq with the models, and the '
        'property clauses are evaluated by Coq-defined checkers on the series the real code produced (checkers proved sound: floor, '
        'periodic, monotone-within-cycles, upper bound, model-2 range). Round 2: the rational remainder of Reservoir.Calculate is modelled '
        'and tied on every direct call and snapshot (average gradient x capped depth = Trock - Tsurf; fracture geometry by shape option; '
        'V = (N-1) x A x separation for volume options 1-3, option 4 verbatim; heat content linear/additive in volume and >= 0); a second '
        'WellBores.Calculate call on the same object (district heating) gives the series AND the count of a fresh call (C05_second_call, '
        'C05_second_call_count; before fix 825a507 a stale count could be reported: C05_second_call_pinned_stale_count_refuted, corpus '
        'seed 06 is the regression witness); the cylindrical, SBT and user-profile reservoirs are tied for Trock / depth / '
        'average gradient (cylindrical and SBT apply no Tmax cap, SBT averages gradients without thicknesses: stated as _refuted theorems, '
        'outside the property quantifier).'),
    'level_note': ('Trusted: Coq kernel + vm_compute; the Python harness; float rounding is outside the theorems (comparison tolerance '
                   '1e-9, decisions closer than that to their threshold are counted as boundary_ambiguous). math.erf/math.sqrt, '
                   'mpmath.invertlaplace (models 1,2), CoolProp and RameyCalc are inputs of the model (their values are read from the run).'),
    'technique': 'Coq proof about an executable Gallina model + kernel-evaluated correspondence with the implementation',
    'rule': ('(a) layer-walk tuples (segments 1..4, normalised gradients/thicknesses, depth, Tmax, Tsurf; error cases included) run through '
             'the real Reservoir.Calculate; non-trivial/distinct = distinct (segments, layer reached, capped?) signature. (b) arbitrary '
             'temperature histories (monotone, non-monotone, plateaus, limit hit exactly, cycle dividing the length) through the real '
             'WellBores.Calculate; distinct = (length, first index below the limit). (c) whole runs through main(): corpus seeds + '
             'generated inputs over reservoir models 1-4, 1..4 segments, heuristic edge values (gradient 0/1/0.5, thickness 100), depth '
             '0.1..15 km, Tmax 50..600, lifetimes x time steps, maximum drawdown in (0,1], Ramey on/off + runnable examples; '
             'distinct = (model, segments, capped?, redrilled?, Ramey) signature.'),
    'trusted_base': ['Coq 8.16.1 kernel + vm_compute (no native_compute)',
                     'all C05 theorems: Closed under the global context (no axioms)',
                     'hand-written models coq/Model/Gradient.v, Drawdown.v, Redrill.v tied to Reservoir.read_parameters/Calculate, '
                     'TDP/SF/MPF/LHSReservoir.Calculate and WellBores.Calculate by correspondence evaluated in the kernel '
                     '(tools/props/C05.py, tools/lib: unverified Python)'],
    'modelled': ['Reservoir.read_parameters magnitude heuristics (gradient > 1 -> /1000, < 1e-6 -> 1e-6, thickness < 100 -> x1000, bottom '
                 'thickness 100000, depth x1000, default depth included since fix a8610e4)', 'Reservoir.Calculate layer walk and maxdepth cap',
                 'Reservoir.Calculate fracture geometry, volume options, average gradient, heat content (math.pi, math.sqrt as data)',
                 'CylindricalReservoir.Calculate and the first lines of SBTReservoir.Calculate/Calculate_Uloop (Trock, depth, average gradient)',
                 'TDPReservoir/SFReservoir.Calculate, affine part of MPF/LHSReservoir.Calculate', 'np.linspace, np.argmax, np.tile, slicing',
                 'math.erf, math.sqrt (Section variables with monotonicity/range hypotheses, sampled on every run)',
                 'mpmath.invertlaplace, CoolProp, RameyCalc (values read from the run)'],
    'assumptions': ['float rounding of the temperature arithmetic is not modelled (tolerance 1e-9)',
                    'erf non-decreasing with values in [0,1] on [0,inf), sqrt non-decreasing and non-negative: premises of '
                    'C05_sf_monotone_bounded, checked on the values each run used'],
    'fingerprint': [('src/geophires_x/Reservoir.py', 'Reservoir.Calculate'), ('src/geophires_x/Reservoir.py', 'Reservoir.read_parameters'),
                    ('src/geophires_x/TDPReservoir.py', 'TDPReservoir.Calculate'), ('src/geophires_x/SFReservoir.py', 'SFReservoir.Calculate'),
                    ('src/geophires_x/MPFReservoir.py', 'MPFReservoir.Calculate'), ('src/geophires_x/LHSReservoir.py', 'LHSReservoir.Calculate'),
                    ('src/geophires_x/WellBores.py', 'WellBores.Calculate'), ('src/geophires_x/CylindricalReservoir.py', 'CylindricalReservoir.Calculate'),
                    ('src/geophires_x/SBTReservoir.py', 'SBTReservoir.Calculate_Uloop'), ('src/geophires_x/UPPReservoir.py', 'UPPReservoir.Calculate')],
}

GENERATORS = (gen_c05_ranges,)
TOL = F(1, 10 ** 9)
OTOL = F(1, 10 ** 12)          # slack of the property checkers (one ulp of float rounding, not a modelling tolerance)
CORPUS = fw.VERIF / 'corpus' / 'C05'
CLAUSES = {1: 'head', 2: 'floor', 3: 'restart', 4: 'count', 5: 'monotone-bounded', 6: 'lhs-range'}
APPLIES = {5: (3, 4), 6: (2,)}
K_TINJ = 'drawdown:injection-temperature-above-bottom-hole-temperature'
K_DEPTH = 'bht:reservoir-depth-omitted'
K_COUNT = 'redrill-count:cycle-divides-series-length'
K_NEG = 'floor:negative-initial-production-temperature'
K_STALE = 'redrill-count:stale-after-district-heating-second-pass'


def _kernel(ctx, name, req, run, tol, cases, shard=200):
    return fw.kernel_cases(ctx, name, req, run, tol, cases, shard) if cases else []


def _impl_err(e):
    return {StopIteration: 4, ZeroDivisionError: 2, IndexError: 1, ValueError: 3}.get(type(e))


# ---------------------------------------------------------------------------------------------------------
# (a), (b): direct calls of the real Reservoir.Calculate / WellBores.Calculate on a live Model
# ---------------------------------------------------------------------------------------------------------

def _live_model(ctx, life, tspy, resmodel=4):
    logging.disable(logging.CRITICAL)
    from geophires_x.Model import Model
    p = ctx.scratch / f'direct_{life}_{tspy}.txt'
    p.write_text(f'Reservoir Model, {resmodel}\nDrawdown Parameter, 0.01\nReservoir Depth, 3\nGradient 1, 50\nInjection Temperature, 40\n'
                 f'Plant Lifetime, {life}\nTime steps per year, {tspy}\nEnd-Use Option, 2\nPower Plant Type, 9\n'
                 'Ramey Production Wellbore Model, 0\nProduction Wellbore Temperature Drop, 0\nPrint Output to Console, 0\n')
    m = Model(enable_geophires_logging_config=False, input_file=str(p))
    m.read_parameters()
    return m


def walk_cases(ctx, count):
    """tuples for Reservoir.Calculate; values are short decimals (exact as Fractions and as floats up to rounding)"""
    rnd, out = ctx.rng, []
    dec = lambda lo, hi, d: F(rnd.randint(int(lo * 10 ** d), int(hi * 10 ** d)), 10 ** d)
    for k in range(count):
        n = rnd.randint(1, 4)
        gs = [rnd.choice([dec(0.01, 0.12, 4), dec(0.01, 0.12, 4), F(1, 10 ** 6), dec(0.2, 1, 2)]) for _ in range(4)]
        ths = [rnd.choice([dec(100, 3000, 0), dec(100, 3000, 0), dec(10, 99, 0)]) for _ in range(5)]
        ths[n - 1] = F(100000)
        Ts = dec(-5, 50, 1)
        Tmax = dec(50, 600, 0) if rnd.random() > 0.03 else rnd.choice([F(1200), F(1500), Ts])
        depth = dec(100, 15000, 0)
        if rnd.random() < 0.15 and n > 1:      # exactly on a layer interface / exactly at the capped depth
            depth = sum(ths[:rnd.randint(1, n - 1)])
        # fracture geometry / volume option / heat content inputs of the same Calculate call
        geo = [F(rnd.randint(1, 4)), F(rnd.randint(1, 4)), dec(1000, 900000, 0), dec(50, 2000, 0), dec(50, 2000, 0),
               F(rnd.choice([1, 2, 3, 10, 37, 149])), dec(5, 300, 0), dec(10 ** 6, 10 ** 9, 0), dec(2000, 3200, 0), dec(700, 1300, 0),
               dec(20, 90, 1), dec(-5, 10, 1)]
        out.append((n, Ts, Tmax, depth, gs, ths, geo))
    return out


GEO_DEFAULT = [F(1), F(4), F(250000), F(500), F(500), F(10), F(50), F(125000000), F(2700), F(1000), F(40), F(0)]


def _enum_by_int(enum, k):
    return next(e for e in enum if e.int_value == k)


def run_walk(m, case):
    """-> (result, flat reservoir inputs incl. math.pi and math.sqrt(4/pi*area)); result ('V', 12 values) when Calculate ran to
    the heat content, ('V', [Trock, depth]) when a water-property call raised after the walk, ('E', code) when the walk raised"""
    from geophires_x.OptionList import FractureShape, ReservoirVolume
    from geophires_x.Reservoir import Reservoir
    n, Ts, Tmax, depth, gs, ths, geo = case
    shape, opt, area, h, wd, numb, sep, resvol, rho, cp, tinj, gain = geo
    r, w = m.reserv, m.wellbores
    r.numseg.value, r.Tsurf.value, r.Tmax.value, r.depth.value = n, float(Ts), float(Tmax), float(depth)
    r.gradient.value, r.layerthickness.value = [float(g) for g in gs], [float(t) for t in ths]
    r.fracshape.value, r.resvoloption.value = _enum_by_int(FractureShape, int(shape)), _enum_by_int(ReservoirVolume, int(opt))
    r.fracarea.value = r.fracareacalc.value = float(area)
    r.fracheight.value = r.fracheightcalc.value = float(h)
    r.fracwidth.value = r.fracwidthcalc.value = float(wd)
    r.fracnumb.value = r.fracnumbcalc.value = int(numb)
    r.fracsep.value = r.fracsepcalc.value = float(sep)
    r.resvol.value = r.resvolcalc.value = float(resvol)
    r.rhorock.value, r.cprock.value, w.Tinj.value, w.tempgaininj.value = float(rho), float(cp), float(tinj), float(gain)
    r.Trock.value = r.InitialReservoirHeatContent.value = None
    flat = geo[:8] + [F(math.pi), F(math.sqrt(4 / math.pi * float(area)))] + geo[8:]
    try:
        Reservoir.Calculate.__wrapped__(r, m)
    except Exception as e:  # noqa: BLE001 - water-property errors after the walk are not the walk's
        if r.Trock.value is None:
            code = _impl_err(e)
            if code is None:
                raise
            return ('E', code), flat
    if r.InitialReservoirHeatContent.value is None:
        return ('V', [F(r.Trock.value), F(r.depth.value)]), flat
    return ('V', [F(x) for x in (r.Trock.value, r.depth.value, r.averagegradient.value, r.fracheightcalc.value, r.fracwidthcalc.value,
                                 r.fracareacalc.value, r.resvolcalc.value, r.fracnumbcalc.value, r.fracsepcalc.value, w.Tinj.value,
                                 r.InitialReservoirHeatContent.value)] + [F(1)]), flat


def spec_walk(n, Ts, Tmax, gs, ths, depth):
    """independent evaluation of the property's right-hand side (exact): Tsurf + integral of the gradients to depth, capped"""
    T, top = Ts, F(0)
    for i in range(n):
        th = ths[i] if i < n - 1 else None
        bottom = depth if th is None else min(depth, top + th)
        T += gs[i] * max(F(0), bottom - top)
        if th is None or depth <= top + th:
            break
        top += th
    return min(T, Tmax)


def part_walk(ctx):
    m = _live_model(ctx, 2, 2)
    cases = walk_cases(ctx, ctx.n(1200, 15000))
    flat, part, keys, bad_spec, kept, tolerated = [], [], [], [], [], 0
    for c in cases:
        n, Ts, Tmax, depth, gs, ths, geo = c
        res, rflat = run_walk(m, c)
        inside = Ts < Tmax                        # for Tsurf >= Tmax the capped depth is <= 0 and the pinned code raises
        if res[0] == 'V' and not inside and abs(res[1][0] - spec_walk(n, Ts, Tmax, gs, ths, depth)) <= TOL * max(1, abs(Tmax)):
            tolerated += 1                         # a value where the model raises, and the value satisfies the property: not a defect
            continue
        if res[0] == 'V' and len(res[1]) == 2:     # water properties raised after the walk: only the walk is compared
            part.append(([F(n), Ts, Tmax, depth] + gs + ths, res, c))
        else:
            flat.append(([F(n), Ts, Tmax, depth] + gs + ths + rflat, res))
            kept.append(c)
        if res[0] == 'V':
            tidx = sum(1 for j in range(1, n) if res[1][1] > sum(ths[:j]))
            keys.append((n, tidx, res[1][1] < depth, int(geo[0]), int(geo[1])))
            want = spec_walk(n, Ts, Tmax, gs, ths, depth)
            if abs(res[1][0] - want) > TOL * max(1, abs(want)):
                bad_spec.append((c, res, want))
    failing = _kernel(ctx, 'walk-direct', ['Model.ResCalc'], 'run_rescalc', TOL, flat, 400)
    pfail = _kernel(ctx, 'walk-direct-partial', ['Model.Gradient'], 'run_bht_direct', TOL, [(a, b) for a, b, _ in part], 400)
    cases = kept
    ctx.count('walk-direct', evaluations=len(cases) + len(part), nontrivial_keys=keys,
              outcome={'value': sum(1 for _, r in flat if r[0] == 'V'), 'error': sum(1 for _, r in flat if r[0] == 'E'),
                       'walk only (water properties raised afterwards)': len(part),
                       'value outside the hypotheses, property holds': tolerated})
    desc = lambda c: {'n': c[0], 'Tsurf': str(c[1]), 'Tmax': str(c[2]), 'depth_m': str(c[3]),
                      'gradients': [str(x) for x in c[4]], 'thicknesses': [str(x) for x in c[5]], 'reservoir': [str(x) for x in c[6]]}
    ctx.sample('walk-direct', desc(cases[0]))
    for c, res, want in bad_spec[:3]:
        ctx.violate('property', f'bht-walk:nseg={c[0]}',
                    f'Reservoir.Calculate: bottom-hole temperature {float(res[1][0])!r} is not Tsurf + integral of the gradients to the '
                    f'(capped) depth = {float(want)!r} for {desc(c)}', inp={'part': 'walk-direct', 'case': desc(c)},
                    expected=float(want), observed=float(res[1][0]))
    for c, i in [(cases[i], i) for i in failing[:3]] + [(part[i][2], None) for i in pfail[:2]]:
        ctx.violate('corr', f'walk-direct:nseg={c[0]}:shape={int(c[6][0])}:volopt={int(c[6][1])}',
                    f'Reservoir.Calculate and Model.ResCalc.res_calc (walk, average gradient, fracture geometry, volume, heat content) '
                    f'disagree on {desc(c)}', inp={'part': 'walk-direct', 'case': desc(c)},
                    observed=str(flat[i][1])[:300] if i is not None else 'walk only', expected='run_rescalc (replay)')


def history_cases(ctx, n, count):
    rnd, out = ctx.rng, []
    for k in range(count):
        kind = rnd.choice(['linear', 'linear', 'convex', 'bumpy', 'flat', 'exact'])
        drop = F(rnd.randint(0, 50), 10)
        if kind == 'exact':        # all float operations exact: limit hit exactly (strictness of <), cycle dividing the length
            maxdd, drop, T0 = F(1, 8), F(0), F(200)
            step = F(rnd.choice([1, 2, 5, 25]))
            T = [T0 - step * min(j, rnd.choice([n, 25 // int(step) if step <= 25 else 1])) for j in range(n)]
            if rnd.random() < 0.5 and n > 3:
                j = rnd.choice([d for d in range(1, n) if n % d == 0] or [1])
                T = [T0 - F(j0) / 4 for j0 in range(j)] + [F(170)] * (n - j)
        else:
            maxdd = rnd.choice([F(1), F(rnd.randint(1, 60), 100), F(rnd.randint(1, 60), 100)])
            T0 = F(rnd.randint(600, 3000), 10)
            slope = F(rnd.randint(0, 400), 100) * 40 / max(n, 2)
            T = []
            for j in range(n):
                x = T0 - slope * j
                if kind == 'convex':
                    x = T0 - slope * j * j / max(n, 1)
                if kind == 'bumpy':
                    x += F(rnd.randint(-300, 300), 100)
                if kind == 'flat':
                    x = T0 - slope * (j // 3)
                T.append(max(x, F(6)))
        out.append((maxdd, drop, T, kind == 'exact'))
    return out


def part_history(ctx):
    import numpy as np
    flat, keys, meta, amb = [], [], [], 0
    per = ctx.n(60, 500)
    for life, tspy in ((1, 1), (7, 1), (3, 4), (10, 4), (30, 1)):
        m = _live_model(ctx, life, tspy)
        m.reserv.Calculate(m)
        n = life * tspy
        for maxdd, drop, T, exact in history_cases(ctx, n, per):
            w = m.wellbores
            m.reserv.Tresoutput.value = np.array([float(x) for x in T])
            prev = ctx.rng.choice([0, 0, 1, 3])             # count left on the object by an earlier call: must not show (fix 825a507)
            w.maxdrawdown.value, w.tempdropprod.value, w.redrill.value = float(maxdd), float(drop), prev
            try:
                w.Calculate(m)
            except Exception:  # noqa: BLE001 - later stages may reject odd temperatures; the step under test ran before
                pass
            P, Tn = [F(x) for x in w.ProducedTemperature.value], [F(x) for x in m.reserv.Tresoutput.value]
            lim = (1 - maxdd) * (T[0] - drop)
            if min(abs(x - drop - lim) for x in T[1:] or [lim + 1]) <= TOL * max(1, abs(lim)):   # decision within tolerance of its threshold
                amb += 1
                continue
            flat.append(([maxdd, F(n), F(prev)] + [x - drop for x in T] + T, ('V', P + Tn + [F(int(w.redrill.value))])))
            idx = next((j for j, x in enumerate(T) if x - drop < lim), 0)
            keys.append((n, idx))
            meta.append({'n': n, 'maxdrawdown': str(maxdd), 'drop': str(drop), 'Tres': [str(x) for x in T], 'first_below': idx, 'prev': prev})
    failing = _kernel(ctx, 'redrill-direct', ['Model.Redrill'], 'run_redrill', TOL, flat, 100)
    ctx.count('redrill-direct', evaluations=len(flat), nontrivial_keys=keys, boundary_ambiguous={'skipped': amb},
              redrilled={'yes': sum(1 for _, k in keys if k > 0), 'no': sum(1 for _, k in keys if k == 0)})
    ctx.sample('redrill-direct', meta[0])
    for i in failing[:3]:
        d = meta[i]
        ctx.violate('corr', f'redrill-direct:n={d["n"]}:first_below={d["first_below"]}',
                    f'WellBores.Calculate redrilling step and Model.Redrill.redrill disagree on history {d}',
                    inp={'part': 'redrill-direct', 'case': d}, observed=[float(x) for x in flat[i][1][1]][:60], expected='run_redrill (replay)')


# ---------------------------------------------------------------------------------------------------------
# (c): whole runs through main()
# ---------------------------------------------------------------------------------------------------------

QUICK_STEPS = [(1, 1), (1, 4), (2, 2), (3, 1), (3, 4), (5, 1), (5, 2), (5, 12), (7, 4), (10, 1), (10, 2), (10, 4), (20, 1), (20, 2),
               (30, 1), (30, 2)]
DEEP_STEPS = QUICK_STEPS + [(30, 4), (30, 12), (40, 4), (100, 1)]


def gen_input(rnd, resmodel, steps=QUICK_STEPS):
    dec = lambda lo, hi, d=2: rnd.randint(int(round(lo * 10 ** d)), int(round(hi * 10 ** d))) / 10 ** d
    p = [('Reservoir Model', resmodel)]
    if resmodel == 4:
        p.append(('Drawdown Parameter', dec(0.001, 0.05, 4)))
    elif resmodel == 3:
        p.append(('Drawdown Parameter', dec(0.00002, 0.0003, 6)))
    if resmodel in (1, 2):
        p += [('Fracture Shape', rnd.choice([1, 2, 3, 4])), ('Fracture Height', dec(300, 1200, 0)), ('Fracture Width', dec(300, 1200, 0)),
              ('Number of Fractures', rnd.randint(5, 40)), ('Fracture Separation', dec(30, 120, 0)), ('Fracture Area', dec(90000, 900000, 0)),
              ('Reservoir Volume Option', rnd.choice([1, 1, 2, 3])), ('Reservoir Volume', rnd.choice(['1e9', '5e8']))]
    else:
        p += [('Reservoir Volume Option', 4), ('Reservoir Volume', rnd.choice(['1e9', '5e8', '2.5e9']))]
        if rnd.random() < 0.5:
            p += [('Fracture Shape', rnd.choice([1, 2, 3, 4])), ('Fracture Height', dec(300, 1200, 0)), ('Fracture Area', dec(90000, 900000, 0))]
    n = rnd.choice([1, 1, 2, 2, 3, 4])
    p.append(('Number of Segments', n))
    for i in range(1, n + 1):
        if rnd.random() < 0.93:
            p.append((f'Gradient {i}', rnd.choice([dec(20, 90, 1)] * 6 + [0, 1, 0.5, dec(100, 300, 0), dec(1.1, 12, 1)])))
        if i < n and rnd.random() < 0.93:
            p.append((f'Thickness {i}', rnd.choice([dec(0.3, 2.5, 2)] * 6 + [100, dec(0.02, 0.09, 2), dec(3, 99, 0)])))
    p.append(('Reservoir Depth', rnd.choice([dec(1, 6, 2)] * 4 + [dec(0.1, 1, 2), dec(6, 15, 1)])))
    p.append(('Maximum Temperature', rnd.choice([dec(250, 600, 0), dec(250, 600, 0), dec(60, 250, 0)])))
    p.append(('Surface Temperature', dec(0, 30, 1)))
    p.append(('Injection Temperature', dec(15, 45, 1)))
    p.append(('Injection Wellbore Temperature Gain', dec(0, 3, 1)))
    ramey = rnd.random() < 0.4
    p.append(('Ramey Production Wellbore Model', int(ramey)))
    if not ramey:
        p.append(('Production Wellbore Temperature Drop', dec(0, 5, 1)))
    p.append(('Maximum Drawdown', rnd.choice([1, dec(0.02, 0.5, 2), dec(0.02, 0.2, 2)])))
    p += [('Reservoir Heat Capacity', dec(800, 1200, 0)), ('Reservoir Density', dec(2400, 3000, 0)),
          ('Reservoir Thermal Conductivity', dec(2, 3.5, 1)), ('Production Flow Rate per Well', dec(25, 90, 1))]
    life, tspy = rnd.choice(steps)
    p += [('Plant Lifetime', life), ('Time steps per year', tspy),
          ('End-Use Option', 2), ('Power Plant Type', 9), ('Print Output to Console', 0)]
    return runner.params_to_text(p)


def corpus_inputs():
    out = []
    for f in sorted(CORPUS.glob('*.json')):
        d = json.loads(f.read_text())
        out.append((f'corpus/{f.name}', d['text']))
    return out


def _num(s):
    try:
        return F(s.strip())
    except (ValueError, ZeroDivisionError):
        return None


def bht_flat(S, ip):
    """flat input of run_bht_input / run_bht_spec from the parsed input file and the (un-normalised) scalars of the run"""
    if 'Gradients' in ip or 'Thicknesses' in ip:
        return None
    get = lambda k: _num(ip[k][0]) if k in ip else None
    vals = [get('Reservoir Depth')] + [get(f'Gradient {i}') for i in range(1, 5)] + [get(f'Thickness {i}') for i in range(1, 5)]
    names = ['Reservoir Depth'] + [f'Gradient {i}' for i in range(1, 5)] + [f'Thickness {i}' for i in range(1, 5)]
    if any(k in ip and v is None for k, v in zip(names, vals)):
        return None                                     # value written with a unit: the units property (C06) covers that reader path
    flat = [F(int(S.v('reserv', 'numseg'))), F(S.v('reserv', 'Tsurf')), F(S.v('reserv', 'Tmax'))]
    for v in vals:
        flat += [F(0), F(0)] if v is None else [F(1), v]
    return flat


def tinj_used(S, ip):
    """injection temperature the reservoir stage worked with (input + wellbore gain): power plants may lower
    model.wellbores.Tinj afterwards (reinjection_temperature), so the snapshot value is only the fallback"""
    gain = F(S.v('wellbores', 'tempgaininj'))
    if 'Injection Temperature' not in ip:
        d = S.p('wellbores', 'Tinj').get('DefaultValue')
        return (F(d) + gain) if isinstance(d, (int, float)) else F(S.v('wellbores', 'Tinj'))
    v = _num(re.sub(r'\s*degC\s*$', '', ip['Injection Temperature'][0]))
    return (v + gain) if v is not None else F(S.v('wellbores', 'Tinj'))


def respost_flat(S, Trock, depth_m, tinj):
    """flat input / expected output of run_respost from a snapshot (inputs are the Parameter values, outputs the calculated copies)"""
    e = lambda a: S.v('reserv', a)
    shape, opt = e('fracshape'), e('resvoloption')
    if not (isinstance(shape, dict) and isinstance(opt, dict)) or shape.get('int') is None or opt.get('int') is None:
        return None
    gain = F(S.v('wellbores', 'tempgaininj'))
    area = F(e('fracarea'))
    flat = [F(int(e('numseg'))), F(e('Tsurf')), F(e('gradient')[0]), Trock, depth_m, F(shape['int']), F(opt['int']), area,
            F(e('fracheight')), F(e('fracwidth')), F(e('fracnumb')), F(e('fracsep')), F(e('resvol')), F(math.pi),
            F(math.sqrt(4 / math.pi * float(area))), F(e('rhorock')), F(e('cprock')), tinj - gain, gain]
    got = [F(e(a)) for a in ('averagegradient', 'fracheightcalc', 'fracwidthcalc', 'fracareacalc', 'resvolcalc', 'fracnumbcalc',
                             'fracsepcalc')] + [tinj, F(e('InitialReservoirHeatContent')), F(1)]
    return flat, got, f'shape={shape["int"]}:volopt={opt["int"]}'


def _resmodel(S):
    v = S.v('reserv', 'resoption')
    return v.get('int') if isinstance(v, dict) else None


QUICK_EXAMPLES = {'example_multiple_gradients.txt', 'example2.txt', 'example3.txt', 'example4.txt'}


def all_inputs(ctx):
    from lib import configs
    rnd, inputs = ctx.rng, corpus_inputs()
    for k in range(ctx.n(100, 600)):
        m = (1 + (k // 15) % 2) if k % 15 == 0 else rnd.choice([4, 4, 4, 3, 3])
        inputs.append((f'gen{k}', gen_input(rnd, m, QUICK_STEPS if ctx.quick else DEEP_STEPS)))
    for k in range(ctx.n(4, 40)):
        inputs.append((f'upp{k}', gen_upp_input(ctx, rnd, k)))
        inputs.append((f'cyl{k}', gen_cyl_input(rnd)))
    ex = [(n, t) for n, t in configs.example_texts(ctx) if not ctx.quick or n in QUICK_EXAMPLES]   # SBT/SUTRA: see part_extra
    return inputs + [('example/' + n, t) for n, t in ex]


def gen_upp_input(ctx, rnd, k):
    """reservoir model 5: the temperature history comes from a file (n+1 lines); bottom-hole temperature from the base-class walk"""
    text = gen_input(rnd, 4).replace('Reservoir Model, 4\n', 'Reservoir Model, 5\n')
    life, tspy = (int(re.search(rf'{key}, (\d+)', text).group(1)) for key in ('Plant Lifetime', 'Time steps per year'))
    f = ctx.scratch / f'upp_profile_{k}.txt'
    f.write_text(''.join(f'{j / tspy:.4f}, {180 - 0.3 * j:.3f}\n' for j in range(life * tspy + 1)))
    return text + f'Reservoir Output File Name, {f}\n'


def gen_cyl_input(rnd):
    """reservoir model 0 (CylindricalReservoir): Trock from the first gradient and the input depth, no Tmax cap"""
    dec = lambda lo, hi, d=2: rnd.randint(int(round(lo * 10 ** d)), int(round(hi * 10 ** d))) / 10 ** d
    p = [('Reservoir Model', 0), ('Cylindrical Reservoir Input Depth', dec(0.5, 9, 1)), ('Gradient 1', rnd.choice([dec(20, 80, 1), 0.5, 1])),
         ('Surface Temperature', dec(0, 30, 1)), ('Maximum Temperature', dec(100, 600, 0)), ('Injection Temperature', dec(15, 45, 1)),
         ('Plant Lifetime', rnd.choice([2, 5])), ('Time steps per year', rnd.choice([1, 2])), ('End-Use Option', 2), ('Power Plant Type', 9),
         ('Print Output to Console', 0)]
    if rnd.random() < 0.7:
        p.insert(2, ('Cylindrical Reservoir Output Depth', dec(0.5, 9, 1)))
    return runner.params_to_text(p)


def part_runs(ctx, inputs):
    results = runner.run_many(ctx, [t for _, t in inputs])
    bht, spec, dd, orc, ran, sigs, amb, rep_bad, tvs, rp, cyl = [], [], [], [], 0, [], 0, [], {}, [], []
    for (name, text), r in zip(inputs, results):
        if not r['snap'] or not snapshot.S(r['snap']).has('reserv', 'Trock'):
            ctx.count('runs', rejected={'no snapshot': 1})
            continue
        S = snapshot.S(r['snap'])
        m = _resmodel(S)
        if m == 0 and S.has('reserv', 'InputDepth'):      # cylindrical reservoir: its own three-line computation
            cyl.append(([F(S.v('reserv', 'Tsurf')), F(S.v('reserv', 'gradient')[0]), F(S.v('reserv', 'InputDepth')), F(S.v('reserv', 'OutputDepth'))],
                        ('V', [F(S.v('reserv', 'Trock')), F(S.v('reserv', 'depth')), F(S.v('reserv', 'averagegradient'))]), {'name': name, 'text': text}))
            continue
        if m not in (1, 2, 3, 4, 5) or type(S.v('reserv', 'Trock')) is not float:
            ctx.count('runs', rejected={'other reservoir model': 1})
            continue
        ran += 1
        ip = r['snap']['input_parameters']
        ref = {'name': name, 'text': text}
        Trock = F(S.v('reserv', 'Trock'))
        # --- bottom-hole temperature
        flat = bht_flat(S, ip)
        # Economics.Calculate turns depths > 500 (m) back into km: the unit label says which
        depth = F(S.v('reserv', 'depth')) * (1000 if S.p('reserv', 'depth')['cur'].startswith('kilo') else 1)
        if flat is not None:
            got = [Trock, depth] + [F(x) for x in S.v('reserv', 'gradient')] + [F(x) for x in S.v('reserv', 'layerthickness')]
            if flat[1] < flat[2]:                   # Tsurf < Tmax: the model's domain (the pinned code raises otherwise)
                bht.append((flat, ('V', got), ref))
            spec.append((flat, ('V', [Trock]), ref, 'Reservoir Depth' in ip))
        # --- the rest of Reservoir.Calculate: average gradient, fracture geometry, volume option, heat content
        Tinj = tinj_used(S, ip)
        rf = respost_flat(S, Trock, depth, Tinj)
        if rf is not None:
            rp.append((rf[0], ('V', rf[1]), ref, rf[2]))
        if m == 5:                                        # user-provided profile: only the base-class clauses apply
            sigs.append((m, int(S.v('reserv', 'numseg')), bool(flat) and depth < flat[4] * 1000 * (1 - TOL), False, False))
            continue
        # --- histories
        T, P = [F(x) for x in S.v('reserv', 'Tresoutput')], [F(x) for x in S.v('wellbores', 'ProducedTemperature')]
        n, red = len(T), int(S.v('wellbores', 'redrill'))
        maxdd = F(S.v('wellbores', 'maxdrawdown'))
        dh = S.enum_name('surfaceplant', 'plant_type') == 'DISTRICT_HEATING'
        if len(P) != n:
            ctx.violate('property', f'length:model={m}', f'{name}: ProducedTemperature has {len(P)} entries, Tresoutput {n}', inp=ref)
            continue
        orc.append(([F(1 if m in (3, 4) else 2 if m == 2 else 0), OTOL, maxdd, Trock, Tinj, F(red), F(n)] + T + P, ('V', [F(1)] * 6), ref,
                    {'m': m, 'tinj_above': Tinj > Trock, 'p0_neg': P[0] < 0, 'n': n, 'r': red, 'dh': dh}))
        ramey = bool(S.v('wellbores', 'rameyoptionprod'))
        sigs.append((m, int(S.v('reserv', 'numseg')), bool(flat) and depth < flat[4] * 1000 * (1 - TOL), red > 0, ramey))
        if m in (3, 4):
            drop = S.v('wellbores', 'ProdTempDrop')
            drops = [F(x) for x in drop] if isinstance(drop, list) else [F(drop)] * n
            dflat = [F(n)] + drops if isinstance(drop, list) else [F(1), F(drop)]
            life, dp, cpw = F(S.v('surfaceplant', 'plant_lifetime')), F(S.v('reserv', 'drawdp')), F(S.v('reserv', 'cpwater'))
            k_, rho, cpr = F(S.v('reserv', 'krock')), F(S.v('reserv', 'rhorock')), F(S.v('reserv', 'cprock'))
            tv = [F(x) for x in S.v('reserv', 'timevector')]
            extra, tail = [], []
            if m == 3 and dp != 0:
                args = [1. / float(dp) / float(cpw) * math.sqrt(float(k_) * float(rho) * float(cpr) / float(t) / (365. * 24. * 3600.))
                        for t in tv[1:]]
                extra = [F(a) for a in args] + [F(math.erf(a)) for a in args]
                tail = [F(1)] * (n - 1) + [F(1)]
            # the decision P < limit: skip the comparison when the series comes within tolerance of its threshold
            Tpre = [(1 - dp * t) * (Trock - Tinj) + Tinj for t in tv] if m == 4 else \
                [Trock] + [e * (Trock - Tinj) + Tinj for e in extra[n - 1:]]
            Ppre = [x - y for x, y in zip(Tpre, drops)]
            lim = (1 - maxdd) * Ppre[0]
            first = next((j for j, x in enumerate(Ppre) if x < lim), n)
            if min(abs(x - lim) for x in Ppre[1:first + 1] or [lim + 1]) <= TOL * max(1, abs(lim)):
                amb += 1
            else:
                # (district heating calls WellBores.Calculate twice; the count is reset on every call since fix 825a507)
                dd.append(([F(m), Trock, Tinj, dp, maxdd, life, F(n), cpw, k_, rho, cpr, F(0)] + dflat + extra,
                           ('V', T + P + [F(red)] + tail), ref, m))
            tvs[(life, n)] = tv
        # --- report lines (observe_at): what is printed is what was computed
        rep = r['report'] or ''
        mm = re.search(r'Bottom-hole temperature:\s+(-?[\d.]+) degC', rep)
        if mm and abs(F(mm.group(1)) - Trock) > F(5001, 10 ** 6):
            rep_bad.append((ref, f'report prints bottom-hole temperature {mm.group(1)}, computed {float(Trock)!r}'))
        mm = re.search(r'Number of times redrilling:\s+(-?\d+)', rep)
        if mm and int(mm.group(1)) != red:
            rep_bad.append((ref, f'report prints {mm.group(1)} redrillings, computed {red}'))
    ctx.count('runs', evaluations=ran, nontrivial_keys=sigs, boundary_ambiguous={'drawdown decision': amb},
              models={str(s[0]): sum(1 for x in sigs if x[0] == s[0]) for s in sigs},
              segments={str(k): sum(1 for x in sigs if x[1] == k) for k in (1, 2, 3, 4)},
              depth_capped={'yes': sum(1 for x in sigs if x[2]), 'no': sum(1 for x in sigs if not x[2])},
              redrilled={'yes': sum(1 for x in sigs if x[3]), 'no': sum(1 for x in sigs if not x[3])})
    if inputs:
        ctx.sample('runs', {'name': inputs[-1][0], 'text': inputs[-1][1][:600]})
    for ref, what in rep_bad[:3]:
        ctx.violate('corr', 'report:bht-or-redrill-line', f'{ref["name"]}: {what}', inp=ref)

    # model of read_parameters + Calculate vs the run
    for i in _kernel(ctx, 'bht-run-model', ['Model.Gradient'], 'run_bht_input', TOL, [(a, b) for a, b, _ in bht], 200)[:3]:
        ctx.violate('corr', f'bht-run:nseg={int(bht[i][0][0])}', f'{bht[i][2]["name"]}: bottom-hole temperature / capped depth / normalised '
                    'layers of the run differ from Model.Gradient.bht_of_input', inp=bht[i][2],
                    observed=[float(x) for x in bht[i][1][1]], expected='run_bht_input (replay)')
    for i in _kernel(ctx, 'rescalc-run-model', ['Model.ResCalc'], 'run_respost', TOL, [(a, b) for a, b, _, _ in rp], 200)[:3]:
        ctx.violate('corr', f'rescalc-run:{rp[i][3]}', f'{rp[i][2]["name"]}: average gradient / fracture geometry / reservoir volume / injection '
                    'temperature / initial heat content of the run differ from Model.ResCalc.res_post', inp=rp[i][2],
                    observed=[float(x) for x in rp[i][1][1]], expected='run_respost (replay)')
    ctx.count('rescalc-run', evaluations=len(rp), nontrivial_keys=[x[3] for x in rp])
    for i in _kernel(ctx, 'cylindrical-run', ['Model.ResCalc'], 'run_cylindrical', TOL, [(a, b) for a, b, _ in cyl], 200)[:3]:
        ctx.violate('corr', 'cylindrical-run', f'{cyl[i][2]["name"]}: Trock / depth / average gradient of the cylindrical reservoir differ from '
                    'Model.ResCalc.run_cylindrical', inp=cyl[i][2], observed=[float(x) for x in cyl[i][1][1]], expected='run_cylindrical (replay)')
    ctx.count('cylindrical-run', evaluations=len(cyl))
    # the property itself: Trock = min(Tsurf + integral of gradients down to the depth the input denotes, Tmax)
    for i in _kernel(ctx, 'bht-run-spec', ['Model.Gradient'], 'run_bht_spec', TOL, [(a, b) for a, b, _, _ in spec], 200)[:6]:
        key = f'bht:nseg={int(spec[i][0][0])}' if spec[i][3] else K_DEPTH
        ctx.violate('property', key, f'{spec[i][2]["name"]}: bottom-hole temperature {float(spec[i][1][1][0])!r} is not surface temperature + '
                    'integral of the segment gradients down to the (Tmax-capped) reservoir depth' +
                    ('' if spec[i][3] else ' (no Reservoir Depth in the input: the 3 km default must be walked as 3000 m, regression of fix a8610e4)'),
                    inp=spec[i][2], observed=float(spec[i][1][1][0]), expected='run_bht_spec (replay)')
    ctx.count('bht-run', evaluations=len(bht) + len(spec))
    # model of the drawdown pipeline (models 3,4) vs the run
    for i in _kernel(ctx, 'drawdown-run-model', ['Model.Drawdown'], 'run_drawdown', TOL, [(a, b) for a, b, _, _ in dd], 12)[:3]:
        ctx.violate('corr', f'drawdown-run:model={dd[i][3]}', f'{dd[i][2]["name"]}: time vector / Tresoutput / ProducedTemperature / redrill of '
                    'the run differ from Model.Drawdown.run_drawdown', inp=dd[i][2], expected='run_drawdown (replay)')
    ctx.count('drawdown-run', evaluations=len(dd))
    tvc = [([L, F(n)], ('V', tv)) for (L, n), tv in sorted(tvs.items())]
    for i in _kernel(ctx, 'timevector', ['Model.Drawdown'], 'run_timevector', TOL, tvc, 20)[:2]:
        ctx.violate('corr', f'timevector:n={int(tvc[i][0][1])}', f'np.linspace(0, {tvc[i][0][0]}, {tvc[i][0][1]}) of the run differs from Model.Drawdown.timevector')
    ctx.count('timevector', evaluations=len(tvc))
    # the property clauses, evaluated by the Coq checkers on the series of the run
    failing = _kernel(ctx, 'oracle', ['Model.Redrill'], 'run_oracle_all', F(0), [(a, b) for a, b, _, _ in orc], 12)
    ctx.count('oracle', evaluations=6 * len(orc))
    pairs = [(i, cl) for i in failing[:40] for cl in CLAUSES if orc[i][3]['m'] in APPLIES.get(cl, (1, 2, 3, 4))]
    bad = _kernel(ctx, 'oracle-clauses', ['Model.Redrill'], 'run_oracle', F(0),
                  [([F(cl)] + orc[i][0][1:], ('V', [F(1)])) for i, cl in pairs], 8)
    broken = {pairs[j] for j in bad}
    # district heating: does the series look exactly like one that was never redrilled (all clauses hold with a count of 0)?
    stale = [i for i in sorted({i for i, cl in broken if cl in (3, 4)}) if orc[i][3]['dh'] and orc[i][3]['r'] > 0]
    not_stale = _kernel(ctx, 'oracle-stale', ['Model.Redrill'], 'run_oracle_all', F(0),
                        [(orc[i][0][:5] + [F(0)] + orc[i][0][6:], orc[i][1]) for i in stale], 8)
    stale = {i for j, i in enumerate(stale) if j not in not_stale}
    for i, cl in sorted(broken):
        a, _, ref, info = orc[i]
        key = f'{CLAUSES[cl]}:model={info["m"]}'
        if cl == 5 and info['tinj_above']:
            key = K_TINJ
        if cl == 2 and info['p0_neg']:
            key = K_NEG
        if cl == 4 and (i, 3) not in broken:
            key = K_COUNT
        if cl in (3, 4) and i in stale:
            key = K_STALE
        ctx.violate('property', key, f'{ref["name"]}: clause "{CLAUSES[cl]}" of C05 fails on the series of this run (reservoir model '
                    f'{info["m"]}, {info["n"]} steps, {info["r"]} redrillings reported)', inp=ref,
                    observed={'Tres': [float(x) for x in a[7:7 + info['n']]][:40], 'P': [float(x) for x in a[7 + info['n']:]][:40]})


class _Stop(Exception):
    pass


def _model_from_text(ctx, tag, text):
    logging.disable(logging.CRITICAL)
    from geophires_x.Model import Model
    p = ctx.scratch / f'direct_{tag}.txt'
    p.write_text(text)
    m = Model(enable_geophires_logging_config=False, input_file=str(p))
    m.read_parameters()
    return m


def part_extra(ctx):
    """reservoir classes that override the walk: direct calls of CylindricalReservoir.Calculate and of the first lines of
    SBTReservoir.Calculate / Calculate_Uloop (aborted at generate_wireframe_model: the simulation itself takes 2-18 s and is not C05)"""
    rnd = ctx.rng
    dec = lambda lo, hi, d: F(rnd.randint(int(lo * 10 ** d), int(hi * 10 ** d)), 10 ** d)
    import geophires_x.Model  # noqa: F401  (circular import: Model first)
    from geophires_x.CylindricalReservoir import CylindricalReservoir
    import geophires_x.SBTReservoir as sbtmod
    m = _model_from_text(ctx, 'cyl', gen_cyl_input(rnd))
    cases = []
    for _ in range(ctx.n(300, 3000)):
        Ts, g0, din, dout = dec(-5, 40, 1), dec(0.01, 0.12, 4), dec(0.1, 15, 2), dec(0.1, 15, 2)
        r = m.reserv
        r.Tsurf.value, r.gradient.value[0], r.InputDepth.value, r.OutputDepth.value, r.Trock.value = float(Ts), float(g0), float(din), float(dout), None
        try:
            CylindricalReservoir.Calculate.__wrapped__(r, m)
        except Exception:  # noqa: BLE001 - water properties above their range (there is no Tmax cap here)
            if r.Trock.value is None:
                raise
        cases.append(([Ts, g0, din, dout], ('V', [F(r.Trock.value), F(r.depth.value), F(r.averagegradient.value)])))
    bad = _kernel(ctx, 'cylindrical-direct', ['Model.ResCalc'], 'run_cylindrical', TOL, cases, 400)
    ctx.count('cylindrical-direct', evaluations=len(cases), nontrivial_keys=[('above Tmax', c[1][1][0] > F(m.reserv.Tmax.value)) for c in cases])
    for i in bad[:2]:
        d = {'Tsurf': str(cases[i][0][0]), 'gradient': str(cases[i][0][1]), 'input_depth_km': str(cases[i][0][2]), 'output_depth_km': str(cases[i][0][3])}
        ctx.violate('corr', 'cylindrical-direct', f'CylindricalReservoir.Calculate and Model.ResCalc.run_cylindrical disagree on {d}',
                    inp={'part': 'cylindrical-direct', 'case': d}, observed=[float(x) for x in cases[i][1][1]])
    text = (fw.REPO / 'tests' / 'examples' / 'example_SBT_Lo_T.txt').read_text() + '\nPrint Output to Console, 0\n'
    m = _model_from_text(ctx, 'sbt', text)
    stash = sbtmod.generate_wireframe_model

    def stop(*a, **k):
        raise _Stop()
    sbtmod.generate_wireframe_model = stop
    cases = []
    try:
        for _ in range(ctx.n(300, 3000)):
            n, Ts, ep, jd = rnd.randint(1, 4), dec(-5, 40, 1), dec(1000, 15000, 0), dec(1000, 15000, 0)
            gs = [dec(0.01, 0.12, 4) for _ in range(4)]
            r, w = m.reserv, m.wellbores
            r.numseg.value, r.Tsurf.value, r.gradient.value, r.Trock.value = n, float(Ts), [float(g) for g in gs], None
            w.lateral_endpoint_depth.value, w.junction_depth.value = float(ep), float(jd)
            try:
                getattr(sbtmod.SBTReservoir.Calculate, "__wrapped__", sbtmod.SBTReservoir.Calculate)(r, m)
            except _Stop:
                pass
            if r.Trock.value is None:
                raise RuntimeError('SBTReservoir.Calculate did not reach the bottom-hole temperature (configuration not U-loop?)')
            cases.append(([F(n), Ts, ep, jd / 1000, ep / 1000] + gs, ('V', [F(r.Trock.value), F(r.depth.value), F(r.averagegradient.value)])))
    finally:
        sbtmod.generate_wireframe_model = stash
    bad = _kernel(ctx, 'sbt-direct', ['Model.ResCalc'], 'run_sbt', TOL, cases, 400)
    ctx.count('sbt-direct', evaluations=len(cases), nontrivial_keys=[int(c[0][0]) for c in cases])
    for i in bad[:2]:
        d = {'n': int(cases[i][0][0]), 'Tsurf': str(cases[i][0][1]), 'endpoint_m': str(cases[i][0][2]), 'junction_km': str(cases[i][0][3]),
             'gradients': [str(x) for x in cases[i][0][5:]]}
        ctx.violate('corr', f'sbt-direct:nseg={d["n"]}', f'SBTReservoir.Calculate_Uloop and Model.ResCalc.run_sbt disagree on {d}',
                    inp={'part': 'sbt-direct', 'case': d}, observed=[float(x) for x in cases[i][1][1]])


def correspondence(ctx, proofs_ok=True):
    import time
    t0 = time.time()
    with contextlib.redirect_stdout(io.StringIO()):      # the wellbore model prints warnings
        part_walk(ctx)
        t1 = time.time()
        part_history(ctx)
        part_extra(ctx)
    t2 = time.time()
    part_runs(ctx, all_inputs(ctx))
    ctx.distribution.setdefault('wall_s', {}).update({'walk-direct': round(t1 - t0), 'redrill-direct': round(t2 - t1), 'runs': round(time.time() - t2)})


# ---------------------------------------------------------------------------------------------------------
# failing-input search: the property itself on the implementation, around what disagreed + the proofs' hypotheses
# ---------------------------------------------------------------------------------------------------------

def search(ctx):
    rnd, texts = ctx.rng, []
    for v in ctx.violations:
        c = (v.inp or {}).get('case') if isinstance(v.inp, dict) else None
        if c and 'gradients' in c:      # a layer-walk tuple: the same layers as an input file (values back in degC/km and km)
            n = c['n']
            p = [('Reservoir Model', 4), ('Number of Segments', n), ('Surface Temperature', float(F(c['Tsurf']))),
                 ('Maximum Temperature', min(600.0, max(50.0, float(F(c['Tmax']))))), ('Reservoir Depth', float(F(c['depth_m']) / 1000))]
            p += [(f'Gradient {i + 1}', float(F(c['gradients'][i]) * 1000)) for i in range(n)]
            p += [(f'Thickness {i + 1}', float(F(c['thicknesses'][i]) / 1000)) for i in range(n - 1)]
            texts.append(runner.params_to_text(p + [('End-Use Option', 2), ('Power Plant Type', 9), ('Print Output to Console', 0)]))
        elif isinstance(v.inp, dict) and 'text' in v.inp:
            texts.append(v.inp['text'])
    texts = texts[:10] + [gen_input(rnd, rnd.choice([3, 4])) for _ in range(60)]
    stash, ctx.violations = ctx.violations, []
    try:
        part_runs(ctx, [(f'search{k}', t) for k, t in enumerate(texts)])
    finally:
        ctx.violations = stash + [v for v in ctx.violations if v.kind == 'property']


# ---------------------------------------------------------------------------------------------------------

def replay(ctx, data):
    inp = data.get('input') or {}
    if 'text' in inp:
        r = runner.run_many(ctx, [inp['text']])[0]
        if r['snap'] and snapshot.S(r['snap']).has('reserv', 'Trock'):
            S = snapshot.S(r['snap'])
            print('implementation: bottom-hole temperature', S.v('reserv', 'Trock'), '| depth', S.v('reserv', 'depth'), S.p('reserv', 'depth')['cur'],
                  '| redrill', S.v('wellbores', 'redrill'), '| Tinj', S.v('wellbores', 'Tinj'))
            print('  Tresoutput', S.v('reserv', 'Tresoutput')[:12], '...\n  ProducedTemperature', S.v('wellbores', 'ProducedTemperature')[:12], '...')
        else:
            print('implementation: run failed:', r['error'])
        part_runs(ctx, [(inp.get('name', 'replay'), inp['text'])])
        print('Coq models (Gradient.bht_of_input, Drawdown.run_drawdown) agree with the run:', not any(v.kind == 'corr' for v in ctx.violations))
    elif inp.get('part') == 'walk-direct':
        c = inp['case']
        case = (c['n'], F(c['Tsurf']), F(c['Tmax']), F(c['depth_m']), [F(x) for x in c['gradients']], [F(x) for x in c['thicknesses']],
                [F(x) for x in c.get('reservoir', GEO_DEFAULT)])
        with contextlib.redirect_stdout(io.StringIO()):
            res, rflat = run_walk(_live_model(ctx, 2, 2), case)
        flat = [F(case[0]), case[1], case[2], case[3]] + case[4] + case[5]
        full = res[0] == 'E' or len(res[1]) > 2
        bad = _kernel(ctx, 'replay', ['Model.ResCalc'], 'run_rescalc' if full else 'run_bht_direct', TOL, [(flat + (rflat if full else []), res)])
        print('Reservoir.Calculate -> [Trock, depth, averagegradient, height, width, area, volume, number, separation, Tinj, heat content, 1]\n ',
              res if res[0] == 'E' else [float(x) for x in res[1]], '| model agrees:', not bad)
        if res[0] == 'V' and case[1] < case[2] < 1000:
            want = spec_walk(case[0], case[1], case[2], case[4], case[5], case[3])
            print('Tsurf + integral of gradients, capped at Tmax =', float(want))
            if abs(want - res[1][0]) > TOL * max(1, abs(want)):
                ctx.violate('property', 'bht-walk', 'bottom-hole temperature differs from the definition')
        if bad:
            ctx.violate('corr', 'walk-direct', 'model and implementation disagree')
    elif inp.get('part') == 'redrill-direct':
        import numpy as np
        c = inp['case']
        m = _live_model(ctx, c['n'], 1)
        m.reserv.Calculate(m)
        T, drop, maxdd = [F(x) for x in c['Tres']], F(c['drop']), F(c['maxdrawdown'])
        m.reserv.Tresoutput.value = np.array([float(x) for x in T])
        m.wellbores.maxdrawdown.value, m.wellbores.tempdropprod.value, m.wellbores.redrill.value = float(maxdd), float(drop), c.get('prev', 0)
        try:
            m.wellbores.Calculate(m)
        except Exception:  # noqa: BLE001
            pass
        P, Tn = [F(x) for x in m.wellbores.ProducedTemperature.value], [F(x) for x in m.reserv.Tresoutput.value]
        red = int(m.wellbores.redrill.value)
        bad = _kernel(ctx, 'replay', ['Model.Redrill'], 'run_redrill', TOL,
                      [([maxdd, F(len(T)), F(c.get('prev', 0))] + [x - drop for x in T] + T, ('V', P + Tn + [F(red)]))])
        print('WellBores.Calculate -> redrill', red, 'ProducedTemperature', [float(x) for x in P][:40], '| model agrees:', not bad)
        lim = (1 - maxdd) * P[0]
        if P[0] >= 0 and any(x < lim - OTOL * max(1, abs(lim)) for x in P):
            ctx.violate('property', 'floor', 'production temperature below the drawdown limit')
        if bad:
            ctx.violate('corr', 'redrill-direct', 'model and implementation disagree')
    elif inp.get('part') in ('cylindrical-direct', 'sbt-direct'):
        print('re-running the direct calls of CylindricalReservoir.Calculate / SBTReservoir.Calculate against Model.ResCalc; recorded case:', inp.get('case'))
        with contextlib.redirect_stdout(io.StringIO()):
            part_extra(ctx)
    else:
        print('nothing to replay in', list(inp))
        return 1
    findings = fw.load_findings()
    rc = 0
    for v in ctx.violations:
        known = fw.match_finding(findings, ctx.pid, v.key)
        print(('KNOWN-FINDING ' if known else 'VIOLATED ') + f'[{v.kind}] {v.key}: {v.what[:300]}')
        rc = rc or (0 if known else 1)
    print('property', 'VIOLATED' if rc else 'holds (or only known findings)', 'on this input')
    return rc
