"""tools/process_seed.py <seed_out_dir> <property> [check ...]
Confirm a seeded change produced by an independent agent (patch applies, existing test suite still passes, the demo fails
with the change and passes without it), run the named checks (default: the property's own) against it in a scratch worktree,
and file it under /verif/seeded/<id>/ (patch.diff, demo.py, meta.json with what was run and which checks caught it)."""
import json
import os
import re
import shutil
import subprocess
import sys
from pathlib import Path

HERE = Path(__file__).resolve().parents[1]
BASELINE = (149, 6, 4)   # passed, failed, errors on the unchanged tree


def sh(cmd, **k):
    return subprocess.run(cmd, capture_output=True, text=True, **k)


def suite(root):
    env = {k: v for k, v in os.environ.items() if not k.startswith('GEOPHIRES_X_VERIF')}
    env['PYTHONPATH'] = f'{root}/src'
    r = sh(['/venv/bin/python', '-m', 'pytest', '-q', '-p', 'no:cacheprovider', '--timeout=900', '--continue-on-collection-errors',
            '--deselect', 'tests/geophires_monte_carlo_tests/test_geophires_monte_carlo.py::GeophiresMonteCarloTestCase::test_hip_ra_monte_carlo'],
           cwd=root, env=env)
    tail = r.stdout.strip().splitlines()[-1] if r.stdout.strip() else ''
    g = lambda w: int((re.search(r'(\d+) ' + w, tail) or [0, 0])[1])
    return (g('passed'), g('failed'), g('error')), tail


def main():
    src = Path(sys.argv[1])
    pid = sys.argv[2]
    checks = sys.argv[3:] or [pid]
    meta = json.loads((src / 'meta.json').read_text())
    sid = f'{pid}-' + (os.environ.get('SEED_TAG', '') and os.environ['SEED_TAG'] + '-') + f'{src.name}-' + re.sub(r'[^a-z0-9]+', '-', meta.get('title', 'seed').lower()).strip('-')[:40]
    wt = Path(f'/var/tmp/verif_seed_wt_{os.getpid()}')
    sh(['git', '-C', '/repo', 'worktree', 'remove', '--force', str(wt)])
    assert sh(['git', '-C', '/repo', 'worktree', 'add', '--detach', str(wt), 'HEAD']).returncode == 0
    ran = []
    try:
        demo = src / 'demo.py'
        env = dict(os.environ, PYTHONPATH='')
        env.pop('GEOPHIRES_X_VERIF', None)
        r0 = sh(['/venv/bin/python', str(demo), '/repo/src'], env=env, cwd='/var/tmp')
        ran.append(f'demo.py /repo/src -> exit {r0.returncode}')
        a = sh(['git', '-C', str(wt), 'apply', str(src / 'patch.diff')])
        if a.returncode != 0:
            print(sid, 'PATCH DOES NOT APPLY', a.stderr[:300])
            return
        r1 = sh(['/venv/bin/python', str(demo), f'{wt}/src'], env=env, cwd='/var/tmp')
        ran.append(f'demo.py <worktree with patch>/src -> exit {r1.returncode}: {(r1.stdout + r1.stderr).strip()[-300:]}')
        counts, tail = suite(str(wt))
        ran.append(f'pytest in the patched worktree -> {tail}')
        confirmed = r0.returncode == 0 and r1.returncode != 0 and counts[0] >= BASELINE[0] - 1 and counts[1] <= BASELINE[1] and counts[2] <= BASELINE[2]
        print(sid, 'demo without/with:', r0.returncode, r1.returncode, '| suite:', tail, '| confirmed:', confirmed, flush=True)
        caught = {}
        for c in checks:
            env2 = dict(os.environ, VERIF_REPO=str(wt), VERIF_EVIDENCE_DIR=f'/var/tmp/verif_seed_ev_{os.getpid()}')
            r = sh([str(HERE / 'check'), c, '--tier', 'quick'], env=env2, cwd=HERE)
            lines = [l for l in r.stdout.splitlines() if l.startswith('VIOLATION')]
            verdict = 'caught' if r.returncode == 1 and lines else ('missed' if r.returncode == 0 else f'error rc={r.returncode}')
            noinp = sum('no-failing-input-found' in l for l in lines)
            detail = next((l.strip() for l in r.stdout.splitlines() if l.startswith('  ')), '')[:300]
            caught[c] = {'verdict': verdict, 'violations': len(lines), 'without_failing_input': noinp, 'first': detail}
            ran.append(f'VERIF_REPO=<patched worktree> ./check {c} --tier quick -> rc {r.returncode}, {len(lines)} VIOLATION lines')
            print('   check', c, verdict, len(lines), detail[:160], flush=True)
        if confirmed:
            out = HERE / 'seeded' / sid
            out.mkdir(parents=True, exist_ok=True)
            shutil.copy(src / 'patch.diff', out / 'patch.diff')
            shutil.copy(demo, out / 'demo.py')
            meta.update({'property': pid, 'checks': checks, 'confirmed_by_integrator': ran, 'detected_by': caught,
                         'origin': 'independent sub-agent given only the property text and a scratch worktree'})
            (out / 'meta.json').write_text(json.dumps(meta, indent=1) + '\n')
    finally:
        sh(['git', '-C', '/repo', 'worktree', 'remove', '--force', str(wt)])
        shutil.rmtree(f'/var/tmp/verif_seed_ev_{os.getpid()}', ignore_errors=True)


if __name__ == '__main__':
    main()
