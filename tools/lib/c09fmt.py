"""C09: Coq terms for the formatting model (Model/Fmt.v) and the CPython side of its correspondence."""
import math
import re
import struct
from fractions import Fraction

from . import qconv

SPEC_RE = re.compile(r'^(\d*)(,?)(?:\.(\d+))?([fFeEgGs]?)$')


def _me(f):
    """exact (mantissa, exponent) of a dyadic Fraction, mantissa odd or exponent 0"""
    m, e = f.numerator, -(f.denominator.bit_length() - 1)
    if e == 0:
        while m and m % 2 == 0 and abs(m) >= 2 ** 62:
            m, e = m // 2, e + 1
    return m, e


def _dbl(f):
    m, e = _me(f)
    if abs(m) < 2 ** 62 and -2048 <= e < 2 ** 20:
        return f'({"vm" if m < 0 else "vp"} {abs(m)} {e + 2048})%uint63'      # Model/FloatLit.v: primitive-int numerals are read fast
    return f'(Fin ({f.numerator} # {f.denominator}))'


def fval(x):
    """Coq term of type fval for a Python number (float/int/numpy scalar): the exact value, mantissa / 2^e."""
    if isinstance(x, bool):
        x = int(x)
    if isinstance(x, int):
        return _dbl(Fraction(x))
    x = float(x)
    if math.isnan(x):
        return 'NaN'
    if math.isinf(x):
        return 'PInf' if x > 0 else 'NInf'
    if x == 0 and math.copysign(1.0, x) < 0:
        return 'NegZero'
    return _dbl(Fraction(x))


def fl(x):
    """Coq term of type fl (Model/Float.v) for a Python number: FD mantissa exponent, or FBad for nan / inf / -0.0"""
    if isinstance(x, bool):
        x = int(x)
    if not isinstance(x, int):
        x = float(x)
        if math.isnan(x) or math.isinf(x) or (x == 0 and math.copysign(1.0, x) < 0):
            return 'FBad'
    m, e = _me(Fraction(x))
    if abs(m) < 2 ** 62 and -2048 <= e < 2 ** 20:
        return f'({"fdm" if m < 0 else "fdp"} {abs(m)} {e + 2048})%uint63'
    return f'(FD ({m}) ({e}))'


def parse_spec(spec):
    """'10.2f' -> (kind, width, prec);  kind in F Fc E Eu G.  None if the spec is outside the model."""
    m = SPEC_RE.match(spec)
    if not m or not m.group(4) or m.group(4) in 'sFG':
        return None
    w = int(m.group(1) or 0)
    p = int(m.group(3)) if m.group(3) is not None else 6
    t = m.group(4)
    if m.group(2):
        return ('Fc', w, p) if t == 'f' else None
    return ({'f': 'F', 'e': 'E', 'E': 'Eu', 'g': 'G'}[t], w, p)


def term(kind, w, p, x):
    """Coq term of type string: the model's rendering of x under (kind, w, p)."""
    v = fval(x)
    if kind == 'F':
        return f'fmt_f {v} {w} {p}'
    if kind == 'Fc':
        return f'fmt_fc {v} {w} {p}'
    if kind == 'E':
        return f'fmt_e false {v} {w} {p}'
    if kind == 'Eu':
        return f'fmt_e true {v} {w} {p}'
    if kind == 'G':
        return f'fmt_g {v} {w} {p}'
    if kind == 'R':
        return f'py_repr {v}'
    if kind == 'RR':
        return f'py_round_repr {v} {p}'
    if kind == 'I':
        return f'py_int {qconv.zlit(x)}'
    raise ValueError(kind)


def python(kind, w, p, x):
    """What CPython prints."""
    if kind == 'F':
        return format(x, f'{w}.{p}f')
    if kind == 'Fc':
        return format(x, f'{w},.{p}f')
    if kind == 'E':
        return format(x, f'{w}.{p}e')
    if kind == 'Eu':
        return format(x, f'{w}.{p}E')
    if kind == 'G':
        return format(x, f'{w}.{p}g')
    if kind == 'R':
        return repr(float(x))
    if kind == 'RR':
        return repr(round(float(x), p))
    if kind == 'I':
        return str(int(x))
    raise ValueError(kind)


def eq_term(kind, w, p, x, text):
    return f'String.eqb ({term(kind, w, p, x)}) {qconv.coq_bytes(text)}'


def parse_term(kind, text):
    """Coq bool: the model's reading of a printed field (parse_dec / parse_dec_comma / parse_sci) is the decimal Python reads
    from the same text; None when the text is not a finite number of that kind"""
    from decimal import Decimal, InvalidOperation
    fn = {'F': 'parse_dec', 'Fc': 'parse_dec_comma', 'E': 'parse_sci', 'Eu': 'parse_sci', 'G': 'parse_sci' if 'e' in text else 'parse_dec'}.get(kind)
    try:
        d = Decimal(text.strip().replace(',', ''))
    except InvalidOperation:
        return None
    if fn is None or not d.is_finite():
        return None
    f = Fraction(d)
    return f'match {fn} {qconv.coq_bytes(text)} with Some z => Qeq_bool z ({f.numerator} # {f.denominator}) | None => false end'


def next_after(x, up=True):
    return math.nextafter(x, math.inf if up else -math.inf)


def values(rnd, n):
    """Doubles that stress the formatter: decimal ties, their neighbours, carries, wide, tiny, negative, specials."""
    out = [0.0, -0.0, 1.0, -1.0, 0.5, 1.5, 2.5, -0.5, 0.125, 0.375, 2.675, 1.005, 0.045, 1e22, 1e23, 123456789.125, 9.995, 99.995,
           999.9995, 0.00001, 0.0001, 0.00012345, 1e-7, 5e-324 * 2 ** 60, 1e16, 1e15, 123456789012345678.0, 0.1, 0.2, 0.3, 1 / 3,
           2 / 3, 9.5, 10.5, 99.5, 0.05, 0.005, 0.0005, -0.001, -0.004, -0.005, -0.006, 1e5, 1e6, 999999.5, 1234567.891,
           float('nan'), float('inf'), float('-inf'), 2.0 ** 52, 2.0 ** 53, 2.0 ** -20, 4.35, 4.45, 1e-5, 9.9999e-5, 0.99995]
    for _ in range(n):
        r = rnd.random()
        if r < 0.25:      # exact binary ties at a decimal position: k/2^j scaled
            x = rnd.randint(-4000, 400000) / 2 ** rnd.randint(1, 6)
        elif r < 0.45:    # short decimals (not representable: just below / above the tie)
            x = rnd.randint(-99999, 9999999) / 10 ** rnd.randint(1, 6) + rnd.choice([0, 5]) / 10 ** rnd.randint(2, 8)
        elif r < 0.6:     # any magnitude
            x = rnd.uniform(-1, 1) * 10 ** rnd.randint(-12, 18)
        elif r < 0.7:     # near powers of ten (carry into a new digit)
            x = 10 ** rnd.randint(-6, 12) * (1 - rnd.choice([0, 1e-3, 5e-5, 5e-7, 1e-12]))
        elif r < 0.8:     # neighbours of a tie
            x = rnd.randint(0, 100000) / 2 ** rnd.randint(1, 5)
            x = next_after(x, rnd.random() < 0.5)
        elif r < 0.9:     # integers, powers of two
            x = float(rnd.choice([rnd.randint(-10 ** 6, 10 ** 9), 2 ** rnd.randint(-30, 70)]))
        else:             # raw bit patterns (normal range)
            e = rnd.randint(1023 - 200, 1023 + 200)
            bits = (rnd.getrandbits(1) << 63) | (e << 52) | rnd.getrandbits(52)
            x = struct.unpack('<d', struct.pack('<Q', bits))[0]
        out.append(x)
    return out


def cases(rnd, n):
    """(kind, w, p, x) tuples over every modelled format kind."""
    out = []
    for x in values(rnd, n):
        finite = not (math.isnan(x) or math.isinf(x))
        k = rnd.random()
        out.append(('F', rnd.choice([0, 2, 5, 8, 10, 12]), rnd.choice([0, 1, 2, 2, 3, 4, 5]), x))
        if k < 0.3:
            out.append(('Fc', rnd.choice([0, 10, 14]), rnd.choice([0, 2, 3]), x))
        elif k < 0.5:
            out.append((rnd.choice(['E', 'Eu']), rnd.choice([0, 10]), rnd.choice([0, 1, 2, 5]), x))
        elif k < 0.75:
            out.append(('G', rnd.choice([0, 10]), rnd.choice([0, 1, 3, 4, 6, 9]), x))
        elif finite and abs(x) < 1e300 and (x == 0 or abs(x) > 1e-290):
            out.append(('R', 0, 0, x))
            out.append(('RR', 0, rnd.choice([0, 1, 4, 10]), x))
        if finite and float(x).is_integer() and abs(x) < 1e15 and k < 0.2:
            out.append(('I', 0, 0, int(x)))
    return out


def float_cases(rnd, nops, narrays):
    """[(description, Coq bool term)]: Model/Float.v against Python / numpy on random operands and arrays"""
    import numpy as np

    def val():
        r = rnd.random()
        if r < 0.3:
            return rnd.uniform(-1, 1) * 10 ** rnd.randint(-8, 12)
        if r < 0.5:
            return float(rnd.randint(-1000, 100000))
        if r < 0.7:
            return rnd.randint(1, 10 ** 6) / 10 ** rnd.randint(0, 6)
        if r < 0.8:
            return rnd.choice([100.0, 1e6, 1e3, 24.0, 0.5, 3.0, 1.0, 0.0])
        return rnd.uniform(0, 400)

    out = []
    for _ in range(nops):
        a, b = val(), val()
        for op, f in (('fadd', lambda x, y: x + y), ('fsub', lambda x, y: x - y), ('fmul', lambda x, y: x * y),
                      ('fdiv', lambda x, y: x / y if y else None)):
            r = f(a, b)
            outside = r is None or (r == 0 and (math.copysign(1, r) < 0 or (op in ('fmul', 'fdiv') and (a < 0 or b < 0)))) \
                or (r != 0 and abs(r) < 2.3e-308) or math.isinf(r)
            term = f'match {op} {fl(a)} {fl(b)} with None => true | _ => false end' if outside else f'opt_is ({op} {fl(a)} {fl(b)}) {fl(r)}'
            out.append(((op, a, b, r), term))
    for _ in range(narrays):
        n = rnd.choice([1, 2, 3, 7, 8, 9, 16, 17, 31, 100, 121, 128, 129, 130, 200, 361, 1201])
        sc = 10 ** rnd.randint(-3, 4)
        a = [rnd.uniform(0, 1) * sc if rnd.random() < 0.9 else float(rnd.randint(0, 5)) for _ in range(n)]
        arr = np.array(a)
        lit = '[' + '; '.join(fl(x) for x in a) + ']'
        s = abs(val()) or 1.0
        for op, r in (('np_average l', float(np.average(arr))), ('np_sum l', float(np.sum(arr))), ('seq_sum (FD 0 0) l', float(sum(arr))),
                      ('np_max l', float(np.max(arr))), ('np_min l', float(np.min(arr))),
                      (f'seval None (SAvg (ADivS (ALeaf l) (SLeaf {fl(s)})))', float(np.average(arr / s))),
                      (f'seval None (SPySum (AMulS (ALeaf l) (SLeaf {fl(24)})))', float(sum(arr * 24))),
                      (f'seval (Some {n // 2}%nat) (SDiv (SRow (ALeaf l)) (SIdx (ALeaf l) 0))', (arr[n // 2] / arr[0]) if arr[0] else None)):
            if r is not None and not (math.isnan(r) or math.isinf(r)):
                out.append(((op.split(' ')[0], n, r), f'(let l := {lit} in opt_is ({op}) {fl(r)})'))
    return out


def kernel_bools(ctx, name, requires, terms, shard=300):
    """fw.kernel_bools with List.length spelled out (String.length shadows it once String is imported)."""
    from . import framework as fw

    def body(lo, hi):
        items = ';\n '.join(terms[lo:hi])
        return f'let l := [\n {items}] in (List.length l, mismatches (fun b : bool => b) 0 l)'

    return fw.kernel_eval(ctx, name, ['Base.Flat'] + list(requires), body, len(terms), shard, None)


def kernel_groups(ctx, name, requires, groups, shard_bytes=300_000):
    """groups: [(definitions, [bool terms])] - top-level Coq definitions (series) the terms of the group refer to.
    Evaluates everything in the kernel (sharded by size, 16 coqc in parallel); returns the set of (group, term) that are false."""
    import contextlib
    import re
    from concurrent.futures import ThreadPoolExecutor
    from . import framework as fw
    shards, cur, size = [], [], 0
    for gi, (prefix, terms) in enumerate(groups):
        if not terms:
            continue
        sz = len(prefix) + sum(len(x) for x in terms)
        if cur and size + sz > shard_bytes:
            shards.append(cur)
            cur, size = [], 0
        cur.append(gi)
        size += sz
    if cur:
        shards.append(cur)
    jobs = []
    for k, gis in enumerate(shards):
        parts = ['[\n ' + ';\n '.join(groups[gi][1]) + ']' for gi in gis]
        text = fw.HEADER + ''.join(f'From Verif Require Import {r}.\n' for r in ['Base.Flat'] + list(requires))
        text += ''.join(dict.fromkeys(groups[gi][0] for gi in gis))      # the definitions the groups refer to (once each)
        text += 'Eval vm_compute in (let l := (' + '\n ++ '.join(parts) + ')%list in (List.length l, mismatches (fun b : bool => b) 0 l)).\n'
        path = ctx.scratch / ('cases_' + re.sub(r'[^A-Za-z0-9_]', '_', name) + f'_{k}.v')
        path.write_text(text)
        jobs.append((gis, path))
    with ThreadPoolExecutor(max_workers=16) as ex:
        results = list(ex.map(lambda j: fw._run_shard(j[1]), jobs))
    bad = set()
    for (gis, path), (rc, out, err) in zip(jobs, results):
        if rc != 0:
            raise RuntimeError(f'coqc failed on {path.name}: {(out + err)[-1500:]}')
        parsed = fw.parse_mismatch_output(out)
        flat = [(gi, ti) for gi in gis for ti in range(len(groups[gi][1]))]
        if parsed is None or parsed[0] != len(flat):
            raise RuntimeError(f'{path.name}: unexpected kernel output {out[-300:]}')
        bad |= {flat[i] for i in parsed[1]}
        for ext in ('.v', '.vo', '.glob', '.vok', '.vos'):
            with contextlib.suppress(OSError):
                path.with_suffix(ext).unlink()
    return bad
