"""A toy simulator for the generic subprocess branch of MC_GeoPHIRES3.work_package (a Code_File that is none of the three
dedicated programs):  python mc_toy_sim.py <input file> <output file>
The input file holds 'name, value' lines (the last line of a name governs).  Two report lines are written; a 'Toy A' above
0.9 is rejected: non-zero exit, no output file."""
import sys

LIMIT = 0.9


def simulate(text):
    """input text -> report text, or None when the input is rejected"""
    vals = {}
    for ln in text.splitlines():
        p = ln.split(',')
        if len(p) >= 2 and not ln.lstrip().startswith(('#', '--', '*')):
            try:
                vals[p[0].strip()] = float(p[1])
            except ValueError:
                pass
    a, b = vals.get('Toy A', 0.5), vals.get('Toy B', 2.0)
    if a > LIMIT:
        return None
    return ('  ***TOY RESULTS***\n' f'      Toy Sum:       {a + b:10.4f} u\n' f'      Toy Product:   {a * b:10.4f} u2\n')


if __name__ == '__main__':
    with open(sys.argv[1]) as f:
        rep = simulate(f.read())
    if rep is None:
        sys.exit(3)
    with open(sys.argv[2], 'w') as f:
        f.write(rep)
