"""Configuration generator shared by the whole-run checks (DESIGN 2.4)."""
import glob
import os
from pathlib import Path

from . import framework as fw

SLOW_EXAMPLES = {'example_SBT_Hi_T.txt', 'example_SBT_Lo_T.txt', 'SUTRAExample1.txt', 'example12_DH.txt'}
NOT_OFFLINE = {'example6.txt', 'example7.txt', 'MC_Fervo_Norbeck_Latimer_2024.txt'}

ENDUSES = [1, 2, 31, 32, 41, 42, 51, 52]
# end-use x plant type cells that are meaningful (probed: the others crash or are rejected)
ELEC_PLANTS = [1, 2, 3, 4]
HEAT_PLANTS = [5, 6, 7, 9]


def example_files(ctx=None, slow=False):
    out = []
    for f in sorted(glob.glob(str(fw.REPO / 'tests' / 'examples' / '*.txt'))):
        b = os.path.basename(f)
        if b.startswith('Beckers') or b in NOT_OFFLINE:
            continue
        if b in SLOW_EXAMPLES and not slow:
            continue
        out.append(f)
    return out


def example_texts(ctx=None, slow=False):
    return [(os.path.basename(f), Path(f).read_text()) for f in example_files(ctx, slow)]


def dec(rnd, lo, hi, d=2):
    """random decimal with d digits in [lo, hi] (short decimals: exact as text and as Fraction)"""
    k = 10 ** d
    return rnd.randint(int(round(lo * k)), int(round(hi * k))) / k


def fmt(x):
    if isinstance(x, float):
        s = repr(x)
        return s
    return str(x)


def synthetic(rnd, enduse=None, plant=None, econ=None, resmodel=None, life=None, cy=None, tspy=None, **opts):
    """One synthetic, mostly-valid configuration as an ordered list of (name, value)."""
    enduse = enduse if enduse is not None else rnd.choice(ENDUSES)
    if plant is None:
        plant = rnd.choice(ELEC_PLANTS) if enduse != 2 else rnd.choice(HEAT_PLANTS)
    econ = econ if econ is not None else rnd.choice([1, 2, 3])
    resmodel = resmodel if resmodel is not None else rnd.choice([3, 4, 4])
    life = life if life is not None else rnd.choice([1, 2, 3, 5, 7, 10, 15, 20, 25, 30, 35])
    cy = cy if cy is not None else rnd.choice([1, 1, 1, 2, 3, 5])
    tspy = tspy if tspy is not None else rnd.choice([1, 2, 4, 4, 6, 12])
    p = []
    add = lambda k, v: p.append((k, fmt(v)))
    add('Reservoir Model', resmodel)
    if resmodel == 4:
        add('Drawdown Parameter', dec(rnd, 0.001, 0.02, 4))
    if resmodel == 3:
        add('Drawdown Parameter', dec(rnd, 0.00002, 0.0002, 6))
    if resmodel in (1, 2):
        add('Fracture Shape', rnd.choice([1, 2, 3, 4]))
        add('Fracture Height', dec(rnd, 300, 1200, 0))
        add('Fracture Width', dec(rnd, 300, 1200, 0))
        add('Number of Fractures', rnd.randint(5, 40))
        add('Fracture Separation', dec(rnd, 30, 120, 0))
        add('Reservoir Volume Option', 1)
    else:
        add('Reservoir Volume Option', 4)
        add('Reservoir Volume', rnd.choice(['5e8', '1e9', '2e9']))
    nseg = opts.get('nseg', rnd.choice([1, 1, 1, 2, 3, 4]))
    add('Number of Segments', nseg)
    for i in range(1, nseg + 1):
        add(f'Gradient {i}', dec(rnd, 30, 85, 1))
        if i < nseg:
            add(f'Thickness {i}', dec(rnd, 0.4, 1.6, 2))
    hot = enduse != 2 or plant in (5,)
    add('Reservoir Depth', dec(rnd, 2.2 if hot else 1.2, 4.5, 2))
    add('Maximum Temperature', dec(rnd, 180, 500, 0) if rnd.random() < 0.8 else dec(rnd, 120, 180, 0))
    add('Number of Production Wells', rnd.randint(1, 4))
    add('Number of Injection Wells', rnd.randint(1, 4))
    add('Production Well Diameter', dec(rnd, 6, 10, 2))
    add('Injection Well Diameter', dec(rnd, 6, 10, 2))
    ramey = rnd.random() < 0.5
    add('Ramey Production Wellbore Model', int(ramey))
    if not ramey:
        add('Production Wellbore Temperature Drop', dec(rnd, 0, 5, 1))
    add('Injection Wellbore Temperature Gain', dec(rnd, 0, 3, 1))
    add('Production Flow Rate per Well', dec(rnd, 25, 90, 1))
    add('Water Loss Fraction', dec(rnd, 0, 0.1, 2))
    impedance = rnd.random() < 0.5 and plant not in (3, 4)
    if impedance:
        add('Reservoir Impedance', dec(rnd, 0.02, 0.2, 3))
    else:
        add('Productivity Index', dec(rnd, 3, 15, 1))
        add('Injectivity Index', dec(rnd, 3, 15, 1))
    add('Injection Temperature', dec(rnd, 35, 75, 1))
    add('Maximum Drawdown', rnd.choice([1, 1, dec(rnd, 0.05, 0.6, 2)]))
    add('Reservoir Heat Capacity', dec(rnd, 800, 1200, 0))
    add('Reservoir Density', dec(rnd, 2400, 3000, 0))
    add('Reservoir Thermal Conductivity', dec(rnd, 2, 3.5, 1))
    add('End-Use Option', enduse)
    add('Power Plant Type', plant)
    if enduse in (31, 32, 41, 42, 51, 52):
        if enduse in (41, 42):
            add('CHP Bottoming Entering Temperature', dec(rnd, 100, 150, 0))
        if enduse in (51, 52):
            add('CHP Fraction', dec(rnd, 0.2, 0.8, 2))
    add('Circulation Pump Efficiency', dec(rnd, 0.6, 0.9, 2))
    add('Utilization Factor', dec(rnd, 0.7, 0.95, 2))
    add('End-Use Efficiency Factor', dec(rnd, 0.7, 0.95, 2))
    add('Surface Temperature', dec(rnd, 5, 25, 0))
    add('Ambient Temperature', dec(rnd, 5, 25, 0))
    add('Plant Lifetime', life)
    add('Construction Years', cy)
    add('Time steps per year', tspy)
    add('Economic Model', econ)
    if econ == 1:
        add('Fixed Charge Rate', dec(rnd, 0.03, 0.12, 3))
    if econ == 2:
        add('Discount Rate', dec(rnd, 0.03, 0.12, 3))
    if econ == 3:
        add('Fraction of Investment in Bonds', dec(rnd, 0.3, 0.8, 2))
        add('Inflated Bond Interest Rate', dec(rnd, 0.03, 0.09, 3))
        add('Inflated Equity Interest Rate', dec(rnd, 0.06, 0.15, 3))
        add('Inflation Rate', dec(rnd, 0.01, 0.04, 3))
        add('Combined Income Tax Rate', dec(rnd, 0.1, 0.4, 3))
        add('Gross Revenue Tax Rate', dec(rnd, 0, 0.05, 3))
        add('Property Tax Rate', dec(rnd, 0, 0.02, 3))
    add('Inflation Rate During Construction', dec(rnd, 0, 0.08, 3))
    add('Electricity Rate', dec(rnd, 0.04, 0.12, 3))
    add('Well Drilling Cost Correlation', rnd.randint(1, 17))
    # cost components: adjustment factor vs user-fixed
    for fixed, adj, lo, hi in [
        ('Well Drilling and Completion Capital Cost', 'Well Drilling and Completion Capital Cost Adjustment Factor', 2, 12),
        ('Reservoir Stimulation Capital Cost', 'Reservoir Stimulation Capital Cost Adjustment Factor', 0.5, 5),
        ('Surface Plant Capital Cost', 'Surface Plant Capital Cost Adjustment Factor', 5, 60),
        ('Field Gathering System Capital Cost', 'Field Gathering System Capital Cost Adjustment Factor', 0.5, 5),
        ('Exploration Capital Cost', 'Exploration Capital Cost Adjustment Factor', 1, 6),
        ('Wellfield O&M Cost', 'Wellfield O&M Cost Adjustment Factor', 0.1, 1.5),
        ('Surface Plant O&M Cost', 'Surface Plant O&M Cost Adjustment Factor', 0.1, 2.5),
        ('Water Cost', 'Water Cost Adjustment Factor', 0.01, 0.3),
    ]:
        r = rnd.random()
        if r < 0.25:
            add(fixed, dec(rnd, lo, hi, 2))
        elif r < 0.7:
            add(adj, dec(rnd, 0.5, 2.5, 2))
    if rnd.random() < 0.12:
        add('Total Capital Cost', dec(rnd, 20, 150, 1))
    if rnd.random() < 0.12:
        add('Total O&M Cost', dec(rnd, 0.5, 6, 2))
    if rnd.random() < 0.3:
        add('Injection Well Drilling and Completion Capital Cost Adjustment Factor', dec(rnd, 0.5, 2, 2))
    if rnd.random() < 0.3:
        add('Surface Piping Length', dec(rnd, 0.5, 5, 1))
    # incentives
    if rnd.random() < 0.4:
        add('Investment Tax Credit Rate', dec(rnd, 0.05, 0.4, 2))
    if rnd.random() < 0.3:
        add('One-time Grants Etc', dec(rnd, 0.5, 8, 2))
    if rnd.random() < 0.25:
        add('One-time Flat License Fees Etc', dec(rnd, 0.1, 3, 2))
    if rnd.random() < 0.25:
        add('Other Incentives', dec(rnd, 0.1, 3, 2))
    if rnd.random() < 0.25:
        add('Annual License Fees Etc', dec(rnd, 0.05, 0.5, 2))
    if rnd.random() < 0.25:
        add('Tax Relief Per Year', dec(rnd, 0.05, 0.5, 2))
    # prices
    for prod in ('Electricity', 'Heat', 'Cooling'):
        if rnd.random() < 0.6:
            s = dec(rnd, 0.02, 0.12, 3)
            add(f'Starting {prod} Sale Price', s)
            add(f'Ending {prod} Sale Price', dec(rnd, 0.02, 0.2, 3))
            add(f'{prod} Escalation Start Year', rnd.randint(0, life + 1))
            add(f'{prod} Escalation Rate Per Year', dec(rnd, 0, 0.01, 4))
    if rnd.random() < 0.35:
        add('Production Tax Credit Electricity', dec(rnd, 0.01, 0.05, 3))
        add('Production Tax Credit Duration', rnd.randint(0, life))
        add('Production Tax Credit Inflation Adjusted', rnd.choice(['True', 'False']))
        if econ != 3:
            add('Inflation Rate', dec(rnd, 0.01, 0.04, 3))
    if rnd.random() < 0.25:
        add('Production Tax Credit Heat', dec(rnd, 0.5, 5, 2))
        if not any(k == 'Production Tax Credit Duration' for k, _ in p):
            add('Production Tax Credit Duration', rnd.randint(0, life))
    if rnd.random() < 0.3:
        add('Do Carbon Price Calculations', 'True')
        add('Starting Carbon Credit Value', dec(rnd, 0.005, 0.05, 3))
        add('Ending Carbon Credit Value', dec(rnd, 0.05, 0.2, 3))
        add('Carbon Escalation Start Year', rnd.randint(0, life))
        add('Carbon Escalation Rate Per Year', dec(rnd, 0.001, 0.01, 3))
    if rnd.random() < 0.3:
        add('Discount Initial Year Cashflow', rnd.choice(['True', 'False']))
    if rnd.random() < 0.5:
        add('Fixed Internal Rate', dec(rnd, 3, 12, 1))
    if enduse != 1 and enduse != 2 and rnd.random() < 0.4:
        add('CHP Electrical Plant Cost Allocation Ratio', dec(rnd, 0.2, 0.8, 2))
    if plant == 5:
        add('Absorption Chiller COP', dec(rnd, 0.5, 0.9, 2))
        if rnd.random() < 0.4:
            add('Absorption Chiller Capital Cost', dec(rnd, 1, 8, 2))
        if rnd.random() < 0.3:
            add('Absorption Chiller O&M Cost', dec(rnd, 0.05, 0.5, 2))
    if plant == 6:
        add('Heat Pump COP', dec(rnd, 2, 5, 1))
        if rnd.random() < 0.4:
            add('Heat Pump Capital Cost', dec(rnd, 1, 8, 2))
    if plant == 7:
        add('District Heating Demand Option', 1)
        add('District Heating Demand File Name', 'Examples/cornell_heat_demand.csv')
        add('District Heating Demand Data Time Resolution', 1)
        add('District Heating Demand Data Column Number', 2)
        add('Peaking Fuel Cost Rate', dec(rnd, 0.02, 0.05, 4))
        add('Peaking Boiler Efficiency', dec(rnd, 0.7, 0.95, 2))
        add('District Heating Piping Cost Rate', dec(rnd, 800, 1600, 0))
        how = rnd.choice(['total', 'piping', 'road', 'population', 'units', 'default'])
        if how == 'total':
            add('Total District Heating Network Cost', dec(rnd, 2, 20, 1))
        elif how == 'piping':
            add('District Heating Network Piping Length', dec(rnd, 2, 20, 1))
        elif how == 'road':
            add('District Heating Road Length', dec(rnd, 2, 20, 1))
        elif how == 'population':
            add('District Heating Land Area', dec(rnd, 2, 30, 1))
            add('District Heating Population', rnd.randint(500, 60000))
        elif how == 'units':
            add('District Heating Land Area', dec(rnd, 2, 30, 1))
            add('Number of Housing Units', rnd.randint(300, 20000))
        if rnd.random() < 0.3:
            add('District Heating O&M Cost', dec(rnd, 0.1, 2, 2))
    # (the report writer crashes on an overpressure profile under the impedance model: not an accepted input)
    if opts.get('overpressure', rnd.random() < 0.2) and not impedance:
        add('Overpressure Percentage', dec(rnd, 100, 180, 0))
        add('Overpressure Depletion Rate', dec(rnd, 0.5, 8, 1))
        add('Injection Reservoir Initial Pressure', dec(rnd, 5000, 20000, 0))
        add('Injection Reservoir Inflation Rate', dec(rnd, 50, 800, 0))
    # (the add-on report writer crashes unless there is exactly one construction year: not an accepted input)
    # (with more than one construction year the add-on report writer of the pinned tree aborts: only with addons_any_cy=True)
    if opts.get('addons', rnd.random() < 0.25) and (cy == 1 or opts.get('addons_any_cy')):
        n = rnd.randint(1, 3)
        for i in range(1, n + 1):
            add(f'AddOn Nickname {i}', f'addon{i}')
            add(f'AddOn CAPEX {i}', dec(rnd, 1, 30, 1))
            add(f'AddOn OPEX {i}', dec(rnd, 0.1, 2, 2))
            add(f'AddOn Electricity Gained {i}', dec(rnd, 1000, 90000, 0))
            add(f'AddOn Heat Gained {i}', dec(rnd, 0, 50000, 0))
            add(f'AddOn Profit Gained {i}', dec(rnd, 0, 3, 2))
    add('Print Output to Console', 0)
    return p


def grid(ctx, n_random, cover_cells=True, resmodels=(3, 4), **kw):
    """Configurations covering every (economic model x end-use x plant) cell once, then random ones."""
    rnd = ctx.rng
    out = []
    if cover_cells:
        for econ in (1, 2, 3):
            for eu in ENDUSES:
                plants = ELEC_PLANTS if eu != 2 else HEAT_PLANTS
                for pl in plants:
                    if pl == 7 and ctx.quick and econ != 1:
                        continue  # district heating runs cost 4 s each
                    out.append(synthetic(rnd, enduse=eu, plant=pl, econ=econ, resmodel=rnd.choice(resmodels), **kw))
    for _ in range(n_random):
        eu = rnd.choice(ENDUSES)
        pl = rnd.choice(ELEC_PLANTS if eu != 2 else [5, 6, 9, 9] + ([] if ctx.quick else [7]))
        out.append(synthetic(rnd, enduse=eu, plant=pl, resmodel=rnd.choice(resmodels), **kw))
    return out
