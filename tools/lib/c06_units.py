"""C06 helpers: discovery of every parameter / unit catalogue / pint meaning from the CURRENT source tree, and the
stub-model calls of the real reader functions.  Used by tools/gen/unit_catalogue.py and tools/props/C06.py."""
import ast
import copy
import enum
import importlib
import inspect
import io
import logging
import pkgutil
import sys
from fractions import Fraction

from . import framework as fw

ENTRY_POINTS = {'GEOPHIRESv3', 'MC_GeoPHIRES3', 'GeoPHIRESUtils'}
CURRENCY_TYPES = ('CURRENCY', 'CURRENCYFREQUENCY', 'COSTPERMASS', 'ENERGYCOST')   # the list literal in ConvertUnits
EXTRA_UNITS = ['', 'percent', 'm', 'km', 'K', 'kelvin', 'cm', 'feet', 'g/cm**3', 'kg/s']   # non-catalogue spellings

# error codes shared with coq/Model/UnitReader.v
E_VALUE, E_INIT, E_UNDEF, E_CONV, E_FOREX, E_ATTR, E_DIM, E_FLOAT, E_OTHER = 3, 10, 11, 12, 13, 14, 15, 17, 98


class StubModel:
    logger = logging.getLogger('c06-stub')
    InputParameters = {}


def modules():
    logging.disable(logging.CRITICAL)
    import geophires_x.Model  # noqa: F401  (circular import: Model first)
    import geophires_x
    from geophires_x import Parameter, Units
    return geophires_x, Parameter, Units


def discover_objects():
    """Every class of the geophires_x package that takes (model) and owns a ParameterDict, instantiated on a stub."""
    gx, P, U = modules()
    out = {}
    for m in pkgutil.iter_modules(gx.__path__):
        if m.name.startswith('__') or m.name in ENTRY_POINTS:
            continue
        mod = importlib.import_module('geophires_x.' + m.name)
        for n, c in inspect.getmembers(mod, inspect.isclass):
            if c.__module__ != mod.__name__:
                continue
            try:
                params = list(inspect.signature(c.__init__).parameters)
            except (TypeError, ValueError):
                continue
            if params[1:2] != ['model']:
                continue
            old = sys.stdout
            sys.stdout = io.StringIO()
            try:
                o = c(StubModel())
            except Exception:
                continue
            finally:
                sys.stdout = old
            if hasattr(o, 'ParameterDict'):
                out[n] = o
    if len(out) < 20:
        raise RuntimeError(f'only {len(out)} parameter-owning classes discovered')
    from hip_ra_x.hip_ra_x import HIP_RA_X          # HIP-RA-X reads its inputs through the same ReadParameter
    out['HIP_RA_X'] = _quiet(lambda: HIP_RA_X(enable_hip_ra_logging_config=False))
    return out


def uval(u):
    """text of a unit reference as the code sees it: ('E', value) enum member, ('S', str) bare string, ('N','') None"""
    if u is None:
        return ('N', '')
    if isinstance(u, enum.Enum):
        return ('E', str(u.value))
    return ('S', str(u))


def scalar_params(objs):
    """-> list of dict rows, one per (class, key) scalar parameter that carries a unit enum."""
    gx, P, U = modules()
    rows = []
    for cname, o in sorted(objs.items()):
        for key, p in o.ParameterDict.items():
            if not isinstance(p, (P.floatParameter, P.intParameter)):
                continue
            if not isinstance(p.PreferredUnits, enum.Enum) or isinstance(p.PreferredUnits, U.Units):
                continue
            if p.UnitType == U.Units.NONE:
                continue
            rows.append({'cls': cname, 'key': key, 'name': p.Name, 'kind': 'int' if isinstance(p, P.intParameter) else 'float',
                         'utype': p.UnitType.name, 'currency': p.UnitType.name in CURRENCY_TYPES,
                         'enum': type(p.PreferredUnits).__name__, 'units': [str(m.value) for m in type(p.PreferredUnits)],
                         'pref': str(p.PreferredUnits.value), 'cur': uval(p.CurrentUnits), 'param': p})
    return rows


def list_params(objs):
    """one-line list parameters that go through ReadParameter (Name without a space: 'Gradients', 'Thicknesses')"""
    gx, P, U = modules()
    rows, seen = [], set()
    for cname, o in sorted(objs.items()):
        for key, p in o.ParameterDict.items():
            if isinstance(p, P.listParameter) and ' ' not in p.Name and isinstance(p.PreferredUnits, enum.Enum) \
                    and not isinstance(p.PreferredUnits, U.Units) and p.Name not in seen:
                seen.add(p.Name)
                rows.append({'cls': cname, 'key': key, 'name': p.Name, 'kind': 'list', 'utype': p.UnitType.name,
                             'currency': p.UnitType.name in CURRENCY_TYPES, 'enum': type(p.PreferredUnits).__name__,
                             'units': [str(m.value) for m in type(p.PreferredUnits)], 'pref': str(p.PreferredUnits.value),
                             'cur': uval(p.CurrentUnits), 'param': p})
    return rows


def output_params(objs):
    gx, P, U = modules()
    rows = []
    for cname, o in sorted(objs.items()):
        for key, p in getattr(o, 'OutputParameterDict', {}).items():
            if not isinstance(p, P.OutputParameter) or not isinstance(p.PreferredUnits, enum.Enum) or isinstance(p.PreferredUnits, U.Units):
                continue
            rows.append({'cls': cname, 'key': key, 'name': p.Name, 'utype': p.UnitType.name, 'enum': type(p.PreferredUnits).__name__,
                         'units': [str(m.value) for m in type(p.PreferredUnits)], 'pref': str(p.PreferredUnits.value),
                         'cur': uval(p.CurrentUnits), 'param': p})
    return rows


def scan_order():
    """The (enum class, is-currency, values) list in the order LookupUnits scans it - from the if-chain in the source
    (fail-closed on an unrecognised construct) and the iteration order of Units."""
    gx, P, U = modules()
    tree = ast.parse((fw.SRC / 'geophires_x' / 'Parameter.py').read_text())
    fn = [n for n in tree.body if isinstance(n, ast.FunctionDef) and n.name == 'LookupUnits']
    if len(fn) != 1:
        raise RuntimeError('LookupUnits not found')
    mapping = {}
    for node in ast.walk(fn[0]):
        if isinstance(node, ast.If) and isinstance(node.test, ast.Compare) and isinstance(node.test.left, ast.Name) \
                and node.test.left.id == 'uType':
            t = node.test
            ok = (len(t.ops) == 1 and isinstance(t.ops[0], ast.Eq) and isinstance(t.comparators[0], ast.Attribute)
                  and isinstance(t.comparators[0].value, ast.Name) and t.comparators[0].value.id == 'Units'
                  and len(node.body) == 1 and isinstance(node.body[0], ast.Assign)
                  and (isinstance(node.body[0].value, ast.Name) or
                       (isinstance(node.body[0].value, ast.Constant) and node.body[0].value.value is None))
                  and node.body[0].targets[0].id == 'MyEnum')
            if not ok:
                raise RuntimeError('LookupUnits: unrecognised branch ' + ast.dump(node.test)[:200])
            ut = t.comparators[0].attr
            if ut not in mapping:      # an elif chain: the first test that matches wins
                mapping[ut] = getattr(node.body[0].value, 'id', None)
    if len(mapping) < 20:
        raise RuntimeError('LookupUnits: unit-type chain not recognised')
    out = []
    for ut in U.Units:
        if mapping.get(ut.name) is not None:
            E = getattr(U, mapping[ut.name])
            out.append((mapping[ut.name], ut.name in CURRENCY_TYPES, [str(m.value) for m in E]))
    return out


def nice_fraction(x):
    """a small exact rational within 1e-13 (relative) of the float the registry holds"""
    f = Fraction(x)
    d = Fraction(repr(float(x)))
    if d.denominator <= 10 ** 12:
        return d
    g = f.limit_denominator(10 ** 9)
    if g == f or (f != 0 and abs(g - f) <= abs(f) * Fraction(1, 10 ** 13)):
        return g
    g = f.limit_denominator(10 ** 18)
    if f != 0 and abs(g - f) <= abs(f) * Fraction(1, 10 ** 13):
        return g
    return f


def pint_meaning(texts):
    """text -> None | dict(canon, dim, fac, off): what the program's own registry says the unit means.
    base = fac * x + off (in the registry's base units)."""
    gx, P, U = modules()
    ureg = U.get_unit_registry()
    out = {}
    N = 2 ** 20
    for s in texts:
        try:
            q0 = ureg.Quantity(0.0, s)
            b0 = q0.to_base_units().magnitude
            if b0 == 0:
                fac = ureg.Quantity(1.0, s).to_base_units().magnitude
            else:   # offset unit: slope measured over a long interval so the cancellation error stays below 1e-15
                fac = (ureg.Quantity(float(N), s).to_base_units().magnitude - b0) / N
            out[s] = {'canon': str(q0.units), 'dim': str(q0.dimensionality), 'fac': nice_fraction(fac), 'off': nice_fraction(b0)}
            if out[s]['fac'] == 0:
                raise ValueError('zero factor')
        except Exception:
            out[s] = None
    return out


def symbol_table(start, scan):
    """closure of registry.get_symbol over the texts LookupUnits can be asked about: text -> ('S', symbol) | ('R',)"""
    gx, P, U = modules()
    ureg = U.get_unit_registry()
    known = {v for _, _, vals in scan for v in vals}
    tbl, todo = {}, list(start)
    while todo:
        s = todo.pop()
        if s in tbl or s in known:
            continue
        try:
            sym = ureg.get_symbol(s)
            tbl[s] = ('S', sym)
            todo.append(sym)
        except Exception:
            tbl[s] = ('R',)
    return tbl


def lookup_real(text):
    """real LookupUnits -> ('E', value, enumclass) | ('N',) | ('R', exception name)"""
    gx, P, U = modules()
    try:
        item, ut = P.LookupUnits(text)
    except Exception as e:
        return ('R', type(e).__name__)
    if item is None:
        return ('N',)
    return ('E', str(item.value), type(item).__name__)


def cc_table(texts):
    from forex_python.converter import CurrencyCodes
    cc = CurrencyCodes()
    return {t: cc.get_symbol(t) is not None for t in texts}


def collect():
    """Everything the generator and the harness need, computed from the current tree."""
    objs = discover_objects()
    params = scalar_params(objs)
    outs = output_params(objs)
    lists = list_params(objs)
    scan_error = None
    try:
        scan = scan_order()
    except Exception as e:       # the Coq side is fail-closed (generator raises); the python search can still judge the reader
        scan, scan_error = [], f'{type(e).__name__}: {e}'
    texts = set(EXTRA_UNITS)
    for _, _, vals in scan:
        texts.update(vals)
    for r in params + outs + lists:
        texts.update(r['units'])
        texts.add(r['pref'])
        texts.add(r['cur'][1])
    pm = pint_meaning(sorted(texts))
    canon = {m['canon'] for m in pm.values() if m}
    sym = symbol_table(sorted(texts | canon), scan)
    heads = set()
    for t in texts:
        h = t.split('/')[0]
        heads.add(h[1:])
        heads.add(h)
    return {'scan_error': scan_error, 'objs': objs, 'lists': lists, 'params': params, 'outs': outs, 'scan': scan, 'pint': pm, 'sym': sym,
            'cc': cc_table(sorted(heads)), 'texts': sorted(texts), 'canon': sorted(canon)}


# ---- real reader calls on a stub model --------------------------------------------------------------------------

def err_code(e):
    n, msg = type(e).__name__, str(e)
    if n == 'UndefinedUnitError':
        return E_UNDEF
    if n == 'RuntimeError':
        if 'failed to initialize' in msg:
            return E_INIT
        if 'failed to convert your units' in msg:
            return E_CONV
        if 'failed to convert your currency' in msg:
            return E_FOREX
    if n == 'ValueError' and 'outside of valid range' in msg:
        return E_VALUE
    if n == 'ValueError' and 'could not convert string to float' in msg:
        return E_FLOAT
    if n == 'AttributeError':
        return E_ATTR
    if n == 'DimensionalityError':
        return E_DIM
    return E_OTHER


def _quiet(fn):
    old = sys.stdout
    sys.stdout = io.StringIO()
    try:
        return fn()
    finally:
        sys.stdout = old


def real_read(param, svalue):
    """ReadParameter on a deep copy -> dict(status 'ok'|'err', code, exc, value, cur, provided)"""
    gx, P, U = modules()
    p = copy.deepcopy(param)
    entry = P.ParameterEntry(Name=p.Name, sValue=svalue, raw_entry=f'{p.Name}, {svalue}')
    try:
        _quiet(lambda: P.ReadParameter(entry, p, StubModel()))
    except Exception as e:
        return {'status': 'err', 'code': err_code(e), 'exc': f'{type(e).__name__}: {str(e)[:160]}', 'p': p}
    return {'status': 'ok', 'value': p.value, 'cur': uval(p.CurrentUnits), 'provided': bool(p.Provided), 'p': p}


def real_read_list(param, svalue, raw_entry):
    """ReadParameter on a one-line list parameter -> dict(status, code | vals, cur)"""
    gx, P, U = modules()
    p = copy.deepcopy(param)
    entry = P.ParameterEntry(Name=p.Name, sValue=svalue, raw_entry=raw_entry)
    try:
        _quiet(lambda: P.ReadParameter(entry, p, StubModel()))
    except Exception as e:
        return {'status': 'err', 'code': err_code(e), 'exc': f'{type(e).__name__}: {str(e)[:160]}'}
    return {'status': 'ok', 'vals': [Fraction(float(v)) for v in p.value], 'cur': uval(p.CurrentUnits)}


def real_back(p):
    """ConvertUnitsBack on a deep copy (the caller applies the UnitsMatch guard of Outputs._convert_units)."""
    gx, P, U = modules()
    q = copy.deepcopy(p)
    try:
        _quiet(lambda: P.ConvertUnitsBack(q, StubModel()))
    except Exception as e:
        return {'status': 'err', 'code': err_code(e), 'exc': f'{type(e).__name__}: {str(e)[:160]}'}
    return {'status': 'ok', 'value': q.value, 'cur': uval(q.CurrentUnits)}


def real_output_units(oparam, values, new_text):
    """Outputs.read_parameters' LookupUnits(text)[0] followed by Outputs._convert_units' guard + ConvertOutputUnits."""
    gx, P, U = modules()
    o = copy.deepcopy(oparam)
    o.value = values
    try:
        new = P.LookupUnits(new_text)[0]
        if new != o.CurrentUnits:
            _quiet(lambda: P.ConvertOutputUnits(o, new, StubModel()))
    except Exception as e:
        return {'status': 'err', 'code': err_code(e), 'exc': f'{type(e).__name__}: {str(e)[:160]}'}
    return {'status': 'ok', 'value': o.value, 'cur': uval(o.CurrentUnits)}
