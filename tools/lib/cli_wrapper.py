"""Runs `python -m geophires_x <args>` unchanged except that logging.config.fileConfig is a no-op: the stock
logging.conf opens all_messages_conf.log relative to the package directory, i.e. inside the repository under test,
and checks never write there.  Used by tools/props/C20.py as  python -B cli_wrapper.py <input> [<output>]."""
import logging.config
import runpy
import sys

logging.config.fileConfig = lambda *a, **k: None
runpy.run_module('geophires_x', run_name='__main__', alter_sys=True)
