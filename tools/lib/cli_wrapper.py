"""Runs `python -m geophires_x <args>` (or, with a first argument --module=<name>, `python -m <name> <args>`) unchanged
except that logging.config.fileConfig is a no-op: the stock logging.conf opens all_messages_conf.log relative to the
package directory, i.e. inside the repository under test, and checks never write there.
Used by tools/props/C20.py as  python -B cli_wrapper.py [--module=hip_ra_x.hip_ra_x] <input> [<output>]."""
import logging.config
import runpy
import sys

logging.config.fileConfig = lambda *a, **k: None
module = 'geophires_x'
if len(sys.argv) > 1 and sys.argv[1].startswith('--module='):
    module = sys.argv.pop(1)[len('--module='):]
runpy.run_module(module, run_name='__main__', alter_sys=True)
