"""C08 worker: executes sessions (one session = one history of operations = one fresh process) against the real
GeophiresXClient / geophires_x.__main__ and records what a caller can observe around every operation.

    python -B c08_worker.py jobs.json      (PYTHONPATH=<repo>/src, PYTHONHASHSEED given by the parent)

jobs.json = [job,...]; the packages are imported once, then every job runs in its own forked child (process state
after import = that of a fresh interpreter), which writes job['out'].
job = {dirs: [abs dir,...], paths: [abs input path,...], files: {id: abs path} (further files, e.g. the targets of the
       relative names), rel: {id: relative path string} (request paths given RELATIVE, exactly as written here),
       contents: [text,...], cwd: dir index, argv: [token,...], ops: [[kind, ...],...], tmp: dir, out: file}
ops:  ["newclient", caching] ["get", ci, p] ["getdict", ci, p, c] ["write", p, c] ["delete", p]
      ["chdir", d] ["setargv", [token,...]] ["cli", p] ["getmix", ci, p, q, [[name, value],...], c]
      ["hip", k, p]   (k = 1: HipRaXClient, 2: HipRaClient; ONE client object per program for the whole session - a client
                       that kept results between requests would show - and a new HipRaInputParameters per request)
      ["mc", prog, q, n, [[name, distribution, a, b],...], [p1..pn], c]   n Monte-Carlo iterations on base file q:
            geophires_monte_carlo.MC_GeoPHIRES3.work_package called directly (what a pool worker executes); prog
            "g" | 1 | 2 selects the embedded client.  Each iteration writes its own input file (path p_j, content c =
            base text + sampled lines), runs it through a NEW client and deletes it; the client class is replaced by
            a recording subclass, so cwd/argv around the embedded call and the result it returned are observed.
A "getdict" builds GeophiresInputParameters(<dict of content c>): the client library creates its own uuid-named
file, which becomes path p of the session (the model sees Write p c; Get ci p).  A "getmix" builds
GeophiresInputParameters(from_file_path=<path q>, params=<overrides>): the library's file (path p) holds the base
file's text followed by the overrides = content c.  Both are requested through the object the library built.
"""
import hashlib
import io
import json
import logging
import logging.config
import os
import re
import runpy
import sys
import tempfile
import traceback

MASK = re.compile(r'^(\s*(?:Simulation Date|Simulation Time|Calculation Time)\s*:).*$', re.M)


def sha(s):
    return hashlib.sha256(s.encode('utf-8', 'replace')).hexdigest()[:20]


def digest_result(res):
    d = {k: v for k, v in res.result.items() if k != 'metadata'}
    d['metadata'] = {k: v for k, v in res.result.get('metadata', {}).items() if k != 'output_file_path'}
    return sha(json.dumps(d, sort_keys=True, default=str))


def digest_files(out_path):
    rep = js = None
    try:
        rep = sha(MASK.sub(r'\1 <masked>', open(out_path, encoding='UTF-8').read()))
        jp = os.path.splitext(str(out_path))[0] + '.json'
        js = sha(json.dumps(json.load(open(jp, encoding='UTF-8')), sort_keys=True))
    except OSError:
        pass
    return rep, js


def run_session(job):
    from geophires_x_client import GeophiresXClient, GeophiresInputParameters, GeophiresXResult
    from geophires_x import GEOPHIRESv3
    from pathlib import Path
    os.environ['TMPDIR'] = job['tmp']
    tempfile.tempdir = job['tmp']
    import hip_ra
    import hip_ra_x
    src_dir = os.path.realpath(os.path.dirname(GEOPHIRESv3.__file__))
    pkg_dirs = {os.path.realpath(os.path.dirname(hip_ra_x.__file__)): 1, os.path.realpath(os.path.dirname(hip_ra.__file__)): 2}
    dirs, contents = job['dirs'], job['contents']
    paths = dict(enumerate(job['paths']))                       # id -> absolute path
    paths.update({int(k): v for k, v in job.get('files', {}).items()})
    rel = {int(k): v for k, v in job.get('rel', {}).items()}    # id -> relative request path

    def req_path(p):
        return Path(rel[p]) if p in rel else Path(paths[p])
    for d in dirs + [job['tmp']]:
        os.makedirs(d, exist_ok=True)

    def out_of(p):
        return str(GeophiresInputParameters(from_file_path=req_path(p)).get_output_file_path())

    def enc_dir(d):
        d = os.path.realpath(d)
        if d == src_dir:
            return ['S']
        if d in pkg_dirs:
            return ['P', pkg_dirs[d]]
        for i, x in enumerate(dirs):
            if os.path.realpath(x) == d:
                return ['D', i]
        return ['D', 999]

    def enc_argv(av):
        out = []
        for a in av:
            s = str(a)
            m = re.fullmatch(r'u(\d+)', s)
            if s == '':
                out.append(['E'])
            elif m:
                out.append(['U', int(m.group(1))])
            elif s in rel.values() or s in paths.values():
                out.append(['I', [i for i, v in list(rel.items()) + list(paths.items()) if v == s][0]])
            elif os.path.basename(s).startswith('hip-ra-result_'):
                out.append(['H'])
            else:
                hit = [i for i in list(rel) + list(paths) if out_of(i) == s]
                out.append(['O', hit[0]] if hit else ['U', 999])
        return out

    def run_mc(op):
        import argparse
        import geophires_monte_carlo.MC_GeoPHIRES3 as MC
        prog, q, n, input_values, new_ids = op[1], op[2], op[3], op[4], op[5]
        recs = []

        def recording(cls, method, digest):
            """wrap the method ON the class for the duration of the work packages: also a client object that the
            driver keeps between calls is observed"""
            orig = getattr(cls, method)

            def call(self, ip):
                pre, o = (os.getcwd(), list(sys.argv)), None
                try:
                    r = orig(self, ip)
                    o = digest(r)
                    return r
                except BaseException as e:  # noqa
                    o = ['raised', type(e).__name__, str(e)[:200]]
                    raise
                finally:
                    recs.append({'pre': pre, 'post': (os.getcwd(), list(sys.argv)), 'out': o, 'path': str(ip.as_file_path())})
            setattr(cls, method, call)
            return cls, method, orig

        def hip_digest(r):
            text = open(r.output_file_path, encoding='UTF-8').read()
            return ['ret', sha(json.dumps(r.result, sort_keys=True, default=str)), False, sha(MASK.sub(r'\1 <masked>', text)), None]

        saved = [recording(MC.GeophiresXClient, 'get_geophires_result',
                           lambda r: ['ret', digest_result(r), False, *digest_files(r.output_file_path)]),
                 recording(MC.HipRaXClient, 'get_hip_ra_result', hip_digest),
                 recording(MC.HipRaClient, 'get_hip_ra_result', hip_digest)]
        args = argparse.Namespace(Input_file=paths[q], Code_File={'g': 'GEOPHIRESv3.py', 1: 'hip_ra_x.py', 2: 'HIP_RA.py'}[prog])
        outputs = ['Average Net Electricity Production'] if prog == 'g' else ['Reservoir Volume (reservoir)']
        try:
            for j in range(n):
                before = len(recs)
                try:
                    MC.work_package([input_values, outputs, args, os.path.join(job['tmp'], 'mc_result.txt'), '', sys.executable])
                except BaseException as e:  # noqa  (a failing embedded run aborts the work package)
                    if len(recs) == before:
                        recs.append({'pre': (os.getcwd(), list(sys.argv)), 'post': (os.getcwd(), list(sys.argv)), 'path': '',
                                     'out': ['raised', type(e).__name__, 'before the embedded client was called: ' + str(e)[:150]]})
                assert len(recs) == before + 1, 'a work package must make exactly one client call'
        finally:
            for cls, method, orig in saved:
                setattr(cls, method, orig)
        for rec, pid in zip(recs, new_ids):
            paths[pid] = rec['path']
        return [{'cb': enc_dir(r['pre'][0]), 'ab': enc_argv(r['pre'][1]), 'ca': enc_dir(r['post'][0]), 'aa': enc_argv(r['post'][1]),
                 'cwd_after': r['post'][0], 'argv_after': [str(a) for a in r['post'][1]], 'out': r['out']} for r in recs]

    os.chdir(dirs[job['cwd']])
    sys.argv = list(job['argv'])
    clients, results, obs, hip_clients = [], [], [], {}
    real_stdout = sys.stdout
    for op in job['ops']:
        kind = op[0]
        out = ['done']
        sys.stdout = io.StringIO()
        try:
            if kind == 'cli':   # the harness prepares argv; "before" is taken after that
                sys.argv = ['u0', str(req_path(op[1])), out_of(op[1])]
            ip = None
            if kind in ('getdict', 'getmix'):   # the library writes the request file itself
                if kind == 'getdict':
                    want = contents[op[3]]
                    ip = GeophiresInputParameters(dict(ln.split(', ', 1) for ln in want.splitlines()))
                else:
                    want = contents[op[5]]
                    ip = GeophiresInputParameters(params=dict(map(tuple, op[4])), from_file_path=Path(paths[op[3]]))
                assert ip.as_text() == want, 'library-built request does not have the expected content'
                paths[op[2]] = str(ip.as_file_path())
            pre = (os.getcwd(), list(sys.argv))
            if kind == 'newclient':
                clients.append(GeophiresXClient(enable_caching=bool(op[1])))
            elif kind in ('get', 'getdict', 'getmix'):
                ci, p = op[1], op[2]
                if ci >= len(clients):
                    out = ['noclient']
                else:
                    try:
                        r = clients[ci].get_geophires_result(ip or GeophiresInputParameters(from_file_path=req_path(p)))
                        hit = any(r is x for x in results)
                        results.append(r)
                        rep, js = (None, None) if hit else digest_files(r.output_file_path)
                        out = ['ret', digest_result(r), hit, rep, js]
                    except BaseException as e:  # noqa
                        out = ['raised', type(e).__name__, str(e)[:200]]
            elif kind == 'cli':
                try:
                    runpy.run_module('geophires_x', run_name='__main__')
                    out = ['raised', 'NoExit', 'module returned without sys.exit']
                except SystemExit as e:
                    if e.code == 0:
                        rep, js = digest_files(out_of(op[1]))
                        out = ['ret', digest_result(GeophiresXResult(out_of(op[1]))), False, rep, js]
                    else:
                        out = ['raised', 'SystemExit', str(e.code)]
                except BaseException as e:  # noqa
                    out = ['raised', type(e).__name__, str(e)[:200]]
            elif kind == 'hip':
                try:
                    if op[1] not in hip_clients:
                        hip_clients[op[1]] = hip_ra_x.HipRaXClient() if op[1] == 1 else hip_ra.HipRaClient()
                    client = hip_clients[op[1]]
                    r = client.get_hip_ra_result(hip_ra.HipRaInputParameters(req_path(op[2])))
                    text = open(r.output_file_path, encoding='UTF-8').read()
                    out = ['ret', sha(json.dumps(r.result, sort_keys=True, default=str)), False, sha(MASK.sub(r'\1 <masked>', text)), None]
                except BaseException as e:  # noqa
                    out = ['raised', type(e).__name__, str(e)[:200]]
            elif kind == 'mc':
                out = ['mc', run_mc(op)]
            elif kind == 'write':
                Path(paths[op[1]]).parent.mkdir(parents=True, exist_ok=True)
                Path(paths[op[1]]).write_text(contents[op[2]], encoding='UTF-8')
            elif kind == 'delete':
                try:
                    os.unlink(paths[op[1]])
                except FileNotFoundError:
                    pass
            elif kind == 'chdir':
                os.chdir(dirs[op[1]])
            elif kind == 'setargv':
                sys.argv = list(op[1])
        finally:
            sys.stdout = real_stdout
        post = (os.getcwd(), list(sys.argv))
        obs.append({'cb': enc_dir(pre[0]), 'ab': enc_argv(pre[1]), 'ca': enc_dir(post[0]), 'aa': enc_argv(post[1]),
                    'cwd_after': post[0], 'argv_after': [str(a) for a in post[1]], 'out': out})
    memo = {}
    for name, mod in sorted(sys.modules.items()):
        if not name.startswith('geophires_x') or mod is None:
            continue
        for holder in [mod] + [v for v in vars(mod).values() if isinstance(v, type) and v.__module__ == name]:
            for attr, v in sorted(vars(holder).items()):
                if callable(getattr(v, 'cache_info', None)) and getattr(v, '__module__', None) == name:
                    ci = v.cache_info()
                    memo[f'{name}:{getattr(v, "__qualname__", attr)}'] = [ci.hits, ci.misses, ci.currsize, ci.maxsize]
    return {'obs': obs, 'memo': memo, 'hashseed': os.environ.get('PYTHONHASHSEED')}


def main(jobs_path):
    jobs = json.load(open(jobs_path))
    logging.disable(logging.CRITICAL)
    import warnings
    warnings.simplefilter('ignore')
    logging.config.fileConfig = lambda *a, **k: None   # the CLI's logging.conf would create a log file inside the source tree
    import geophires_x_client  # noqa: F401  (import once; every session then runs in its own forked child)
    for job in jobs:
        pid = os.fork()
        if pid == 0:
            try:
                res = run_session(job)
            except BaseException:  # noqa
                res = {'error': traceback.format_exc()[-2000:]}
            with open(job['out'], 'w') as fh:
                json.dump(res, fh)
            os._exit(0)
        os.waitpid(pid, 0)


if __name__ == '__main__':
    main(sys.argv[1])
