"""Common machinery of every check: context, Coq build, kernel correspondence, evidence, findings."""
import atexit
import contextlib
import fcntl
import hashlib
import json
import os
import random
import re
import shutil
import subprocess
import sys
import tempfile
import time
from concurrent.futures import ThreadPoolExecutor
from fractions import Fraction
from pathlib import Path

from . import qconv

VERIF = Path(__file__).resolve().parents[2]
COQ = VERIF / 'coq'
REPO = Path(os.environ.get('VERIF_REPO', '/repo'))
SRC = REPO / 'src'
PY = '/venv/bin/python'

ALLOWED_AXIOMS = set()  # the development is meant to be closed under the global context

FORBIDDEN = re.compile(
    r'\b(Admitted|admit|Axiom|Axioms|Parameter|Parameters|Conjecture|Admit Obligations|'
    r'Unset Guard Checking|bypass_check|Unset Positivity Checking|Unset Universe Checking|'
    r'native_compute|type-in-type|impredicative-set)\b')


class Violation:
    """One thing a check wants to report.
    kind: 'property'  - the property itself fails on the real code for `inp` (concrete failing input)
          'corr'      - model and implementation disagree on `inp` (property not yet shown to fail)
          'proof'     - a proof obligation / generator / audit no longer checks
    key:  stable identifier of the failing input class / call site (matched against known_findings.json)
    """

    def __init__(self, kind, key, what, inp=None, expected=None, observed=None, replay_cmd=None):
        self.kind, self.key, self.what = kind, key, what
        self.inp, self.expected, self.observed, self.replay_cmd = inp, expected, observed, replay_cmd

    def to_json(self):
        return {'kind': self.kind, 'key': self.key, 'what': self.what, 'input': self.inp,
                'expected': self.expected, 'observed': self.observed, 'replay_cmd': self.replay_cmd}


class Ctx:
    def __init__(self, pid, tier, seed):
        self.pid, self.tier, self.seed = pid, tier, seed
        self.rng = random.Random(seed * 1000003 + int(hashlib.sha256(pid.encode()).hexdigest()[:8], 16))
        self.t0 = time.time()
        self.scratch = Path(tempfile.mkdtemp(prefix=f'verif_{pid}_', dir='/var/tmp'))
        atexit.register(lambda: shutil.rmtree(self.scratch, ignore_errors=True))
        os.environ['TMPDIR'] = str(self.scratch)
        tempfile.tempdir = str(self.scratch)
        # evidence accumulators
        self.evaluations = 0
        self.distinct = set()
        self.samples = []
        self.distribution = {}
        self.notes = []
        self.parts = {}          # per-part statistics
        self.violations = []     # list[Violation]
        self.obligations = []    # theorem names in Props/Cxx.v
        self.discharged = []     # theorem names whose Print Assumptions was seen
        self.assumptions = {}    # theorem -> list of axioms
        self.build_log = ''
        self.fingerprints = {}
        self.coqchk = None
        self.boost = False

    @property
    def quick(self):
        return self.tier == 'quick'

    def n(self, quick, thorough):
        """case volume of this tier; when the source of a modelled function differs from the recorded fingerprint the quick
        tier samples four times as much (mutation-directed testing), never more than the thorough volume"""
        if not self.quick:
            return thorough
        if self.boost and isinstance(quick, (int, float)) and isinstance(thorough, (int, float)) and thorough > quick:
            return type(quick)(min(thorough, quick * 4))
        return quick

    def count(self, part, evaluations=0, nontrivial_keys=(), **dist):
        self.evaluations += evaluations
        p = self.parts.setdefault(part, {'evaluations': 0, 'distinct_nontrivial': 0})
        p['evaluations'] += evaluations
        before = len(self.distinct)
        for k in nontrivial_keys:
            self.distinct.add((part, k))
        p['distinct_nontrivial'] += len(self.distinct) - before
        for k, v in dist.items():
            d = self.distribution.setdefault(part, {}).setdefault(k, {})
            if isinstance(v, dict):
                for kk, vv in v.items():
                    d[str(kk)] = d.get(str(kk), 0) + vv
            else:
                d[str(v)] = d.get(str(v), 0) + 1

    def sample(self, part, obj, limit=3):
        if sum(1 for s in self.samples if s.get('part') == part) < limit:
            self.samples.append({'part': part, 'case': obj})

    def note(self, s):
        self.notes.append(s)

    def violate(self, *a, **k):
        v = Violation(*a, **k)
        self.violations.append(v)
        return v


# ----------------------------------------------------------------------------------------------
# Coq side
# ----------------------------------------------------------------------------------------------

@contextlib.contextmanager
def coq_lock():
    COQ.mkdir(exist_ok=True)
    with open(COQ / '.lock', 'w') as fh:
        fcntl.flock(fh, fcntl.LOCK_EX)
        try:
            yield
        finally:
            fcntl.flock(fh, fcntl.LOCK_UN)


def write_if_changed(path, text):
    path = Path(path)
    if path.exists() and path.read_text() == text:
        return False
    path.parent.mkdir(parents=True, exist_ok=True)
    tmp = path.with_suffix(path.suffix + '.tmp')
    tmp.write_text(text)
    os.replace(tmp, path)
    return True


SUBDIRS = ['Base', 'Gen', 'Model', 'Spec', 'Proofs', 'Props']


def ensure_makefile():
    """_CoqProject is regenerated from the directory contents (nobody edits it by hand)."""
    files = []
    for d in SUBDIRS:
        files += sorted(str(p.relative_to(COQ)) for p in (COQ / d).glob('*.v'))
    text = '-R . Verif\n' + '\n'.join(files) + '\n'
    proj = COQ / '_CoqProject'
    changed = write_if_changed(proj, text)
    mk = COQ / 'Makefile'
    if changed or not mk.exists() or mk.stat().st_mtime < proj.stat().st_mtime:
        subprocess.run(['coq_makefile', '-f', '_CoqProject', '-o', 'Makefile'], cwd=COQ, check=True,
                       stdout=subprocess.DEVNULL, stderr=subprocess.DEVNULL)


def make(targets, timeout=1500, jobs=16):
    ensure_makefile()
    cmd = ['timeout', str(timeout), 'make', f'-j{jobs}'] + list(targets)
    p = subprocess.run(cmd, cwd=COQ, capture_output=True, text=True)
    return p.returncode, p.stdout + p.stderr


def coqc(vfile, cwd=None, timeout=600, out_vo=None):
    cmd = ['timeout', str(timeout), 'coqc', '-R', str(COQ), 'Verif']
    if out_vo:
        cmd += ['-o', str(out_vo)]
    cmd.append(str(vfile))
    p = subprocess.run(cmd, cwd=cwd or COQ, capture_output=True, text=True)
    return p.returncode, p.stdout, p.stderr


THEOREM_RE = re.compile(r'^\s*(?:Theorem|Corollary)\s+([A-Za-z0-9_\']+)', re.M)
ANY_STMT_RE = re.compile(r'^\s*(?:Theorem|Lemma|Corollary|Example|Fact|Remark|Definition|Fixpoint)\s+([A-Za-z0-9_\']+)', re.M)


def enclosing_statement(vfile, line):
    try:
        lines = Path(vfile).read_text().splitlines()
    except OSError:
        return None
    for i in range(min(line, len(lines)) - 1, -1, -1):
        m = ANY_STMT_RE.match(lines[i])
        if m:
            return m.group(1)
    return None


def parse_coq_error(log):
    """-> (file, line, message) of the first Coq error in a make/coqc log, or None."""
    m = re.search(r'File "([^"]+)", line (\d+), characters [\d-]+:\s*\n((?:.|\n)*?)(?:\n\n|\nmake|\Z)', log)
    if not m:
        return None
    return m.group(1), int(m.group(2)), m.group(3).strip()[:600]


def audit_sources():
    """Forbidden constructs anywhere in the development; Variable/Hypothesis outside a Section."""
    problems = []
    for v in sorted(COQ.rglob('*.v')):
        text = v.read_text()
        # strip comments (non-nested approximation is not enough: handle nesting)
        out, depth, i = [], 0, 0
        while i < len(text):
            if text.startswith('(*', i):
                depth += 1
                i += 2
            elif text.startswith('*)', i) and depth > 0:
                depth -= 1
                i += 2
            else:
                if depth == 0:
                    out.append(text[i])
                elif text[i] == '\n':
                    out.append('\n')
                i += 1
        code = ''.join(out)
        # drop string literals
        code_nostr = re.sub(r'"(?:[^"]|"")*"', '""', code)
        for m in FORBIDDEN.finditer(code_nostr):
            ln = code_nostr.count('\n', 0, m.start()) + 1
            problems.append(f'{v.relative_to(COQ)}:{ln}: forbidden construct {m.group(1)!r}')
        depth = 0
        for ln, line in enumerate(code_nostr.splitlines(), 1):
            if re.match(r'\s*Section\s+\w+', line):
                depth += 1
            elif re.match(r'\s*End\s+\w+', line) and depth > 0:
                depth -= 1
            elif depth == 0 and re.match(r'\s*(Variable|Variables|Hypothesis|Hypotheses|Context)\b', line):
                problems.append(f'{v.relative_to(COQ)}:{ln}: {line.strip().split()[0]} outside a Section')
    return problems


def parse_assumptions(stdout):
    """Split the output of a Props file into one block per Print Assumptions."""
    blocks = []
    cur = None
    for line in stdout.splitlines():
        if line.startswith('Closed under the global context'):
            blocks.append([])
            cur = None
        elif line.startswith('Axioms:'):
            cur = []
            blocks.append(cur)
        elif cur is not None:
            m = re.match(r'^([A-Za-z_][\w\.\']*)\s*:', line)
            if m:
                cur.append(m.group(1))
            elif line and not line.startswith(' '):
                cur = None
    return blocks


def build_props(ctx, props_rel, gen_funcs=()):
    """Regenerate Gen files, build the dependency cone of Props/Cxx.v, re-run the Props file to capture
    Print Assumptions, audit the sources.  Records obligations / discharged and 'proof' violations."""
    props = COQ / props_rel
    ctx.obligations = THEOREM_RE.findall(props.read_text())
    with coq_lock():
        for g in gen_funcs:
            try:
                g(ctx)
            except Exception as e:  # fail-closed generator
                ctx.violate('proof', f'gen:{g.__module__}.{g.__name__}',
                            f'generator {g.__module__}.{g.__name__} failed on the current source: {e!r}')
                return False
        vo = props_rel[:-2] + '.vo'
        rc, log = make([vo])
        ctx.build_log = log[-4000:]
    if rc != 0:
        err = parse_coq_error(log)
        if err:
            f, ln, msg = err
            stmt = enclosing_statement(COQ / f if not os.path.isabs(f) else f, ln)
            ctx.violate('proof', f'proof:{f}:{stmt}',
                        f'proof obligation no longer checks: {stmt} ({f}:{ln}): {msg}')
        else:
            ctx.violate('proof', 'proof:build', 'coq build failed: ' + log[-800:])
        return False
    pdir = ctx.scratch / 'props'
    pdir.mkdir(exist_ok=True)
    pcopy = pdir / props.name
    shutil.copy(props, pcopy)
    rc, out, err = coqc(pcopy, cwd=pdir)
    if rc != 0:
        ctx.violate('proof', 'proof:props', f'{props_rel} no longer compiles: {(out + err)[-800:]}')
        return False
    blocks = parse_assumptions(out)
    if len(blocks) < len(ctx.obligations):
        ctx.violate('proof', 'proof:assumptions',
                    f'{props_rel}: {len(ctx.obligations)} theorems but only {len(blocks)} Print Assumptions')
        return False
    for name, axioms in zip(ctx.obligations, blocks):
        ctx.assumptions[name] = axioms
        bad = [a for a in axioms if a not in ALLOWED_AXIOMS]
        if bad:
            ctx.violate('proof', f'axioms:{name}', f'theorem {name} depends on axioms outside the allow-list: {bad}')
        else:
            ctx.discharged.append(name)
    problems = audit_sources()
    for pr in problems:
        ctx.violate('proof', 'audit:' + pr, 'source audit: ' + pr)
    if not ctx.quick or os.environ.get('VERIF_COQCHK') == '1':
        coqchk(ctx, props_rel)
    return not problems and len(ctx.discharged) == len(ctx.obligations)


def coqchk(ctx, props_rel):
    """thorough tier: re-check the property's .vo and everything it depends on with the independent checker and record
    the axioms / unsafe features it reports (must be none)."""
    mod = 'Verif.' + props_rel[:-2].replace('/', '.')
    with coq_lock():
        p = subprocess.run(['timeout', '1500', 'coqchk', '-silent', '-o', '-R', '.', 'Verif', mod], cwd=COQ, capture_output=True, text=True)
    out = p.stdout + p.stderr
    summary = out[out.find('CONTEXT SUMMARY'):] if 'CONTEXT SUMMARY' in out else out[-600:]
    ctx.coqchk = ' '.join(summary.split())[:600]
    clean = (p.returncode == 0 and re.search(r'Axioms: <none>', summary) and re.search(r'type-in-type: <none>', summary)
             and re.search(r'unsafe \(co\)fixpoints: <none>', summary) and re.search(r'positivity is assumed: <none>', summary))
    if not clean:
        ctx.violate('proof', 'coqchk:' + mod, f'coqchk does not accept {mod} as axiom-free: rc={p.returncode} {ctx.coqchk}')


HEADER = ('From Coq Require Import QArith Qabs Qminmax List ZArith Bool String Ascii.\n'
          'Import ListNotations.\n')


def _run_shard(path):
    rc, out, err = coqc(path, cwd=path.parent, timeout=900, out_vo=path.with_suffix('.vo'))
    return rc, out, err


def parse_mismatch_output(out):
    flat = ' '.join(out.split())
    m = re.search(r'=\s*\(\s*(\d+)%nat\s*,\s*\[(.*?)\]\s*\)', flat)
    if not m:
        m2 = re.search(r'=\s*\(\s*(\d+)\s*,\s*\[(.*?)\]\s*\)', flat)
        if not m2:
            return None
        m = m2
    n = int(m.group(1))
    idx = [int(x) for x in re.findall(r'\d+', m.group(2).replace('%nat', ''))]
    return n, idx


def kernel_eval(ctx, name, requires, body_of_shard, ncases, shard=400, open_scope='Q_scope'):
    """Generic sharded kernel evaluation.
    body_of_shard(lo, hi) -> Coq term of type (nat * list nat): (number of cases, indices of failures
    relative to the shard).  Returns sorted list of failing global indices; raises on Coq errors."""
    shards = []
    for k, lo in enumerate(range(0, ncases, shard)):
        hi = min(ncases, lo + shard)
        path = ctx.scratch / ('cases_' + re.sub(r'[^A-Za-z0-9_]', '_', name) + f'_{k}.v')
        text = HEADER + ''.join(f'From Verif Require Import {r}.\n' for r in requires)
        if open_scope:
            text += f'Open Scope {open_scope}.\n'
        text += 'Eval vm_compute in (' + body_of_shard(lo, hi) + ').\n'
        path.write_text(text)
        shards.append((lo, hi, path))
    failing = []
    with ThreadPoolExecutor(max_workers=16) as ex:
        results = list(ex.map(lambda s: _run_shard(s[2]), shards))
    for k, ((lo, hi, path), (rc, out, err)) in enumerate(zip(shards, results)):
        if rc in (124, 137):     # shell time limit hit (a loaded machine): once more, alone, with a longer limit
            rc, out, err = coqc(path, cwd=path.parent, timeout=3000, out_vo=path.with_suffix('.vo'))
            results[k] = (rc, out, err)
        if rc != 0:
            raise RuntimeError(f'coqc failed on {path.name}: {(out + err)[-1500:]}')
        parsed = parse_mismatch_output(out)
        if parsed is None:
            raise RuntimeError(f'cannot parse coqc output of {path.name}: {out[-500:]}')
        n, idx = parsed
        if n != hi - lo:
            raise RuntimeError(f'{path.name}: evaluated {n} cases, expected {hi - lo}')
        failing += [lo + i for i in idx]
        for ext in ('.v', '.vo', '.glob', '.vok', '.vos'):
            with contextlib.suppress(OSError):
                path.with_suffix(ext).unlink()
    return sorted(failing)


def kernel_cases(ctx, name, requires, run_expr, tol, cases, shard=400):
    """cases: list of (flat inputs [Fraction], res ('V',[..])|('E',code)).  Model [run_expr : list Q -> res]
    is evaluated by vm_compute on every input and compared inside Coq with the implementation's result."""
    tolq = qconv.q(tol)

    def body(lo, hi):
        items = ';\n '.join('(' + qconv.qlist(i) + ', ' + qconv.res_lit(r) + ')' for i, r in cases[lo:hi])
        return f'run_cases {tolq} ({run_expr}) [\n {items}]'

    return kernel_eval(ctx, name, ['Base.Flat'] + list(requires), body, len(cases), shard)


def kernel_bools(ctx, name, requires, terms, shard=300, open_scope='Q_scope'):
    """terms: list of Coq terms of type bool; returns indices that evaluate to false."""

    def body(lo, hi):
        items = ';\n '.join(terms[lo:hi])
        return f'(length [\n {items}], mismatches (fun b : bool => b) 0 [\n {items}])'

    # evaluate once: build list once via let
    def body2(lo, hi):
        items = ';\n '.join(terms[lo:hi])
        return f'let l := [\n {items}] in (List.length l, mismatches (fun b : bool => b) 0 l)'

    return kernel_eval(ctx, name, ['Base.Flat'] + list(requires), body2, len(terms), shard, open_scope)


# ----------------------------------------------------------------------------------------------
# Source fingerprints
# ----------------------------------------------------------------------------------------------

def ast_fingerprint(path, qualname):
    import ast
    src = Path(path).read_text()
    tree = ast.parse(src)
    parts = qualname.split('.')

    def find(body, names):
        for node in body:
            if isinstance(node, (ast.FunctionDef, ast.ClassDef)) and node.name == names[0]:
                if len(names) == 1:
                    return node
                return find(node.body, names[1:])
        return None

    node = find(tree.body, parts)
    if node is None:
        return None
    # drop docstring
    if node.body and isinstance(node.body[0], ast.Expr) and isinstance(getattr(node.body[0], 'value', None), ast.Constant) \
            and isinstance(node.body[0].value.value, str):
        node.body = node.body[1:] or [ast.Pass()]
    return hashlib.sha256(ast.dump(node, include_attributes=False).encode()).hexdigest()[:16]


# ----------------------------------------------------------------------------------------------
# Findings, evidence, decision
# ----------------------------------------------------------------------------------------------

def load_findings():
    out = []
    p = VERIF / 'known_findings.json'
    if p.exists():
        out += json.loads(p.read_text()).get('findings', [])
    for q in sorted((VERIF / 'known_findings.d').glob('*.json')):   # staging area, merged by the integrator
        out += json.loads(q.read_text()).get('findings', [])
    return out


def match_finding(findings, pid, key):
    for f in findings:
        if f.get('status') != 'open' or f.get('property') != pid:
            continue
        if key in f.get('keys', []):
            return f
        for pat in f.get('key_regex', []):
            if re.fullmatch(pat, key):
                return f
    return None


def write_evidence(ctx, meta, n_viol):
    ev = {
        'property_id': ctx.pid,
        'tier': ctx.tier,
        'seed': ctx.seed,
        'level': 'proof',
        'coverage': {
            'obligations': max(1, len(ctx.obligations)),
            'discharged': len(ctx.discharged),
            'checker_cmd': f'make -C coq {meta["props"][:-2]}.vo && coqc -R coq Verif coq/{meta["props"]}  (Coq 8.16.1 kernel; vm_compute for the correspondence shards)',
            'trusted_base': meta.get('trusted_base', []),
            'theorems': ctx.obligations,
            'assumptions_per_theorem': {k: (v or ['Closed under the global context']) for k, v in ctx.assumptions.items()},
            'evaluations': ctx.evaluations,
            'distinct_nontrivial': len(ctx.distinct),
            'rule': meta.get('rule', ''),
            'samples': ctx.samples or [{'part': 'obligations', 'case': ctx.obligations[:3]}],
            'parts': ctx.parts,
            'input_distribution': ctx.distribution,
            'modelled_not_verified': meta.get('modelled', []),
            'source_fingerprints': ctx.fingerprints,
            'source_changed_since_model_was_written': ctx.boost,
            'coqchk': ctx.coqchk or 'not run in this tier (thorough tier runs coqchk -o on the property file and its dependencies)',
            'notes': ctx.notes,
            'exhaustive': bool(meta.get('exhaustive', False)),
        },
        'assumptions': meta.get('assumptions', []),
        'wall_s': round(time.time() - ctx.t0, 2),
        'violations': n_viol,
    }
    edir = Path(os.environ.get('VERIF_EVIDENCE_DIR') or (VERIF / 'evidence'))   # mutant self-tests write elsewhere
    edir.mkdir(parents=True, exist_ok=True)
    p = edir / f'{ctx.pid}.json'
    tmp = p.with_suffix('.json.tmp')
    tmp.write_text(json.dumps(ev, indent=1, default=str) + '\n')
    os.replace(tmp, p)


def write_replay(ctx, v, idx):
    d = (Path(os.environ['VERIF_EVIDENCE_DIR']) / 'replays' if os.environ.get('VERIF_EVIDENCE_DIR') else VERIF / 'replays') / ctx.pid
    d.mkdir(parents=True, exist_ok=True)
    h = hashlib.sha256((v.key + json.dumps(v.inp, default=str, sort_keys=True)).encode()).hexdigest()[:12]
    p = d / f'{h}.json'
    body = v.to_json()
    body.update({'property': ctx.pid, 'tier': ctx.tier, 'seed': ctx.seed,
                 'replay': f'./check {ctx.pid} --replay {p}'})
    p.write_text(json.dumps(body, indent=1, default=str) + '\n')
    return p


def finish(ctx, meta):
    """Classify violations against known findings, print the interface lines, write evidence, exit."""
    findings = load_findings()
    known_printed = set()
    by_key = {}
    for v in ctx.violations:
        by_key.setdefault(v.key, v)
    unknown = []
    for key, v in by_key.items():
        f = match_finding(findings, ctx.pid, key)
        if f is not None:
            if f['id'] not in known_printed:
                print(f'KNOWN-FINDING: property={ctx.pid} {f["what"]}')
                known_printed.add(f['id'])
        else:
            unknown.append(v)
    witnesses = [v for v in unknown if v.kind == 'property']
    others = [v for v in unknown if v.kind != 'property']
    reported = 0
    if witnesses:
        # concrete failing inputs exist: they are the replays; broken obligations ride along as context
        for i, v in enumerate(witnesses):
            if others:
                v.what += ' | also broken in this run: ' + '; '.join(o.key for o in others[:10])
            p = write_replay(ctx, v, i)
            print(f'VIOLATION property={ctx.pid} replay={p}')
            print(f'  {v.kind}: {v.what[:400]}')
            reported += 1
            if reported >= 25:
                print(f'  ... {len(witnesses) - reported} further failing inputs not listed')
                break
    else:
        for i, v in enumerate(others):
            p = write_replay(ctx, v, i)
            print(f'VIOLATION property={ctx.pid} replay={p} no-failing-input-found')
            print(f'  {v.kind}: {v.what[:400]}')
            reported += 1
            if reported >= 25:
                print(f'  ... {len(others) - reported} further entries not listed')
                break
    write_evidence(ctx, meta, reported)
    sys.stdout.flush()
    sys.exit(1 if reported else 0)
