"""Exact conversions between Python numbers and Coq literals."""
from fractions import Fraction
import math


def F(x):
    """Exact rational value of an int / float / Fraction / decimal string / numpy scalar."""
    if isinstance(x, Fraction):
        return x
    if isinstance(x, bool):
        return Fraction(int(x))
    if isinstance(x, int):
        return Fraction(x)
    if isinstance(x, str):
        return Fraction(x)
    x = float(x)
    if math.isnan(x) or math.isinf(x):
        raise ValueError(f'non-finite value {x!r} has no rational image')
    return Fraction(x)


def q(x):
    f = F(x)
    return f'({f.numerator}#{f.denominator})'


def qlist(xs):
    return '[' + '; '.join(q(x) for x in xs) + ']'


def zlit(n):
    n = int(n)
    return f'({n})%Z'


def natlit(n):
    n = int(n)
    assert n >= 0
    return f'{n}%nat'


def blit(b):
    return 'true' if b else 'false'


def res_lit(r):
    """r is ('V', [values]) or ('E', code)."""
    kind, v = r
    if kind == 'V':
        return 'Vals ' + qlist(v)
    return f'Err ({int(v)})%Z'


def coq_string(s):
    """Coq string literal for an ASCII/byte string; non-printable bytes are written through
    String (ascii_of_nat n) concatenations by the caller; here we only escape quotes."""
    out = []
    for ch in s:
        o = ord(ch)
        if ch == '"':
            out.append('""')
        elif 32 <= o < 127:
            out.append(ch)
        else:
            raise ValueError(f'non printable char {o} in coq_string; use coq_bytes')
    return '"' + ''.join(out) + '"'


def coq_bytes(s):
    """Coq term of type string for arbitrary bytes/str with code points < 256."""
    if isinstance(s, bytes):
        s = s.decode('latin-1')
    parts = []
    cur = []
    for ch in s:
        o = ord(ch)
        if o >= 256:
            raise ValueError('code point >= 256')
        if 32 <= o < 127:
            cur.append(ch)
        else:
            if cur:
                parts.append(coq_string(''.join(cur)))
                cur = []
            parts.append(f'(String (ascii_of_nat {o}) EmptyString)')
    if cur or not parts:
        parts.append(coq_string(''.join(cur)))
    if len(parts) == 1:
        return parts[0]
    return '(' + ' ++ '.join(parts) + ')%string'


def sig15(x):
    """Round a float to 15 significant decimal digits and return the exact Fraction of that decimal
    (keeps kernel literals small; relative perturbation <= 1e-15)."""
    x = float(x)
    if x == 0:
        return Fraction(0)
    return Fraction(f'{x:.15g}')
