"""Runs ONE Monte Carlo job of the real driver (geophires_monte_carlo.MC_GeoPHIRES3.main) in a process of its own and
observes it.  Used by tools/lib/mcharness.py (properties C13, C14):  python mc_driver.py <jobdir>

jobdir/job.json : {program, base, settings, result, W, mode}
  mode 'pool'        the real ProcessPoolExecutor with os.cpu_count() patched to W
  mode 'lockrace'    the two work packages of a 2-iteration run are executed in two forked processes whose lock
                     steps are delayed so that both pass pylocker's check before either writes (nothing else changed)
  mode 'locktimeout' the single work package of a 1-iteration run finds the lock held by a live foreign locker
  mode 'lockoverlap' two forked work packages; B comes to the lock while A is held inside its critical section (A's
                     release is delayed by up to 2 s): with a lock that excludes, B gets in only after A has left
  mode 'api2'        two GeophiresMonteCarloClient.get_monte_carlo_result() calls in this process onto the same output path
                     (job['settings'] then job['settings2']); what the API returned is recorded next to the files
  mode 'stalelock'   the real pool (as 'pool'), but an earlier process died while holding <result dir>/.lock
Observation only: work_package, Locker and the np.random functions are wrapped by recording pass-throughs.
jobdir/out.json : {main_error, tasks: [{pid, seq, t0, t1, status, trace, lock}]}"""
import io
import json
import logging
import multiprocessing
import os
import sys
import tempfile
import time
from pathlib import Path

JOB = Path(sys.argv[1])
job = json.loads((JOB / 'job.json').read_text())
(JOB / 'tmp').mkdir(exist_ok=True)
(JOB / 'log').mkdir(exist_ok=True)
os.environ['TMPDIR'] = tempfile.tempdir = str(JOB / 'tmp')
os.environ['MPLBACKEND'] = 'Agg'
devnull = os.open(os.devnull, os.O_WRONLY)
os.dup2(devnull, 1)           # the simulators print their reports; workers inherit the descriptor
os.dup2(devnull, 2)

import numpy as np  # noqa: E402
import pylocker  # noqa: E402
import concurrent.futures  # noqa: E402
from geophires_monte_carlo import MC_GeoPHIRES3 as MC, SimulationProgram  # noqa: E402

logging.disable(logging.CRITICAL)
_sr = [ln.split(',', 1)[1].strip() for ln in Path(job['settings']).read_text().splitlines() if ln.startswith('MC_OUTPUT_FILE')]
RESULT_PATH = _sr[-1] if _sr else job['result']      # an MC_OUTPUT_FILE line overrides the argument
BLK = os.stat(os.path.dirname(os.path.abspath(RESULT_PATH))).st_blksize
REC = {'trace': None, 'lock': None, 'seq': 0, 'role': None, 'writes': None, 'lock_pass': None, 'overlap': None}
RACE, OVERLAP = job['mode'] == 'lockrace', job['mode'] == 'lockoverlap'
WAIT = 20.0
mp = multiprocessing.get_context('fork')
EV = {n: mp.Event() for n in ('B_in_rename', 'A_acquired', 'B_acquired', 'A_released')}


def _wrap_random(name):
    orig = getattr(np.random, name)

    def rec(*a, **k):
        r = orig(*a, **k)
        if REC['trace'] is not None:
            REC['trace'].append([name, [float(x) for x in a] + [f'{kk}={vv}' for kk, vv in k.items()],
                                 None if r is None else str(r)])
        return r
    setattr(np.random, name, rec)


for _n in ('seed', 'normal', 'uniform', 'triangular', 'lognormal', 'binomial'):
    _wrap_random(_n)


class ObservedLocker(pylocker.Locker):
    """pass-through that records (acquired, code, fd is None) and the outcome of the first release; in mode
    'lockrace' it also delays the lock steps of the two roles (A = task 0, B = task 1)."""

    def __init__(self, *a, **k):
        super().__init__(*a, **k)
        REC['lock_pass'] = k.get('lockPass', a[1] if len(a) > 1 else None)

    def acquire_lock(self, *a, **k):
        if RACE and REC['role'] == 'A':
            EV['B_in_rename'].wait(WAIT)
        if OVERLAP and REC['role'] == 'B':
            EV['A_acquired'].wait(WAIT)          # A's pass phrase is verified in the lock file: A is inside
        r = super().acquire_lock(*a, **k)
        if REC['role']:
            if OVERLAP and REC['role'] == 'B' and r[0]:
                REC['overlap'] = not EV['A_released'].is_set()     # let in while A has not left
            EV[REC['role'] + '_acquired'].set()
        return r

    def __enter__(self):
        r = super().__enter__()
        REC['lock'] = {'acquired': bool(r[0]), 'code': str(r[1]), 'fd_none': r[2] is None}
        return r

    def release_lock(self, *a, **k):
        first = not getattr(self, '_verif_released', False)
        self._verif_released = True
        if first and RACE and REC['role'] == 'A':
            EV['B_acquired'].wait(WAIT)
        if first and RACE and REC['role'] == 'B':
            EV['A_released'].wait(WAIT)
        if first and OVERLAP and REC['role'] == 'A':
            EV['B_acquired'].wait(2.0)           # stay inside for up to 2 s: does B get in meanwhile?
            REC['overlap'] = EV['B_acquired'].is_set()
            EV['A_released'].set()
        r = super().release_lock(*a, **k)
        if first:
            if REC['lock'] is not None:
                REC['lock'].update(released=bool(r[0]), release_code=str(r[1]))
            if RACE and REC['role'] == 'A':
                EV['A_released'].set()
        return r


if hasattr(MC, 'Locker'):
    MC.Locker = ObservedLocker


class CountingFileIO(io.FileIO):
    """the raw file under the result-file object pylocker opens: records every write() system call (bytes asked, bytes written)"""

    def write(self, b):
        n = super().write(b)
        if REC['writes'] is not None:
            REC['writes'].append([len(b), n])
        return n


def _observed_open(path, mode='r', *a, **k):
    """what builtins.open(path, 'a') builds (FileIO / BufferedWriter of st_blksize / TextIOWrapper), with the counting raw file"""
    if mode == 'a' and not a and not k and os.path.abspath(str(path)) == os.path.abspath(RESULT_PATH):
        raw = CountingFileIO(path, 'a')
        size = getattr(raw, '_blksize', 0)
        return io.TextIOWrapper(io.BufferedWriter(raw, size if size > 1 else io.DEFAULT_BUFFER_SIZE))
    return open(path, mode, *a, **k)


sys.modules[pylocker.Locker.__module__].open = _observed_open      # Locker.__enter__ resolves the global name `open`

_orig_rename = os.rename


def _rename(src, dst, *a, **k):
    if RACE and REC['role'] == 'B' and os.path.basename(str(dst)) == '.lock' and not EV['B_in_rename'].is_set():
        EV['B_in_rename'].set()          # B has passed the check and is about to publish its pass
        EV['A_acquired'].wait(WAIT)
    return _orig_rename(src, dst, *a, **k)


os.rename = _rename
_orig_wp = MC.work_package


def work_package(pass_list):
    REC['trace'], REC['lock'], REC['writes'], REC['lock_pass'], REC['overlap'] = [], None, [], None, None
    t0, status = time.time(), 'ok'
    try:
        return _orig_wp(pass_list)
    except BaseException as e:  # noqa: recorded and re-raised unchanged
        status = f'{type(e).__name__}: {e}'[:300]
        raise
    finally:
        rec = {'pid': os.getpid(), 'seq': REC['seq'], 't0': t0, 't1': time.time(), 'status': status,
               'trace': REC['trace'], 'lock': REC['lock'], 'role': REC['role'], 'writes': REC['writes'],
               'blksize': BLK, 'lock_pass': REC['lock_pass'], 'overlap': REC['overlap']}
        REC['seq'] += 1
        with open(JOB / 'log' / f'{os.getpid()}.jsonl', 'a') as f:
            f.write(json.dumps(rec) + '\n')


work_package.__module__, work_package.__qualname__ = MC.__name__, 'work_package'
MC.work_package = work_package


class TwoProcessExecutor:
    """stands in for ProcessPoolExecutor in the forced-interleaving modes: one forked process per task, which ends
    like a pool worker does (multiprocessing child: os._exit, no atexit handlers)."""

    def __enter__(self):
        return self

    def __exit__(self, *a):
        return False

    def map(self, fn, args, timeout=None, chunksize=1):
        def child(i, a):
            REC['role'] = 'AB'[i] if RACE or OVERLAP else None
            try:
                fn(a)
            except BaseException:  # noqa
                pass
        holder = None
        if job['mode'] == 'locktimeout':
            holder = pylocker.Locker(filePath=None, lockPass='verif-foreign-holder', timeout=5,
                                     lockPath=os.path.join(os.path.dirname(job['result']), '.lock'))
            holder.acquire_lock()
        ps = [mp.Process(target=child, args=(i, a)) for i, a in enumerate(args)]
        for p in ps:
            p.start()
        for p in ps:
            p.join(120)
        if holder is not None:
            holder.release_lock()


def _die_holding_the_lock():
    lk = pylocker.Locker(filePath=job['result'], lockPass='verif-killed-earlier-run', timeout=10, mode='a')
    acquired, _ = lk.acquire_lock()
    os._exit(0 if acquired else 3)      # no clean-up: the lock file stays, owned by a process that no longer exists


if job['mode'] == 'stalelock':
    _p = mp.Process(target=_die_holding_the_lock)
    _p.start()
    _p.join(60)
if job['mode'] in ('pool', 'stalelock', 'api2'):
    os.cpu_count = lambda: int(job['W'])
    if hasattr(os, 'process_cpu_count'):
        os.process_cpu_count = os.cpu_count
else:
    concurrent.futures.ProcessPoolExecutor = TwoProcessExecutor

def _read_tasks():
    ts = [json.loads(ln) for f in sorted((JOB / 'log').glob('*.jsonl')) for ln in f.read_text().splitlines()]
    ts.sort(key=lambda t: (t['t0'], t['pid'], t['seq']))
    return ts


main_error, cwd, api = None, os.getcwd(), []
try:
    if job['mode'] == 'api2':
        from geophires_monte_carlo import GeophiresMonteCarloClient, MonteCarloRequest
        keep = []       # the results stay alive, as in a caller that compares two studies
        for k, st in enumerate((job['settings'], job['settings2'])):
            for f in (JOB / 'log').glob('*.jsonl'):
                f.unlink()
            res = GeophiresMonteCarloClient().get_monte_carlo_result(
                MonteCarloRequest(SimulationProgram[job['program']], Path(job['base']), Path(st),
                                  None if job.get('default_output') else Path(job['result'])))
            keep.append(res)
            api.append({'output': res.result['output'], 'json_text': Path(res.json_output_file_path).read_text(),
                        'result_text': Path(res.output_file_path).read_text(), 'tasks': len(_read_tasks()),
                        'path': str(res.output_file_path)})
        for a, res in zip(api, keep):    # what each result object points at once both runs are over
            p_ = Path(res.output_file_path)
            a['result_text_after'] = p_.read_text() if p_.exists() else None
            a['json_text_after'] = Path(res.json_output_file_path).read_text() if Path(res.json_output_file_path).exists() else None
    else:
        code = job.get('code_file') or str(SimulationProgram[job['program']].code_file_path)
        MC.main([code, job['base'], job['settings'], job['result']])
except BaseException as e:  # noqa
    main_error = f'{type(e).__name__}: {e}'[:500]
os.chdir(cwd)
(JOB / 'out.json').write_text(json.dumps({'main_error': main_error, 'tasks': _read_tasks(), 'api': api}))
