"""Correspondence of a flat numeric model ([list Q -> res]) with an implementation function."""
from fractions import Fraction
from . import framework as fw
from . import qconv

ERRCODES = {IndexError: 1, ZeroDivisionError: 2, ValueError: 3, StopIteration: 4}


def call_impl(fn, *args, **kw):
    """Run an implementation function; map its result/exception to a res tuple."""
    try:
        out = fn(*args, **kw)
    except tuple(ERRCODES) as e:
        for t, c in ERRCODES.items():
            if isinstance(e, t):
                return ('E', c)
    return ('V', out)


def flatten(v):
    import numpy as np
    if isinstance(v, (list, tuple, np.ndarray)):
        out = []
        for x in v:
            out += flatten(x)
        return out
    return [qconv.F(v)]


def res_of(r):
    kind, v = r
    if kind == 'E':
        return r
    return ('V', flatten(v))


def run(ctx, part, requires, run_expr, tol, cases, kind='property', key_of=None, what=None, shard=400,
        max_report=5):
    """cases: list of dicts {flat: [Fraction], impl: res, desc: json-able description, nontrivial: key|None}
    Evaluates the model in the kernel, compares in Coq, files violations.  Returns failing indices."""
    flat_cases = [(c['flat'], res_of(c['impl'])) for c in cases]
    failing = fw.kernel_cases(ctx, part, requires, run_expr, tol, flat_cases, shard)
    ctx.count(part, evaluations=len(cases), nontrivial_keys=[c['nontrivial'] for c in cases if c.get('nontrivial') is not None])
    for c in cases[:2]:
        ctx.sample(part, c['desc'])
    for i in failing[:max_report]:
        c = cases[i]
        k = key_of(c) if key_of else f'{part}:{i}'
        ctx.violate(kind, k, (what or f'model {run_expr} and implementation disagree') + f' on {c["desc"]}',
                    inp={'part': part, 'desc': c['desc'], 'flat': [str(x) for x in c['flat']]},
                    observed=_show(c['impl']), expected=f'value of Coq model {run_expr} (see replay)')
    if len(failing) > max_report:
        ctx.note(f'{part}: {len(failing)} disagreeing cases, first {max_report} reported')
    return failing


def _show(r):
    kind, v = r
    if kind == 'E':
        return f'error {v}'
    try:
        return [float(x) for x in flatten(v)][:40]
    except Exception:
        return str(v)[:400]
