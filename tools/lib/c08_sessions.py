"""C08 helpers: build sessions (histories), run them on the real code (tools/lib/c08_worker.py), translate
operations and observations into Coq terms for Model/Process.v, and shrink a failing session."""
import json
import os
import subprocess
import sys
import time
from concurrent.futures import ThreadPoolExecutor
from pathlib import Path

from . import configs, framework as fw, runner

WORKER = str(Path(__file__).with_name('c08_worker.py'))
UNKNOWN = 999          # content id of a result that matches no reference result
CODES = {1: 'model', 2: 'restore', 3: 'refine', 4: 'stale', 9: 'harness'}
STALE_KEY = 'stale-cache:path-keyed-hit-after-file-changed'

BASE = [('Reservoir Model', '4'), ('Drawdown Parameter', '0.005'), ('Reservoir Depth', '3'), ('Gradient 1', '50'),
        ('End-Use Option', '1'), ('Power Plant Type', '1'), ('Number of Production Wells', '2'),
        ('Number of Injection Wells', '2'), ('Plant Lifetime', '20'), ('Print Output to Console', '0')]
CELLS = [(1, 1, 1), (2, 9, 2), (1, 3, 3), (31, 2, 2), (2, 5, 1), (42, 4, 3), (51, 1, 1), (2, 6, 2), (1, 4, 2),
         (32, 1, 3), (41, 2, 1), (52, 3, 2)]


def _with(pairs, **changes):
    d = dict(pairs)
    d.update({k.replace('_', ' '): v for k, v in changes.items()})
    return runner.params_to_text(list(d.items()))


KEEP = {'Reservoir Model', 'End-Use Option', 'Power Plant Type', 'Economic Model', 'Print Output to Console',
        'Reservoir Volume Option', 'Number of Segments'}


def content_pool(ctx, n):
    """Input texts from every end-use/plant/economic-model family (fast reservoir models), SPARSE variants of them
    that omit a random subset of the optional parameters (so that a run relying on defaults follows, in the same
    process, runs that overrode those parameters - shared mutable defaults show up as a result that differs from
    the fresh-process reference), + requests that fail at three different depths of a run (reader, Calculate,
    sys.exit).  All are `name, value` lines with unique names."""
    rnd = ctx.rng
    full = [BASE, list(dict(BASE, **{'Gradient 1': '70', 'Reservoir Depth': '2.5'}).items())]
    for i in range(n):
        eu, pl, ec = CELLS[i % len(CELLS)]
        p = configs.synthetic(rnd, enduse=eu, plant=pl, econ=ec, resmodel=rnd.choice([3, 4]),
                              life=rnd.choice([5, 10, 20, 30]), addons=False)
        if len(dict(p)) == len(p):
            full.append(p)
    sparse = [[kv for kv in BASE if kv[0] != 'Gradient 1'], [kv for kv in BASE if kv[0] != 'Reservoir Depth'],
              [kv for kv in BASE if kv[0] in KEEP]]
    for i in range(max(4, (2 * n) // 3)):
        src = full[2 + i % max(1, len(full) - 2)] if len(full) > 2 else BASE
        frac = rnd.choice([0.25, 0.5, 0.8])
        sparse.append([kv for kv in src if kv[0] in KEEP or rnd.random() > frac])
    texts = [runner.params_to_text(p) for p in full + sparse]
    failing = [_with(BASE, **{'End-Use Option': '9'}),        # rejected by the reader
               _with(BASE, Reservoir_Depth='0.1'),            # raises inside Calculate
               _with(BASE, Reservoir_Model='5')]              # sys.exit() (missing reservoir output file)
    return texts, failing


OVERRIDES = [[['Print Output to Console', '0']], [['Gradient 1', '62'], ['Print Output to Console', '0']],
             [['Plant Lifetime', '25']]]


def combos(contents, base_ids):
    """Requests built from a base file AND overriding params: appends base text + override lines to [contents];
    -> [(base content id, override pairs, id of the combined content)]: same overrides over different bases and
    different overrides over the same base."""
    out = []
    for b in base_ids:
        for ov in OVERRIDES:
            contents.append(contents[b] + ''.join(f'{k}, {v}\n' for k, v in ov))
            out.append((b, ov, len(contents) - 1))
    return out


def gen_session(rnd, ok_ids, bad_ids, length, hashseeds, mixes=()):
    """One random history.  Paths 0..np-1 are files of the session, higher ids are created by the library
    (getdict, getmix)."""
    ndirs, npaths = 3, rnd.randint(2, 4)
    ops, nclients, nextp = [], 0, npaths
    written = {}

    def newclient():
        nonlocal nclients
        ops.append(['newclient', rnd.random() < 0.6])
        nclients += 1

    newclient()
    while len(ops) < length:
        x = rnd.random()
        content = rnd.choice(ok_ids) if rnd.random() < 0.75 or not bad_ids else rnd.choice(bad_ids)
        if x < 0.42:
            known = list(written) if written and rnd.random() < 0.9 else list(range(nextp))
            ops.append(['get', rnd.randrange(nclients) if rnd.random() < 0.97 else nclients, rnd.choice(known)])
        elif x < 0.64:
            p = rnd.randrange(npaths)
            ops.append(['write', p, content])
            written[p] = content
        elif x < 0.70:
            ops.append(['getdict', rnd.randrange(nclients), nextp, content])
            written[nextp] = content
            nextp += 1
        elif x < 0.78 and mixes:
            b, ov, cid = rnd.choice(mixes)
            holders = [q for q, c in written.items() if c == b]
            if not holders:   # put the base content into a file first
                holders = [rnd.randrange(npaths)]
                ops.append(['write', holders[0], b])
                written[holders[0]] = b
            ops.append(['getmix', rnd.randrange(nclients), nextp, rnd.choice(holders), ov, cid])
            written[nextp] = cid
            nextp += 1
        elif x < 0.80 and written:
            p = rnd.choice([q for q in written if q < npaths] or [0])
            ops.append(['delete', p])
            written.pop(p, None)
        elif x < 0.85:
            ops.append(['chdir', rnd.randrange(ndirs)])
        elif x < 0.90:
            ops.append(['setargv', ['u%d' % rnd.randrange(9) for _ in range(rnd.randint(0, 4))]])
        elif x < 0.95:
            newclient()
        elif written:
            ops.append(['cli', rnd.choice([q for q in written if q < npaths] or [0])])
    return {'ndirs': ndirs, 'npaths': npaths, 'cwd': rnd.randrange(ndirs), 'argv': ['u0', 'u1'],
            'hashseed': str(rnd.choice(hashseeds)), 'ops': ops}


def reference_session(content_id):
    return {'ndirs': 1, 'npaths': 1, 'cwd': 0, 'argv': ['u0'], 'hashseed': '0',
            'ops': [['newclient', False], ['write', 0, content_id], ['get', 0, 0]]}


def run_sessions(ctx, sessions, contents, tag):
    """Execute sessions on the real code, one fresh process each (16 at a time).  -> list of worker results."""
    root = ctx.scratch / f'c08_{tag}'
    groups = {}
    for i, s in enumerate(sessions):
        base = root / f's{i}'
        job = {'dirs': [str(base / f'd{k}') for k in range(s['ndirs'])], 'contents': contents, 'cwd': s['cwd'],
               'argv': s['argv'], 'ops': s['ops'], 'tmp': str(base / 'tmp'), 'out': str(base / 'out.json')}
        # the same file NAME occurs in several directories: a cache keyed on less than the whole path collides
        job['paths'] = [str(Path(job['dirs'][p % s['ndirs']]) / f'in{p // s["ndirs"]}.txt') for p in range(s['npaths'])]
        base.mkdir(parents=True, exist_ok=True)
        groups.setdefault(s['hashseed'], []).append(job)
    chunks = []
    per = max(1, -(-len(sessions) // 16))
    for seed, jobs in sorted(groups.items()):
        chunks += [(seed, jobs[k:k + per]) for k in range(0, len(jobs), per)]

    def run_chunk(args):
        n, (seed, jobs) = args
        jf = root / f'jobs_{n}.json'
        jf.write_text(json.dumps(jobs))
        env = dict(os.environ, PYTHONHASHSEED=seed, PYTHONDONTWRITEBYTECODE='1')
        env.pop('GEOPHIRES_X_VERIF', None)   # the baseline path of main(): verification hook off
        p = subprocess.run(['timeout', str(120 + 30 * len(jobs)), fw.PY, '-B', WORKER, str(jf)], env=env,
                           capture_output=True, text=True, cwd=str(root))
        return p.returncode, p.stderr[-1500:]

    with ThreadPoolExecutor(max_workers=16) as ex:
        rcs = list(ex.map(run_chunk, enumerate(chunks)))
    out = []
    for i, s in enumerate(sessions):
        f = root / f's{i}' / 'out.json'
        r = json.loads(f.read_text()) if f.exists() else {'error': 'worker produced no output: %r' % (rcs[:3],)}
        if 'error' in r:
            raise RuntimeError(f'C08 worker failed on session {i} ({tag}): {r["error"]}')
        out.append(r)
    return out


class References:
    """Reference result of every content: one request in a fresh process (caching off, hash seed 0)."""

    def __init__(self, ctx, contents):
        self.ctx, self.contents, self.ref = ctx, contents, {}

    def ensure(self, ids):
        todo = [c for c in sorted(set(ids)) if self.contents[c] not in self.ref]
        if todo:
            res = run_sessions(self.ctx, [reference_session(c) for c in todo], self.contents, f'ref{len(self.ref)}')
            for c, r in zip(todo, res):
                self.ref[self.contents[c]] = r['obs'][2]['out']

    def of(self, c):
        return self.ref[self.contents[c]]

    def okc(self, ids):
        return [c for c in sorted(set(ids)) if self.of(c)[0] == 'ret']

    def content_of_digest(self, ids):
        return {self.of(c)[1]: c for c in sorted(set(ids), reverse=True) if self.of(c)[0] == 'ret'}


CONTENT_FIELD = {'write': 2, 'getdict': 3, 'getmix': 5}


def map_contents(ops, f):
    """Copy of the operations with f applied to every content id."""
    out = []
    for o in ops:
        o = list(o)
        if o[0] in CONTENT_FIELD:
            o[CONTENT_FIELD[o[0]]] = f(o[CONTENT_FIELD[o[0]]])
        out.append(o)
    return out


def contents_used(s):
    return sorted({o[CONTENT_FIELD[o[0]]] for o in s['ops'] if o[0] in CONTENT_FIELD})


# ------------------------------------------------------------------------------------------------------------
# Coq terms
# ------------------------------------------------------------------------------------------------------------
def q_dir(d):
    return 'DSrc' if d[0] == 'S' else f'(DUser {int(d[1])})'


def q_arg(a):
    return {'E': lambda: 'AEmpty', 'I': lambda: f'(AIn {int(a[1])})', 'O': lambda: f'(AOut {int(a[1])}%Z)',
            'U': lambda: f'(AUser {int(a[1])})'}[a[0]]()


def q_argv(av):
    return '[' + '; '.join(q_arg(a) for a in av) + ']'


def q_tokens(toks):
    return '[' + '; '.join(f'(AUser {int(t[1:])})' for t in toks) + ']'


def expand(session, result, digest2content, canon=lambda c: c):
    """-> (Coq ops, Coq observations, origin) with a getdict/getmix unfolded into Write + Get; origin[k] = index of
    the operation the k-th model step came from.  Contents with the same reference result are interchangeable:
    [canon] maps a content id to the representative of its class (the one [digest2content] names)."""
    ops, obs, origin = [], [], []
    session = dict(session, ops=map_contents(session['ops'], canon))
    for i, (op, b) in enumerate(zip(session['ops'], result['obs'])):
        kind = op[0]
        o = b['out']
        if o[0] == 'ret':
            out = f'(Returned {digest2content.get(o[1], UNKNOWN)} {"true" if o[2] else "false"})'
        else:
            out = {'raised': 'Raised', 'noclient': 'NoSuchClient', 'done': 'Done'}[o[0]]
        pre, post = (q_dir(b['cb']), q_argv(b['ab'])), (q_dir(b['ca']), q_argv(b['aa']))
        if kind in ('getdict', 'getmix'):
            ops.append(f'Write {op[2]} {op[CONTENT_FIELD[kind]]}')
            obs.append(f'mkObs {pre[0]} {pre[1]} {pre[0]} {pre[1]} Done')
            origin.append(i)
        ops.append({'newclient': lambda: f'NewClient {"true" if op[1] else "false"}',
                    'get': lambda: f'Get {op[1]} {op[2]}', 'getdict': lambda: f'Get {op[1]} {op[2]}',
                    'getmix': lambda: f'Get {op[1]} {op[2]}',
                    'write': lambda: f'Write {op[1]} {op[2]}', 'delete': lambda: f'Delete {op[1]}',
                    'chdir': lambda: f'Chdir (DUser {op[1]})', 'setargv': lambda: f'SetArgv {q_tokens(op[1])}',
                    'cli': lambda: f'Cli {op[1]}'}[kind]())
        obs.append(f'mkObs {pre[0]} {pre[1]} {post[0]} {post[1]} {out}')
        origin.append(i)
    return ops, obs, origin


def session_term(fn, fixed, session, result, refs):
    ids = contents_used(session)
    d2c = refs.content_of_digest(ids)
    canon = lambda c: d2c[refs.of(c)[1]] if refs.of(c)[0] == 'ret' else c   # noqa: E731
    ops, obs, origin = expand(session, result, d2c, canon)
    okc = '[' + '; '.join(str(c) for c in sorted({canon(c) for c in refs.okc(ids)})) + ']'
    return (f'{fn} {"true" if fixed else "false"} {okc} (DUser {session["cwd"]}) {q_tokens(session["argv"])}\n'
            f'  [{"; ".join(ops)}]\n  [{"; ".join(obs)}]'), origin


def check_sessions(ctx, name, sessions, results, refs, chunk=60):
    """Evaluate Model.Process.session_check in the kernel.  -> per session: list of (operation index, code name)."""
    out = [[] for _ in sessions]
    for lo in range(0, len(sessions), chunk):
        part = list(range(lo, min(len(sessions), lo + chunk)))
        terms = [session_term('session_check', True, sessions[i], results[i], refs) for i in part]
        body = lambda a, b: 'sessions_result [\n ' + ';\n '.join(t for t, _ in terms) + ']'   # noqa: E731
        codes = fw.kernel_eval(ctx, f'{name}_{lo}', ['Model.Process'], body, len(part), shard=len(part), open_scope='nat_scope')
        for x in codes:
            k, step, code = x // 100000, (x % 100000) // 10, x % 10
            out[part[k]].append((terms[k][1][step] if step < len(terms[k][1]) else step, CODES.get(code, str(code))))
    return out


def matches_variant(ctx, name, session, result, refs):
    """Which named alternative of the model reproduces the whole session: 'pinned' (restore only after success),
    'repaired' (content-keyed cache), or None."""
    terms = [session_term('session_matches', False, session, result, refs)[0],
             session_term('session_matches_repaired', True, session, result, refs)[0]]
    bad = fw.kernel_bools(ctx, name, ['Model.Process'], terms, open_scope='nat_scope')
    return 'pinned' if 0 not in bad else ('repaired' if 1 not in bad else None)


# ------------------------------------------------------------------------------------------------------------
# Verdicts that need the full-precision digests (the model only sees which content a result belongs to)
# ------------------------------------------------------------------------------------------------------------
def impure_steps(session, result, refs):
    """Steps whose fresh (non-hit) result is the reference result of its content as parsed by the client but whose
    report text or JSON output differs from the reference: numerically different run of the same input."""
    bad = []
    by_digest = {refs.of(c)[1]: refs.of(c) for c in contents_used(session) if refs.of(c)[0] == 'ret'}
    for i, b in enumerate(result['obs']):
        o = b['out']
        if o[0] == 'ret' and not o[2]:
            ref = by_digest.get(o[1])
            if ref is None:
                bad.append((i, 'result matches no reference result'))
            elif (o[3], o[4]) != (ref[3], ref[4]):
                bad.append((i, 'report text / JSON output differs from the reference run of the same content'))
    return bad


def violation_key(session, result, i, code):
    op, o = session['ops'][i], result['obs'][i]['out']
    what = {'ret': 'hit' if len(o) > 2 and o[2] else 'ok', 'raised': 'raised'}.get(o[0], o[0])
    if code == 'stale':
        return STALE_KEY
    if code == 'restore':
        return f'restore:{"cli" if op[0] == "cli" else "client"}:after-{what}'
    if code == 'refine':
        return f'refine:{"cli" if op[0] == "cli" else "client"}:{what}-not-run-of-current-content'
    return f'{code}:{op[0]}:{what}'


def compact(session, contents):
    """Self-contained copy: only the contents it uses, renumbered."""
    used = contents_used(session)
    ren = {c: k for k, c in enumerate(used)}
    return dict(session, ops=map_contents(session['ops'], ren.get), contents=[contents[c] for c in used])


def executable(ops, contents):
    """A getmix needs its base file to hold the text its combined content starts with (dropping the write before
    it would make the library-built request something else)."""
    files = {}
    for o in ops:
        if o[0] == 'write':
            files[o[1]] = contents[o[2]]
        elif o[0] == 'delete':
            files.pop(o[1], None)
        elif o[0] == 'getdict':
            files[o[2]] = contents[o[3]]
        elif o[0] == 'getmix':
            if files.get(o[3]) is None or contents[o[5]] != files[o[3]] + ''.join(f'{k}, {v}\n' for k, v in o[4]):
                return False
            files[o[2]] = contents[o[5]]
    return True


def minimize(ctx, session, contents, still_fails, budget_rounds=8, budget_s=60):
    """Greedy chunk removal (ddmin style); every candidate is executed on the real code in a fresh process."""
    ops = list(session['ops'])
    k = max(1, len(ops) // 2)
    rounds, t0 = 0, time.time()
    while k >= 1 and rounds < budget_rounds and len(ops) > 1 and time.time() - t0 < budget_s:
        cands = [ops[:i] + ops[i + k:] for i in range(0, len(ops), k)]
        cands = [c for c in cands if c and len(c) < len(ops) and executable(c, contents)][:16]
        if not cands:
            k //= 2
            continue
        verdicts = still_fails([dict(session, ops=c) for c in cands])
        rounds += 1
        good = [c for c, v in zip(cands, verdicts) if v]
        if good:
            ops = min(good, key=len)
            k = max(1, min(k, len(ops) // 2))
        elif k == 1:
            break
        else:
            k //= 2
    return dict(session, ops=ops)
