"""C08 helpers: build sessions (histories), run them on the real code (tools/lib/c08_worker.py), translate
operations and observations into Coq terms for Model/Process.v, and shrink a failing session."""
import json
import os
import subprocess
import sys
import time
from concurrent.futures import ThreadPoolExecutor
from pathlib import Path

from . import configs, framework as fw, runner

WORKER = str(Path(__file__).with_name('c08_worker.py'))
UNKNOWN = 999          # content id of a result that matches no reference result
CODES = {1: 'model', 2: 'restore', 3: 'refine', 4: 'stale', 9: 'harness'}
STALE_KEY = 'stale-cache:path-keyed-hit-after-file-changed'
STALE_REL_KEY = 'stale-cache:path-keyed-hit-same-relative-path-from-another-directory'

BASE = [('Reservoir Model', '4'), ('Drawdown Parameter', '0.005'), ('Reservoir Depth', '3'), ('Gradient 1', '50'),
        ('End-Use Option', '1'), ('Power Plant Type', '1'), ('Number of Production Wells', '2'),
        ('Number of Injection Wells', '2'), ('Plant Lifetime', '20'), ('Print Output to Console', '0')]
CELLS = [(1, 1, 1), (2, 9, 2), (1, 3, 3), (31, 2, 2), (2, 5, 1), (42, 4, 3), (51, 1, 1), (2, 6, 2), (1, 4, 2),
         (32, 1, 3), (41, 2, 1), (52, 3, 2)]


def _with(pairs, **changes):
    d = dict(pairs)
    d.update({k.replace('_', ' '): v for k, v in changes.items()})
    return runner.params_to_text(list(d.items()))


# inputs that state a parameter in BOTH its list form and its single-entry form: which one wins depends on the order in
# which the reader walks its parameters - it must not depend on the hash seed
BOTH_FORMS = [
    [('Reservoir Model', '4'), ('Drawdown Parameter', '0.005'), ('Reservoir Depth', '3'), ('Number of Segments', '1'),
     ('Gradients', '30, 40, 50, 60'), ('Gradient 1', '55'), ('End-Use Option', '1'), ('Power Plant Type', '1'),
     ('Number of Production Wells', '2'), ('Number of Injection Wells', '2'), ('Plant Lifetime', '20'),
     ('Print Output to Console', '0')],
    [('Reservoir Model', '4'), ('Drawdown Parameter', '0.005'), ('Reservoir Depth', '3'), ('Number of Segments', '3'),
     ('Gradients', '40, 50, 60, 70'), ('Gradient 2', '45'), ('Thicknesses', '1, 1.2, 1.4, 1.6'), ('Thickness 1', '0.8'),
     ('End-Use Option', '2'), ('Power Plant Type', '9'), ('Number of Production Wells', '2'),
     ('Number of Injection Wells', '2'), ('Plant Lifetime', '15'), ('Print Output to Console', '0')]]

KEEP = {'Reservoir Model', 'End-Use Option', 'Power Plant Type', 'Economic Model', 'Print Output to Console',
        'Reservoir Volume Option', 'Number of Segments'}


def content_pool(ctx, n):
    """Input texts from every end-use/plant/economic-model family (fast reservoir models), SPARSE variants of them
    that omit a random subset of the optional parameters (so that a run relying on defaults follows, in the same
    process, runs that overrode those parameters - shared mutable defaults show up as a result that differs from
    the fresh-process reference), + requests that fail at three different depths of a run (reader, Calculate,
    sys.exit).  All are `name, value` lines with unique names."""
    rnd = ctx.rng
    full = [BASE, list(dict(BASE, **{'Gradient 1': '70', 'Reservoir Depth': '2.5'}).items())]
    for i in range(n):
        eu, pl, ec = CELLS[i % len(CELLS)]
        p = configs.synthetic(rnd, enduse=eu, plant=pl, econ=ec, resmodel=rnd.choice([3, 4]),
                              life=rnd.choice([5, 10, 20, 30]), addons=False)
        if len(dict(p)) == len(p):
            full.append(p)
    sparse = [[kv for kv in BASE if kv[0] != 'Gradient 1'], [kv for kv in BASE if kv[0] != 'Reservoir Depth'],
              [kv for kv in BASE if kv[0] in KEEP]]
    for i in range(max(4, n // 2)):
        src = full[2 + i % max(1, len(full) - 2)] if len(full) > 2 else BASE
        frac = rnd.choice([0.25, 0.5, 0.8])
        sparse.append([kv for kv in src if kv[0] in KEEP or rnd.random() > frac])
    texts = [runner.params_to_text(p) for p in full + sparse + BOTH_FORMS]
    failing = [_with(BASE, **{'End-Use Option': '9'}),        # rejected by the reader
               _with(BASE, Reservoir_Depth='0.1'),            # raises inside Calculate
               _with(BASE, Reservoir_Model='5')]              # sys.exit() (missing reservoir output file)
    return texts, failing


OVERRIDES = [[['Print Output to Console', '0']], [['Gradient 1', '62'], ['Print Output to Console', '0']],
             [['Plant Lifetime', '25']]]


def combos(contents, base_ids):
    """Requests built from a base file AND overriding params: appends base text + override lines to [contents];
    -> [(base content id, override pairs, id of the combined content)]: same overrides over different bases and
    different overrides over the same base."""
    out = []
    for b in base_ids:
        for ov in OVERRIDES:
            contents.append(contents[b] + ''.join(f'{k}, {v}\n' for k, v in ov))
            out.append((b, ov, len(contents) - 1))
    return out


# Relative request paths.  Path 100 is a name that ALSO exists in the source directory (file 90, never written by a
# session), path 101 a name that does not; in session directory k they are the files 60+k and 70+k.
REL = {100: 'Examples/salton_sea.txt', 101: 'c08_relative_input.txt'}
SRC_FILE = 90
NDIRS = 3
HIP_TEXTS = ['Reservoir Temperature, 250.0\nRejection Temperature, 60.0\nReservoir Porosity, 10.0\nReservoir Area, 55.0\n'
             'Reservoir Thickness, 0.25\nReservoir Life Cycle, 25\n',
             'Reservoir Temperature, 200.0\nRejection Temperature, 50.0\nReservoir Area, 80.0\nReservoir Thickness, 0.3\n',
             'Reservoir Temperature, 180.0\n',                       # everything else left to the defaults
             'Reservoir Temperature, -5\nReservoir Area, 55.0\n']    # rejected


def rel_target(d, p):
    return (60 if p == 100 else 70) + d


def resolve_table():
    """[(dir code, path, file)]: what a relative path names in each directory (unlisted = the path itself)."""
    t = [(['D', d], p, rel_target(d, p)) for d in range(NDIRS) for p in REL]
    return t + [(['S'], 100, SRC_FILE)]


def src_example_text():
    return (fw.SRC / 'geophires_x' / REL[100]).read_text(encoding='UTF-8')


MC_INPUTS = {'g': [[], [['Gradient 1', 'uniform', '62', '62']]], 'h': [[], [['Reservoir Temperature', 'uniform', '210', '210']]]}


def mc_text(base_text, input_values):
    """Input file of a Monte-Carlo iteration: the base file, a newline, one line per sampled input (the
    'distributions' used here are uniform on [a, a]: the sample is a)."""
    return base_text + '\n' + ''.join(f'{n}, {float(a)}\n' for n, _dist, a, _b in input_values)


def mc_combos(contents, geo_bases, hip_bases):
    """-> [(prog kind 'g'|'h', base content id, input values, id of the iteration content)]"""
    out = []
    for kind, bases in (('g', geo_bases), ('h', hip_bases)):
        for b in bases:
            for iv in MC_INPUTS[kind]:
                contents.append(mc_text(contents[b], iv))
                out.append((kind, b, iv, len(contents) - 1))
    return out


def gen_session(rnd, ok_ids, bad_ids, length, hashseeds, mixes=(), src_content=None, hip_ids=(), mcs=()):
    """One random history.  Paths 0..np-1 are files of the session, 60.. the targets of the relative names, higher
    ids are created by the library (getdict, getmix).  [src_content]: content id of the source tree's own
    Examples/salton_sea.txt (enables relative requests); [hip_ids]: HIP-RA input contents (enable HIP requests;
    they are only ever requested through the HIP clients, GEOPHIRES contents only through GEOPHIRES)."""
    ndirs, npaths = NDIRS, rnd.randint(2, 4)
    ops, nclients, nextp = [], 0, npaths
    written = {}
    cwd0 = rnd.randrange(ndirs)
    cwd = cwd0
    is_hip = set(hip_ids) | {m[3] for m in mcs if m[0] == 'h'}
    geo = lambda: [q for q, c in written.items() if c not in is_hip]   # noqa: E731

    def newclient():
        nonlocal nclients
        ops.append(['newclient', rnd.random() < 0.6])
        nclients += 1

    newclient()
    while len(ops) < length:
        x = rnd.random()
        content = rnd.choice(ok_ids) if rnd.random() < 0.75 or not bad_ids else rnd.choice(bad_ids)
        if x < 0.06 and src_content is not None:
            # a RELATIVE request path: most of the time its file exists in the caller's directory
            p = rnd.choice(list(REL))
            t = rel_target(cwd, p)
            if written.get(t) is None and rnd.random() < 0.8:
                ops.append(['write', t, content])
                written[t] = content
            if written.get(t) not in is_hip:
                ops.append(['get', rnd.randrange(nclients), p])
        elif x < 0.09 and mcs:
            # a Monte-Carlo work package: n iterations embedded in this process
            kind, b, iv, cid = rnd.choice(mcs)
            holders = [q for q, c in written.items() if c == b and q < 60]
            if not holders:
                holders = [rnd.randrange(npaths)]
                ops.append(['write', holders[0], b])
                written[holders[0]] = b
            n = rnd.randint(2, 4)
            ops.append(['mc', 'g' if kind == 'g' else rnd.choice([1, 2]), rnd.choice(holders), n, iv, list(range(nextp, nextp + n)), cid])
            nextp += n
        elif x < 0.14 and hip_ids:
            k = rnd.choice([1, 1, 2])
            holders = [q for q, c in written.items() if c in is_hip]
            if not holders or rnd.random() < 0.4:
                q = rnd.choice(list(range(npaths)) + [rel_target(cwd, 101)])
                ops.append(['write', q, rnd.choice(list(hip_ids))])
                written[q] = ops[-1][2]
                holders = [q]
            q = rnd.choice(holders) if rnd.random() < 0.9 else 45                   # sometimes a missing file
            if q == rel_target(cwd, 101) and rnd.random() < 0.7:
                q = 101                                                               # ... by its relative name
            ops.append(['hip', k, q])
        elif x < 0.42:
            known = geo() if geo() and rnd.random() < 0.9 else [q for q in range(nextp) if written.get(q) not in is_hip]
            if known:
                ops.append(['get', rnd.randrange(nclients) if rnd.random() < 0.97 else nclients, rnd.choice(known)])
        elif x < 0.64:
            p = rnd.randrange(npaths)
            ops.append(['write', p, content])
            written[p] = content
        elif x < 0.70:
            ops.append(['getdict', rnd.randrange(nclients), nextp, content])
            written[nextp] = content
            nextp += 1
        elif x < 0.78 and mixes:
            b, ov, cid = rnd.choice(mixes)
            holders = [q for q, c in written.items() if c == b]
            if not holders:   # put the base content into a file first
                holders = [rnd.randrange(npaths)]
                ops.append(['write', holders[0], b])
                written[holders[0]] = b
            ops.append(['getmix', rnd.randrange(nclients), nextp, rnd.choice(holders), ov, cid])
            written[nextp] = cid
            nextp += 1
        elif x < 0.80 and written:
            p = rnd.choice([q for q in written if q < npaths] or [0])
            ops.append(['delete', p])
            written.pop(p, None)
        elif x < 0.85:
            cwd = rnd.randrange(ndirs)
            ops.append(['chdir', cwd])
        elif x < 0.90:
            ops.append(['setargv', ['u%d' % rnd.randrange(9) for _ in range(rnd.randint(0, 4))]])
        elif x < 0.95:
            newclient()
        elif written:
            ops.append(['cli', rnd.choice([q for q in geo() if q < npaths] or [46])])
    s = {'ndirs': ndirs, 'npaths': npaths, 'cwd': cwd0, 'argv': ['u0', 'u1'],
         'hashseed': str(rnd.choice(hashseeds)), 'ops': ops, 'hip_contents': sorted(is_hip)}
    if src_content is not None:
        s['src_content'] = src_content
    return s


def reference_session(prog, content_id):
    """prog 'g': GEOPHIRES client; 1 / 2: HIP-RA-X / HIP-RA client."""
    req = [['newclient', False], ['get', 0, 0]] if prog == 'g' else [['hip', prog, 0]]
    return {'ndirs': 1, 'npaths': 1, 'cwd': 0, 'argv': ['u0'], 'hashseed': '0', 'ops': [['write', 0, content_id]] + req}


def run_sessions(ctx, sessions, contents, tag):
    """Execute sessions on the real code, one fresh process each (16 at a time).  -> list of worker results."""
    root = ctx.scratch / f'c08_{tag}'
    groups = {}
    for i, s in enumerate(sessions):
        base = root / f's{i}'
        job = {'dirs': [str(base / f'd{k}') for k in range(s['ndirs'])], 'contents': contents, 'cwd': s['cwd'],
               'argv': s['argv'], 'ops': s['ops'], 'tmp': str(base / 'tmp'), 'out': str(base / 'out.json')}
        # the same file NAME occurs in several directories: a cache keyed on less than the whole path collides
        job['paths'] = [str(Path(job['dirs'][p % s['ndirs']]) / f'in{p // s["ndirs"]}.txt') for p in range(s['npaths'])]
        job['files'] = {rel_target(d, p): str(Path(job['dirs'][d]) / REL[p]) for d in range(s['ndirs']) for p in REL}
        job['files'].update({q: str(Path(job['dirs'][0]) / f'never_written_{q}.txt') for q in (44, 45, 46)})
        job['rel'] = REL
        base.mkdir(parents=True, exist_ok=True)
        groups.setdefault(s['hashseed'], []).append(job)
    chunks = []
    per = max(1, -(-len(sessions) // 16))
    for seed, jobs in sorted(groups.items()):
        chunks += [(seed, jobs[k:k + per]) for k in range(0, len(jobs), per)]

    def run_chunk(args):
        n, (seed, jobs) = args
        jf = root / f'jobs_{n}.json'
        jf.write_text(json.dumps(jobs))
        env = dict(os.environ, PYTHONHASHSEED=seed, PYTHONDONTWRITEBYTECODE='1')
        env.pop('GEOPHIRES_X_VERIF', None)   # the baseline path of main(): verification hook off
        p = subprocess.run(['timeout', str(120 + 30 * len(jobs)), fw.PY, '-B', WORKER, str(jf)], env=env,
                           capture_output=True, text=True, cwd=str(root))
        return p.returncode, p.stderr[-1500:]

    with ThreadPoolExecutor(max_workers=16) as ex:
        rcs = list(ex.map(run_chunk, enumerate(chunks)))
    out = []
    for i, s in enumerate(sessions):
        f = root / f's{i}' / 'out.json'
        r = json.loads(f.read_text()) if f.exists() else {'error': 'worker produced no output: %r' % (rcs[:3],)}
        if 'error' in r:
            raise RuntimeError(f'C08 worker failed on session {i} ({tag}): {r["error"]}')
        out.append(r)
    return out


class References:
    """Reference result of every (program, content): one request in a fresh process (caching off, hash seed 0)."""

    def __init__(self, ctx, contents):
        self.ctx, self.contents, self.ref = ctx, contents, {}

    def ensure(self, ids, prog='g'):
        self.ensure_pairs([(prog, c) for c in ids])

    def ensure_pairs(self, pairs):
        todo = [(g, c) for g, c in sorted(set(pairs), key=str) if (g, self.contents[c]) not in self.ref]
        if todo:
            res = run_sessions(self.ctx, [reference_session(g, c) for g, c in todo], self.contents, f'ref{len(self.ref)}')
            for (g, c), r in zip(todo, res):
                self.ref[(g, self.contents[c])] = r['obs'][-1]['out']

    def of(self, c, prog='g'):
        return self.ref[(prog, self.contents[c])]

    def okc(self, ids):
        return [c for c in sorted(set(ids)) if self.of(c)[0] == 'ret']

    def content_of_digest(self, ids):
        return {self.of(c)[1]: c for c in sorted(set(ids), reverse=True) if self.of(c)[0] == 'ret'}


CONTENT_FIELD = {'write': 2, 'getdict': 3, 'getmix': 5, 'mc': 6}


def map_contents(ops, f):
    """Copy of the operations with f applied to every content id."""
    out = []
    for o in ops:
        o = list(o)
        if o[0] in CONTENT_FIELD:
            o[CONTENT_FIELD[o[0]]] = f(o[CONTENT_FIELD[o[0]]])
        out.append(o)
    return out


def contents_used(s):
    extra = {s['src_content']} if s.get('src_content') is not None else set()
    return sorted({o[CONTENT_FIELD[o[0]]] for o in s['ops'] if o[0] in CONTENT_FIELD} | extra)


def remap_session(s, f):
    """Copy of the session with f applied to every content id (operations and session-level fields)."""
    out = dict(s, ops=map_contents(s['ops'], f), hip_contents=sorted(f(c) for c in s.get('hip_contents', [])))
    if s.get('src_content') is not None:
        out['src_content'] = f(s['src_content'])
    return out


def hip_pairs(s):
    """(program, content) pairs a HIP request of the session can run: the content of the file its path names for
    the caller and for the program, at that point of the history."""
    rt = {(tuple(d), p): f for d, p, f in resolve_table()}
    files = {SRC_FILE: s['src_content']} if s.get('src_content') is not None else {}
    cwd, pairs = ('D', s['cwd']), set()
    for o in s['ops']:
        if o[0] == 'write':
            files[o[1]] = o[2]
        elif o[0] == 'delete':
            files.pop(o[1], None)
        elif o[0] == 'chdir':
            cwd = ('D', o[1])
        elif o[0] == 'hip':
            for d in (cwd, ('P', o[1])):
                c = files.get(rt.get((d, o[2]), o[2]))
                if c is not None:
                    pairs.add((o[1], c))
        elif o[0] == 'mc' and o[1] != 'g':
            pairs.add((o[1], o[6]))
    return pairs


def geo_contents(s):
    """Contents that take part in GEOPHIRES requests (HIP-RA inputs only go to the HIP clients)."""
    return [c for c in contents_used(s) if c not in set(s.get('hip_contents', []))]


def ensure_refs(refs, s):
    hipc = set(s.get('hip_contents', [])) & set(contents_used(s))
    refs.ensure_pairs([('g', c) for c in geo_contents(s)] + [(k, c) for c in hipc for k in (1, 2)] + list(hip_pairs(s)))


# ------------------------------------------------------------------------------------------------------------
# Coq terms
# ------------------------------------------------------------------------------------------------------------
def q_dir(d):
    return 'DSrc' if d[0] == 'S' else f'({"DPkg" if d[0] == "P" else "DUser"} {int(d[1])})'


def q_arg(a):
    return {'E': lambda: 'AEmpty', 'I': lambda: f'(AIn {int(a[1])})', 'O': lambda: f'(AOut {int(a[1])}%Z)',
            'U': lambda: f'(AUser {int(a[1])})', 'H': lambda: 'AHipOut'}[a[0]]()


def q_argv(av):
    return '[' + '; '.join(q_arg(a) for a in av) + ']'


def q_tokens(toks):
    return '[' + '; '.join(f'(AUser {int(t[1:])})' for t in toks) + ']'


def hipres(k, c):
    return 1000 + 10 * c + k


def expand(session, result, digest2content, canon=lambda c: c, hip_digest=None):
    """-> (Coq ops, Coq observations, origin) with a getdict/getmix unfolded into Write + Get and a Monte-Carlo work
    package into (Write; NewClient; Get; Delete) per iteration; origin[k] = index of the operation the k-th model step
    came from.  Contents with the same reference result are interchangeable: [canon] maps a content id to the
    representative of its class (the one [digest2content] names)."""
    ops, obs, origin = [], [], []
    cmap, nmodel = [], 0     # harness client number -> model client number (the embedded MC clients count too)
    session = dict(session, ops=map_contents(session['ops'], canon))

    def q_out(o, hipk=None):
        if o[0] == 'ret' and hipk is not None:
            return f'(Returned {(hip_digest or {}).get((hipk, o[1]), UNKNOWN)} false)'
        if o[0] == 'ret':
            return f'(Returned {digest2content.get(o[1], UNKNOWN)} {"true" if o[2] else "false"})'
        return {'raised': 'Raised', 'noclient': 'NoSuchClient', 'done': 'Done'}[o[0]]

    def emit(i, op_term, b, out, still=None):
        pre = (q_dir(b['cb']), q_argv(b['ab'])) if still != 'post' else (q_dir(b['ca']), q_argv(b['aa']))
        post = pre if still else (q_dir(b['ca']), q_argv(b['aa']))
        ops.append(op_term)
        obs.append(f'mkObs {pre[0]} {pre[1]} {post[0]} {post[1]} {out}')
        origin.append(i)

    for i, (op, b) in enumerate(zip(session['ops'], result['obs'])):
        kind, o = op[0], b['out']
        ci = lambda: cmap[op[1]] if op[1] < len(cmap) else 900 + op[1]   # noqa: E731
        if kind == 'mc':
            for rec, pid in zip(o[1], op[5]):
                if rec['out'][0] == 'raised' and 'before the embedded client' in rec['out'][2]:
                    continue   # the work package failed while preparing its input file: no request was made
                emit(i, f'Write {pid} {op[6]}', rec, 'Done', still='pre')
                if op[1] == 'g':
                    emit(i, 'NewClient true', rec, 'Done', still='pre')
                    emit(i, f'Get {nmodel} {pid}', rec, q_out(rec['out']))
                    nmodel += 1
                else:
                    emit(i, f'HipGet {op[1]} {pid}', rec, q_out(rec['out'], op[1]))
                if rec['out'][0] == 'ret':
                    emit(i, f'Delete {pid}', rec, 'Done', still='post')
            continue
        if kind in ('getdict', 'getmix'):
            emit(i, f'Write {op[2]} {op[CONTENT_FIELD[kind]]}', b, 'Done', still='pre')
        if kind == 'newclient':
            cmap.append(nmodel)
            nmodel += 1
        term = {'newclient': lambda: f'NewClient {"true" if op[1] else "false"}',
                'get': lambda: f'Get {ci()} {op[2]}', 'getdict': lambda: f'Get {ci()} {op[2]}',
                'getmix': lambda: f'Get {ci()} {op[2]}',
                'write': lambda: f'Write {op[1]} {op[2]}', 'delete': lambda: f'Delete {op[1]}',
                'chdir': lambda: f'Chdir (DUser {op[1]})', 'setargv': lambda: f'SetArgv {q_tokens(op[1])}',
                'cli': lambda: f'Cli {op[1]}', 'hip': lambda: f'HipGet {op[1]} {op[2]}'}[kind]()
        emit(i, term, b, q_out(o, op[1] if kind == 'hip' else None))
    return ops, obs, origin


def session_term(fn, fixed, session, result, refs):
    ids = geo_contents(session)
    d2c = refs.content_of_digest(ids)
    hipc = set(session.get('hip_contents', []))
    # contents with the same reference results are interchangeable: GEOPHIRES inputs by their GEOPHIRES result,
    # HIP-RA inputs by their results under both HIP programs (when both references are known)
    hclass = {}
    for c in sorted(hipc & set(contents_used(session))):
        sig = tuple(tuple(refs.ref[(k, refs.contents[c])][:2]) if (k, refs.contents[c]) in refs.ref else ('?', c) for k in (1, 2))
        hclass.setdefault(sig, c)
        hclass[c] = hclass[sig]
    canon = lambda c: hclass.get(c, c) if c in hipc else (c if refs.of(c)[0] != 'ret' else d2c[refs.of(c)[1]])   # noqa: E731
    pairs = sorted({(k, canon(c)) for k, c in hip_pairs(session)})
    okh = [(k, c) for k, c in pairs if refs.of(c, k)[0] == 'ret']
    hip_digest = {(k, refs.of(c, k)[1]): hipres(k, c) for k, c in reversed(okh)}
    ops, obs, origin = expand(session, result, d2c, canon, hip_digest)
    okc = '[' + '; '.join(str(c) for c in sorted({canon(c) for c in refs.okc(ids)})) + ']'
    rt = '[' + '; '.join(f'({q_dir(d)}, {p}, {f})' for d, p, f in resolve_table()) + ']'
    f0 = f'[({SRC_FILE}, Some {canon(session["src_content"])})]' if session.get('src_content') is not None else '[]'
    cfg = f'(mkCfg {okc} [{"; ".join(f"({k}, {c})" for k, c in okh)}] {rt} {f0})'
    return (f'{fn} {"true" if fixed else "false"} {cfg} (DUser {session["cwd"]}) {q_tokens(session["argv"])}\n'
            f'  [{"; ".join(ops)}]\n  [{"; ".join(obs)}]'), origin


def check_sessions(ctx, name, sessions, results, refs, chunk=60):
    """Evaluate Model.Process.session_check in the kernel.  -> per session: list of (operation index, code name)."""
    out = [[] for _ in sessions]
    for lo in range(0, len(sessions), chunk):
        part = list(range(lo, min(len(sessions), lo + chunk)))
        terms = [session_term('session_check', True, sessions[i], results[i], refs) for i in part]
        body = lambda a, b: 'sessions_result [\n ' + ';\n '.join(t for t, _ in terms) + ']'   # noqa: E731
        codes = fw.kernel_eval(ctx, f'{name}_{lo}', ['Model.Process'], body, len(part), shard=len(part), open_scope='nat_scope')
        for x in codes:
            k, step, code = x // 100000, (x % 100000) // 10, x % 10
            out[part[k]].append((terms[k][1][step] if step < len(terms[k][1]) else step, CODES.get(code, str(code))))
    return out


def matches_variant(ctx, name, session, result, refs):
    """Which named alternative of the model reproduces the whole session: a REGRESSION to the pinned tree ('pinned
    restore': restore only after success, before f0516a1; 'pinned path': request path opened in the program directory,
    before fa4a753), the REPAIRED cache (content-keyed, proved sound in Coq), or None."""
    variants = [('pinned restore', 'session_matches false'), ('pinned path', 'session_matches_pinned_path'),
                ('repaired: content-keyed cache', 'session_matches_repaired true')]
    terms = []
    for _n, fn in variants:
        fn, *flag = fn.split()
        t = session_term(fn, flag == ['true'], session, result, refs)[0]
        terms.append(t if flag else t.replace(f'{fn} false ', f'{fn} ', 1))
    bad = set(fw.kernel_bools(ctx, name, ['Model.Process'], terms, open_scope='nat_scope'))
    return next((n for k, (n, _f) in enumerate(variants) if k not in bad), None)


# ------------------------------------------------------------------------------------------------------------
# Verdicts that need the full-precision digests (the model only sees which content a result belongs to)
# ------------------------------------------------------------------------------------------------------------
def impure_steps(session, result, refs):
    """Steps whose fresh (non-hit) result is the reference result of its content as parsed by the client but whose
    report text or JSON output differs from the reference: numerically different run of the same input."""
    bad = []
    by_digest = {refs.of(c)[1]: refs.of(c) for c in geo_contents(session) if refs.of(c)[0] == 'ret'}
    hip = {(k, refs.of(c, k)[1]): refs.of(c, k) for k, c in hip_pairs(session) if refs.of(c, k)[0] == 'ret'}
    for i, (op, b) in enumerate(zip(session['ops'], result['obs'])):
        hipk = op[1] if op[0] == 'hip' or (op[0] == 'mc' and op[1] != 'g') else None
        for o in ([r['out'] for r in b['out'][1]] if op[0] == 'mc' else [b['out']]):
            if o[0] == 'ret' and not o[2]:
                ref = hip.get((hipk, o[1])) if hipk else by_digest.get(o[1])
                if ref is None:
                    bad.append((i, 'result matches no reference result'))
                elif (o[3], o[4]) != (ref[3], ref[4]):
                    bad.append((i, 'report text / JSON output differs from the reference run of the same content'))
    return bad


def stale_key(session, result, i):
    """The cache key is the path as given: a hit on a RELATIVE path whose entry was made from another working
    directory is the 'other directory' flavour of the stale cache; everything else is 'file changed'."""
    op = session['ops'][i]
    if op[0] == 'get' and op[2] in REL:
        for j in range(i - 1, -1, -1):
            o, b = session['ops'][j], result['obs'][j]
            if o[0] == 'get' and o[1:3] == op[1:3] and b['out'][0] == 'ret' and not b['out'][2]:
                return STALE_REL_KEY if b['cb'] != result['obs'][i]['cb'] else STALE_KEY
    return STALE_KEY


def violation_key(session, result, i, code):
    op, o = session['ops'][i], result['obs'][i]['out']
    what = {'ret': 'hit' if len(o) > 2 and o[2] else 'ok', 'raised': 'raised'}.get(o[0], o[0])
    who = {'cli': 'cli', 'hip': 'hip', 'mc': 'mc-embedded-' + ('client' if op[1] == 'g' else 'hip')}.get(op[0], 'client')
    if code == 'stale':
        return stale_key(session, result, i)
    if op[0] == 'mc':
        return f'{code}:{who}'
    if code == 'restore':
        return f'restore:{who}:after-{what}'
    if code == 'refine':
        return f'refine:{who}:{what}-not-run-of-current-content'
    return f'{code}:{op[0]}:{what}'


def compact(session, contents):
    """Self-contained copy: only the contents it uses, renumbered."""
    used = contents_used(session)
    ren = {c: k for k, c in enumerate(used)}
    keep = set(used)
    out = remap_session(dict(session, hip_contents=[c for c in session.get('hip_contents', []) if c in keep]), ren.get)
    return dict(out, contents=[contents[c] for c in used])


def executable(ops, contents):
    """A getmix needs its base file to hold the text its combined content starts with (dropping the write before
    it would make the library-built request something else)."""
    files = {}
    for o in ops:
        if o[0] == 'write':
            files[o[1]] = contents[o[2]]
        elif o[0] == 'delete':
            files.pop(o[1], None)
        elif o[0] == 'getdict':
            files[o[2]] = contents[o[3]]
        elif o[0] == 'getmix':
            if files.get(o[3]) is None or contents[o[5]] != files[o[3]] + ''.join(f'{k}, {v}\n' for k, v in o[4]):
                return False
            files[o[2]] = contents[o[5]]
        elif o[0] == 'mc' and (files.get(o[2]) is None or contents[o[6]] != mc_text(files[o[2]], o[4])):
            return False
    return True


def minimize(ctx, session, contents, still_fails, budget_rounds=8, budget_s=60):
    """Greedy chunk removal (ddmin style); every candidate is executed on the real code in a fresh process."""
    ops = list(session['ops'])
    k = max(1, len(ops) // 2)
    rounds, t0 = 0, time.time()
    while k >= 1 and rounds < budget_rounds and len(ops) > 1 and time.time() - t0 < budget_s:
        cands = [ops[:i] + ops[i + k:] for i in range(0, len(ops), k)]
        cands = [c for c in cands if c and len(c) < len(ops) and executable(c, contents)][:16]
        if not cands:
            k //= 2
            continue
        verdicts = still_fails([dict(session, ops=c) for c in cands])
        rounds += 1
        good = [c for c, v in zip(cands, verdicts) if v]
        if good:
            ops = min(good, key=len)
            k = max(1, min(k, len(ops) // 2))
        elif k == 1:
            break
        else:
            k //= 2
    return dict(session, ops=ops)
