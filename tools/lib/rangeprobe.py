"""Probe values for float/int parameters and observation of the real readers (shared by C07 and C19).

A probe is (tag, sValue, v): the text written in the input file and the exact rational of float(sValue).
An observation is {'o': ('A', Fraction)|('U',)|('R', name_in_message)|('C', text), 'fin': Fraction|None, 'prov': bool}.
"""
import contextlib
import copy
import io
import math
import re
from fractions import Fraction

from gen import paramtable
from lib import qconv

RANGE_MSG = re.compile(r'for (.*) outside of valid range')


def fl(x):
    return repr(float(x))


def float_probes(r, rnd, extra=0):
    lo, hi = float(r['min']), float(r['max'])
    # next double outside the bound (around 0 the neighbours are denormals with 324-digit rationals: 2^-60 instead)
    below = math.nextafter(lo, -math.inf) if lo != 0 else -2.0 ** -60
    above = math.nextafter(hi, math.inf) if hi != 0 else 2.0 ** -60
    out = [('min', lo), ('max', hi), ('below-min', below), ('above-max', above),
           ('far-below', lo - 1.0 - abs(lo) * 0.5), ('far-above', hi + 1.0 + abs(hi) * 0.5)]
    if lo < hi:
        u = rnd.randint(1, 999) / 1000.0
        x = lo + (hi - lo) * u
        out.append(('inside', float(f'{x:.6g}') if lo <= float(f'{x:.6g}') <= hi else x))
    for _ in range(extra):                     # thorough tier: random values inside and outside
        u = rnd.random()
        if lo < hi:
            out.append(('inside', lo + (hi - lo) * u))
        span = (hi - lo) if hi > lo else 1.0
        out += [('far-below', lo - span * (u + 1e-6) * rnd.choice([1e-9, 1e-3, 1.0, 1e3])),
                ('far-above', hi + span * (u + 1e-6) * rnd.choice([1e-9, 1e-3, 1.0, 1e3]))]
    out = [(t, x) for t, x in out if math.isfinite(x) and (t not in ('far-below', 'below-min') or x < lo) and (t not in ('far-above', 'above-max') or x > hi)]
    for tag in ('default', 'value'):
        if r[tag] is not None:
            out.append(('sentinel-' + tag, float(r[tag])))
    return [(t, fl(x), Fraction(float(fl(x)))) for t, x in out]


def int_probes(r, rnd, extra=0):
    runs = r['runs']
    out = []
    if not runs:
        return out
    lo, hi = runs[0][0], runs[-1][1]
    out += [('min', str(lo)), ('max', str(hi)), ('below-min', str(lo - 1)), ('above-max', str(hi + 1)),
            ('far-below', str(lo - 1000)), ('far-above', str(hi + 1000)), ('float-form', f'{hi}.0')]
    if len(runs) > 1:
        out.append(('non-member', str(runs[0][1] + 1)))           # inside the hull, not in the set
    special = {int(r[t]) for t in ('default', 'value') if r[t] is not None and r[t].denominator == 1}
    members = [n for a, b in runs for n in (a, b, (a + b) // 2) if n not in special]
    if members:                                                   # non-integral, truncates to a member
        n = rnd.choice(sorted(set(members)))
        out.append(('fraction', f'{n}.7'))
    if hi >= 0:
        out.append(('fraction', f'{hi}.5'))                              # just above max, truncates to max
    if lo <= 0:
        out.append(('fraction', f'{lo}.5' if lo < 0 else '-0.5'))        # just below min, truncates to min
    for _ in range(extra):                     # thorough tier: random members, neighbours and fractions
        a, b = rnd.choice(runs)
        n = rnd.randint(a, min(b, a + 10 ** 6))
        out.append(('member' if n not in special else 'sentinel-default', str(n)))
        k = rnd.choice([lo - rnd.randint(1, 50), hi + rnd.randint(1, 50)])
        out.append(('far-below' if k < lo else 'far-above', str(k)))
        if n not in special:
            out.append(('fraction', f'{n}.{rnd.randint(1, 99):02d}'.rstrip('0')))
    for tag in ('default', 'value'):
        if r[tag] is not None:
            x = r[tag]
            out.append(('sentinel-' + tag, str(int(x)) if x.denominator == 1 else fl(x)))
    return [(t, s, Fraction(float(s))) for t, s in out]


def probes(r, rnd, extra=0):
    return float_probes(r, rnd, extra) if r['kind'] == 'KFloat' else int_probes(r, rnd, extra) if r['kind'] == 'KInt' else []


def used_value(val):
    """The number a module holds after reading (enum members of option parameters by their input integer)."""
    if hasattr(val, 'int_value'):
        val = val.int_value
    try:
        return paramtable.num(val)
    except ValueError:
        return None


def classify(exc, name):
    """Exception of a read -> ('R', parameter named by the range message) | ('C', text)."""
    msg = str(exc)
    m = RANGE_MSG.search(msg)
    if isinstance(exc, (ValueError, RuntimeError)) and m:
        return ('R', name if m.group(1) == name else m.group(1)[:120])
    return ('C', f'{type(exc).__name__}: {msg}'[:160])


def observe_reader(p, name, s, model):
    """The real ReadParameter on a private copy of the live Parameter object."""
    from geophires_x.Parameter import ParameterEntry, ReadParameter
    q = copy.deepcopy(p)
    old = q.value
    entry = ParameterEntry(Name=name, sValue=s, raw_entry=f'{name}, {s}')
    try:
        with contextlib.redirect_stdout(io.StringIO()):
            ReadParameter(entry, q, model)
    except Exception as e:  # noqa
        return {'o': classify(e, name), 'fin': None, 'prov': bool(q.Provided)}
    same = type(q.value) is type(old) and q.value == old
    fin = used_value(q.value)
    return {'o': ('U',) if same else ('A', fin), 'fin': fin, 'prov': bool(q.Provided)}


def outcome_lit(o):
    if o[0] == 'A':
        return 'Crash' if o[1] is None else f'Accept {qconv.q(o[1])}'
    if o[0] == 'U':
        return 'Unchanged'
    if o[0] == 'R':
        return 'Reject ' + paramtable.cs(o[1])
    return 'Crash'


def rcase_lit(i, v, obs):
    fin = 'None' if obs['fin'] is None else f'(Some {qconv.q(obs["fin"])})'
    return f'({i}%nat, {qconv.q(v)}, {outcome_lit(obs["o"])}, {fin}, {qconv.blit(obs["prov"])})'


def show(obs):
    o = obs['o']
    txt = {'A': 'accepted', 'U': 'no error, value untouched', 'R': 'ValueError naming', 'C': 'other exception'}[o[0]]
    extra = '' if len(o) == 1 else f' {float(o[1]) if isinstance(o[1], Fraction) else o[1]!r}'
    return f'{txt}{extra}; value in use afterwards: {None if obs["fin"] is None else float(obs["fin"])}; Provided={obs["prov"]}'


# ---------------------------------------------------------------------------------------------------------
# the modules' own read_parameters loops, and whole Model / HIP_RA_X reads (configuration families)
# ---------------------------------------------------------------------------------------------------------

# post-read special cases that rescale the stored value (Reservoir.read_parameters: km -> m;
# WellBores.read_parameters: GPa.s/m3 -> kPa.s/kg); the value in use is bound * factor
RESCALED = {'Reservoir Depth': 1000.0, 'Reservoir Impedance': 1000.0}


def stored_value(name, q, s):
    """Parameter object after a module read -> the supplied number it corresponds to (None if not a number).
    For the rescaled parameters the stored value is compared with float(s) * factor, as the code computes it."""
    val = q.value
    if hasattr(val, 'int_value'):
        val = val.int_value
    if isinstance(val, bool) or not isinstance(val, (int, float)):
        return None
    if name in RESCALED and val != float(s) and float(s) * RESCALED[name] == val:
        return Fraction(float(s))      # (SBTReservoir re-reads after the base class and ends with the unscaled value)
    return paramtable.num(val)


def observe_module(pkg, cls, model, name, s, key=None):
    """Fresh instance of a module class; only `name` is provided (written under the input-file key `key` when it is a
    deprecated alias of `name`); the class's own read_parameters runs."""
    import inspect
    import os
    import sys
    from pathlib import Path
    from geophires_x.Parameter import ParameterEntry
    o = paramtable.instantiate(pkg, cls, model)
    key = key or name
    entry = {key: ParameterEntry(Name=key, sValue=s, raw_entry=f'{key}, {s}')}
    stash = (os.getcwd(), sys.argv)
    try:
        with contextlib.redirect_stdout(io.StringIO()):
            if pkg == 'hip_ra_x':
                sys.argv = ['']            # no file: read_input_file leaves the dict we pre-load untouched
                o.InputParameters = entry
                o.read_parameters()
            else:
                model.InputParameters = entry
                if 'default_output_path' in inspect.signature(o.read_parameters).parameters:
                    o.read_parameters(model, default_output_path=Path(os.environ.get('TMPDIR', '/var/tmp')))
                else:
                    o.read_parameters(model)
    except Exception as e:  # noqa
        return {'o': classify(e, name), 'fin': None, 'prov': False}
    finally:
        os.chdir(stash[0])
        sys.argv = stash[1]
        if pkg != 'hip_ra_x':
            model.InputParameters = {}
    q = o.ParameterDict[name]
    fin = stored_value(name, q, s)
    return {'o': ('A', fin), 'fin': fin, 'prov': bool(q.Provided)}   # caller turns 'A' into 'U' when fin is the start value


MODEL_PARTS = ('reserv', 'wellbores', 'surfaceplant', 'economics', 'outputs', 'addeconomics', 'sdacgteconomics',
               'addoutputs', 'sdacgtoutputs')


def _holder(parts, name):
    for o in parts:
        pd = getattr(o, 'ParameterDict', None)
        if pd and name in pd:
            return o
    return None


def with_line(base_text, name, s, alias=None):
    """base input + one overriding line; under a deprecated alias the base must not give the current name as well"""
    if alias:
        keep = [ln for ln in base_text.splitlines() if ln.split(',')[0].strip() not in (name, alias)]
        return '\n'.join(keep) + f'\n{alias}, {s}\n'
    return base_text.rstrip('\n') + f'\n{name}, {s}\n'


def family_read(job):
    """Worker: Model(input file) + Model.read_parameters() (or HIP_RA_X) on base text + one overriding line.
    -> (class that holds the parameter, observation)"""
    import logging
    import os
    import sys
    import uuid
    from pathlib import Path
    kind, base_text, name, s, scratch = job[:5]
    logging.disable(logging.CRITICAL)
    path = Path(scratch, f'fam_{uuid.uuid4().hex[:12]}.txt')
    path.write_text(with_line(base_text, name, s, job[5] if len(job) > 5 else None))
    stash = (os.getcwd(), sys.argv)
    cls, parts = None, []
    try:
        with contextlib.redirect_stdout(io.StringIO()):
            if kind == 'hip':
                from hip_ra_x.hip_ra_x import HIP_RA_X
                sys.argv = ['', str(path)]
                m = HIP_RA_X(enable_hip_ra_logging_config=False)
                parts = [m]
                cls = type(m).__name__
                m.read_parameters()
            else:
                import geophires_x.Model as M
                sys.argv = ['', str(path), str(path.with_suffix('.out'))]
                os.chdir(os.path.dirname(os.path.abspath(M.__file__)))      # as GEOPHIRESv3.main() does
                m = M.Model(enable_geophires_logging_config=False)
                h = _holder([getattr(m, a, None) for a in MODEL_PARTS], name)
                cls = type(h).__name__ if h is not None else None
                m.read_parameters(default_output_path=Path(scratch))
                parts = [getattr(m, a, None) for a in MODEL_PARTS]
    except BaseException as e:  # noqa
        return cls, {'o': classify(e, name), 'fin': None, 'prov': False}
    finally:
        os.chdir(stash[0])
        sys.argv = stash[1]
        with contextlib.suppress(OSError):
            path.unlink()
    h = _holder(parts, name)
    if h is None:
        return None, {'o': ('C', 'parameter not held by any active module'), 'fin': None, 'prov': False}
    q = h.ParameterDict[name]
    if isinstance(q.value, float) and math.isnan(q.value):
        return type(h).__name__, {'o': ('A', None), 'fin': None, 'prov': bool(q.Provided), 'nan': True}
    fin = stored_value(name, q, s)
    return type(h).__name__, {'o': ('A', fin), 'fin': fin, 'prov': bool(q.Provided)}


def client_run(job):
    """Worker: the public clients.  -> {'error': text|None, 'result_file': bool}"""
    import logging
    import os
    import tempfile
    from pathlib import Path
    kind, base_text, name, s, scratch = job[:5]
    logging.disable(logging.CRITICAL)
    os.environ['TMPDIR'] = scratch
    tempfile.tempdir = scratch
    import uuid
    path = Path(scratch, f'cli_{uuid.uuid4().hex[:12]}.txt')
    path.write_text(with_line(base_text, name, s, job[5] if len(job) > 5 else None))
    out, err = None, None
    try:
        with contextlib.redirect_stdout(io.StringIO()):
            if kind == 'hip':
                from hip_ra import HipRaInputParameters
                from hip_ra_x import HipRaXClient
                ip = HipRaInputParameters(str(path))
                out = ip.output_file_path
                HipRaXClient().get_hip_ra_result(ip)
            else:
                from geophires_x_client import GeophiresInputParameters, GeophiresXClient
                ip = GeophiresInputParameters(from_file_path=path)
                out = ip.get_output_file_path()
                GeophiresXClient(enable_caching=False).get_geophires_result(ip)
    except BaseException as e:  # noqa
        err = f'{type(e).__name__}: {e}'[:300]
    exists = out is not None and Path(out).exists()
    for f in (path, out, Path(out).with_suffix('.json') if out else None):
        if f:
            with contextlib.suppress(OSError):
                Path(f).unlink()
    return {'error': err, 'result_file': exists}


# ---------------------------------------------------------------------------------------------------------
# deprecated aliases: keys a read_parameters method looks up in InputParameters that are no Parameter Name
# ---------------------------------------------------------------------------------------------------------

def _lookup_keys(fn):
    """string keys a function looks up in / tests against `<x>.InputParameters` (constants, or names bound to one)"""
    import ast
    import inspect
    mod = ast.parse(open(inspect.getsourcefile(fn)).read())
    cname = fn.__qualname__.split('.')[0]
    tree = next(f for c in ast.walk(mod) if isinstance(c, ast.ClassDef) and c.name == cname
                for f in c.body if isinstance(f, ast.FunctionDef) and f.name == fn.__name__)
    consts = {n.targets[0].id: n.value.value for n in ast.walk(tree)
              if isinstance(n, ast.Assign) and len(n.targets) == 1 and isinstance(n.targets[0], ast.Name)
              and isinstance(n.value, ast.Constant) and isinstance(n.value.value, str)}

    def res(x):
        if isinstance(x, ast.Constant) and isinstance(x.value, str):
            return x.value
        return consts.get(x.id) if isinstance(x, ast.Name) else None

    def is_ip(x):
        return isinstance(x, ast.Attribute) and x.attr == 'InputParameters'
    out = set()
    for n in ast.walk(tree):
        if isinstance(n, ast.Subscript) and is_ip(n.value):
            out.add(res(n.slice))
        if isinstance(n, ast.Compare) and len(n.comparators) == 1 and is_ip(n.comparators[0]) and isinstance(n.ops[0], (ast.In, ast.NotIn)):
            out.add(res(n.left))
    return {k for k in out if k and not k.startswith('Units:')}


def aliases(model):
    """[(package, class, alias key, Name of the parameter it sets)]: the target is found by behaviour - the
    parameter whose stored value changes, or that the error names, when only the alias is supplied."""
    rows = paramtable.rows()
    all_names = {r['name'] for r in rows}
    out = []
    for pkg, c in paramtable.module_classes():
        keys = set()
        for k in c.__mro__:
            if 'read_parameters' in vars(k):
                keys |= _lookup_keys(vars(k)['read_parameters'])
        mine = [r['name'] for r in rows if r['cls'] == c.__name__ and r['kind'] in ('KFloat', 'KInt')]
        for alias in sorted(keys - all_names):
            base = _values_after(pkg, c, model, '<no such key>', '1', mine)
            target = None
            for trial in ('1', '100', '1000', '0.5', '10000', '7'):
                got = _values_after(pkg, c, model, alias, trial, mine)
                target = got if isinstance(got, str) else next((n for n in mine if isinstance(base, dict) and got[n] != base[n]), None)
                if target:
                    break
            out.append((pkg, c, alias, target if target in mine else None))
    return out


def _values_after(pkg, cls, model, key, s, names):
    """{name: repr of .value} after the class's read_parameters with only `key` supplied; the parameter an error names"""
    from geophires_x.Parameter import ParameterEntry
    o = paramtable.instantiate(pkg, cls, model)
    try:
        with contextlib.redirect_stdout(io.StringIO()):
            if pkg == 'hip_ra_x':
                return {n: None for n in names}
            model.InputParameters = {key: ParameterEntry(Name=key, sValue=s, raw_entry=f'{key}, {s}')}
            o.read_parameters(model)
    except Exception as e:  # noqa
        m = RANGE_MSG.search(str(e))
        return m.group(1) if m else {n: None for n in names}
    finally:
        model.InputParameters = {}
    return {n: repr(o.ParameterDict[n].value) for n in names}


# ---------------------------------------------------------------------------------------------------------
# list parameters that go through ReadParameter (C19: published minimum / maximum of array entries)
# ---------------------------------------------------------------------------------------------------------

def list_line(name, elems):
    return f'{name}, ' + ', '.join(fl(x) for x in elems)


def observe_list(p, name, elems, model):
    """The real ReadParameter on a copy of a live listParameter; sValue is the first element, raw_entry the line.
    -> (True: the supplied list is stored | False: the value is untouched | None: raised / anything else, text)"""
    from geophires_x.Parameter import ParameterEntry, ReadParameter
    q = copy.deepcopy(p)
    before = list(q.value)
    out = io.StringIO()
    try:
        with contextlib.redirect_stdout(out):
            ReadParameter(ParameterEntry(Name=name, sValue=fl(elems[0]), raw_entry=list_line(name, elems)), q, model)
    except Exception as e:  # noqa
        return None, f'{type(e).__name__}: {e}'[:160]
    after = list(q.value)
    text = f'value after the read: {after}' + (f'; reader said: {out.getvalue().strip()[:120]!r}' if out.getvalue().strip() else '')
    if after == [float(x) for x in elems]:
        return True, text
    return (False if after == before else None), text


def family_read_list(job):
    """Worker: Model(input) + Model.read_parameters() on a base text without per-segment lines, with / without the list line.
    -> the list held by the active reservoir afterwards (or an error text)"""
    import logging
    import os
    import sys
    import uuid
    from pathlib import Path
    base_text, name, line, drop, scratch = job
    logging.disable(logging.CRITICAL)
    keep = [ln for ln in base_text.splitlines() if not any(ln.strip().startswith(d) for d in drop + (name,))]
    path = Path(scratch, f'faml_{uuid.uuid4().hex[:12]}.txt')
    path.write_text('\n'.join(keep) + '\n' + (line + '\n' if line else ''))
    stash = (os.getcwd(), sys.argv)
    try:
        with contextlib.redirect_stdout(io.StringIO()):
            import geophires_x.Model as M
            sys.argv = ['', str(path), str(path.with_suffix('.out'))]
            os.chdir(os.path.dirname(os.path.abspath(M.__file__)))
            m = M.Model(enable_geophires_logging_config=False)
            m.read_parameters(default_output_path=Path(scratch))
            return [float(x) for x in m.reserv.ParameterDict[name].value]
    except BaseException as e:  # noqa
        return f'{type(e).__name__}: {e}'[:200]
    finally:
        os.chdir(stash[0])
        sys.argv = stash[1]
        with contextlib.suppress(OSError):
            path.unlink()


# ---------------------------------------------------------------------------------------------------------
# the TEXT of a value (Model/TokenReader.v): canonical integers, other number notations, junk, blanks, nan / inf, booleans
# ---------------------------------------------------------------------------------------------------------

def tok_of(s):
    """text -> Coq term of type TokenReader.tok"""
    if ' ' in s:
        return 'TBlank'
    if re.fullmatch(r'-?\d+', s) and str(int(s)) == s:
        return f'(TCanon {qconv.zlit(int(s))})'
    try:
        x = float(s)
    except ValueError:
        return 'TText'
    if math.isnan(x):
        return 'TNaN'
    if math.isinf(x):
        return 'TPInf' if x > 0 else 'TNInf'
    return f'(TNum {qconv.q(Fraction(x))})'


def _tout(exc, name, q, old):
    """-> (kind, payload): A value | U | R name | E text | N"""
    if exc is not None:
        msg = str(exc)
        return ('R', name) if name in msg else ('E', f'{type(exc).__name__}: {msg}'[:140])
    val = q.value
    if isinstance(val, float) and math.isnan(val):
        return ('N',)
    if type(val) is type(old) and val == old and not hasattr(old, 'int_value'):
        return ('U',)
    fin = used_value(val)
    return ('A', fin) if fin is not None else ('E', f'stored {val!r}')


def observe_tok_reader(p, name, s, model):
    from geophires_x.Parameter import ParameterEntry, ReadParameter
    q = copy.deepcopy(p)
    old, exc = q.value, None
    try:
        with contextlib.redirect_stdout(io.StringIO()):
            ReadParameter(ParameterEntry(Name=name, sValue=s, raw_entry=f'{name}, {s}'), q, model)
    except Exception as e:  # noqa
        exc = e
    return _tout(exc, name, q, old)


def observe_tok_module(pkg, cls, model, name, s):
    import inspect
    import os
    import sys
    from pathlib import Path
    from geophires_x.Parameter import ParameterEntry
    o = paramtable.instantiate(pkg, cls, model)
    old, exc = copy.deepcopy(o.ParameterDict[name].value), None
    stash = (os.getcwd(), sys.argv)
    try:
        with contextlib.redirect_stdout(io.StringIO()):
            entry = {name: ParameterEntry(Name=name, sValue=s, raw_entry=f'{name}, {s}')}
            if pkg == 'hip_ra_x':
                sys.argv = ['']
                o.InputParameters = entry
                o.read_parameters()
            else:
                model.InputParameters = entry
                if 'default_output_path' in inspect.signature(o.read_parameters).parameters:
                    o.read_parameters(model, default_output_path=Path(os.environ.get('TMPDIR', '/var/tmp')))
                else:
                    o.read_parameters(model)
    except Exception as e:  # noqa
        exc = e
    finally:
        os.chdir(stash[0])
        sys.argv = stash[1]
        if pkg != 'hip_ra_x':
            model.InputParameters = {}
    return _tout(exc, name, o.ParameterDict[name], old)


def family_read_tok(job):
    """Worker: like family_read, outcome in the token vocabulary -> (holder class, (kind, payload))"""
    cls, obs = family_read(job)
    o = obs['o']
    if o[0] == 'C':
        name = job[2]
        return cls, (('R', name) if name in o[1] else ('E', o[1]))
    if o[0] == 'R':
        return cls, ('R', o[1])
    return cls, ('A', obs['fin']) if obs['fin'] is not None else ('N',) if obs.get('nan') else ('E', 'stored a non-number')


def tout_lit(o):
    return {'A': lambda: f'(TAccept {qconv.q(o[1])})', 'U': lambda: 'TUnchanged', 'R': lambda: f'(TRejectNamed {paramtable.cs(o[1])})',
            'E': lambda: 'TErrAnon', 'N': lambda: 'TAcceptNaN'}[o[0]]()


OUTKIND = {'A': 'accepted', 'U': 'unchanged', 'R': 'named', 'E': 'anon', 'N': 'nan-stored'}


def observe_bool(p, name, s, model):
    """-> stored bool after the real ReadParameter (None: it raised)"""
    from geophires_x.Parameter import ParameterEntry, ReadParameter
    q = copy.deepcopy(p)
    try:
        with contextlib.redirect_stdout(io.StringIO()):
            ReadParameter(ParameterEntry(Name=name, sValue=s, raw_entry=f'{name}, {s}'), q, model)
    except Exception:  # noqa
        return None
    return q.value if isinstance(q.value, bool) else None


# ---------------------------------------------------------------------------------------------------------
# unit-qualified values ("20000 meter"): the range verdict must be that of the converted value
# ---------------------------------------------------------------------------------------------------------
CURRENCY_TYPES = ('CURRENCY', 'CURRENCYFREQUENCY', 'COSTPERMASS', 'ENERGYCOST')


def unit_family(p):
    """other members (texts) of the catalogue enum the parameter's CurrentUnits belongs to; [] when not convertible by pint"""
    import enum
    cur = p.CurrentUnits
    if not isinstance(cur, enum.Enum) or not isinstance(cur.value, str) or getattr(p.UnitType, 'name', '') in CURRENCY_TYPES:
        return []
    return [m.value for m in type(cur) if m is not cur and isinstance(m.value, str) and m.value and ' ' not in m.value]


def convert_as_reader(x, unit, cur_text):
    """float(x) `unit` expressed in the parameter's CurrentUnits, computed with the repository's pint registry by the
    same operations ConvertUnits performs (the conversion is data for the Coq model); None when pint cannot"""
    from geophires_x.Units import get_unit_registry
    ureg = get_unit_registry()
    try:
        old = ureg.Quantity(0.000, cur_text)
        new = ureg.Quantity(float(x), unit)
        if old.units == new.units:
            return float(x)
        new.ito(old)
        c = float(str(new.magnitude))
    except Exception:  # noqa
        return None
    return c if math.isfinite(c) else None


def unit_probes(p, r, max_units, with_current=False):
    """[(tag, sValue, c)]: values written in other units of the family whose converted value c (in CurrentUnits) lies at /
    just inside / just outside the declared bounds; the tag is decided by c itself"""
    from geophires_x.Units import get_unit_registry
    ureg = get_unit_registry()
    cur = p.CurrentUnits.value if hasattr(p.CurrentUnits, 'value') else None
    lo, hi = float(r['min']), float(r['max'])
    out = []
    for unit in ([cur] if with_current else []) + unit_family(p)[:max_units]:
        for target in (lo, hi):
            try:
                x0 = float(ureg.Quantity(target, cur).to(unit).magnitude)
            except Exception:  # noqa
                break
            if not math.isfinite(x0) or abs(x0) > 1e300:
                continue
            seen = set()
            for x in (x0, x0 * (1 - 1e-12) - 1e-300, x0 * (1 + 1e-12) + 1e-300, x0 * 0.5, x0 * 2 + 1, x0 - 1 - abs(x0)):
                c = convert_as_reader(x, unit, cur)
                if c is None or fl(x) in seen or 'e' in fl(x) and abs(x) < 1e-300:
                    continue
                seen.add(fl(x))
                tag = 'unit-in' if lo <= c <= hi else 'unit-below' if c < lo else 'unit-above'
                out.append((tag, f'{fl(x)} {unit}', Fraction(c), unit))
    return out


def hip_calculate(job):
    """Worker: HIP_RA_X on base text + one overriding line: read_parameters, then Calculate.
    -> value the parameter holds afterwards (float) | ('read', text) | ('calc', text)"""
    import logging
    import os
    import sys
    import uuid
    from pathlib import Path
    base_text, name, s, scratch = job
    logging.disable(logging.CRITICAL)
    path = Path(scratch, f'hipc_{uuid.uuid4().hex[:12]}.txt')
    path.write_text(with_line(base_text, name, s))
    stash = (os.getcwd(), sys.argv)
    try:
        with contextlib.redirect_stdout(io.StringIO()), contextlib.redirect_stderr(io.StringIO()):
            from hip_ra_x.hip_ra_x import HIP_RA_X
            sys.argv = ['', str(path)]
            m = HIP_RA_X(enable_hip_ra_logging_config=False)
            try:
                m.read_parameters()
            except BaseException as e:  # noqa
                return ('read', f'{type(e).__name__}: {e}'[:160])
            try:
                m.Calculate()
            except BaseException as e:  # noqa
                return ('calc', f'{type(e).__name__}: {e}'[:160])
            v = m.ParameterDict[name].value
            return float(v) if isinstance(v, (int, float)) and not isinstance(v, bool) else ('calc', f'holds {v!r}')
    finally:
        os.chdir(stash[0])
        sys.argv = stash[1]
        with contextlib.suppress(OSError):
            path.unlink()


# ---------------------------------------------------------------------------------------------------------
# secondary validators (range_check / verify methods called from Calculate) after a module read
# ---------------------------------------------------------------------------------------------------------
VALIDATORS = ('range_check', 'verify')


def observe_validator(pkg, cls, model, name, s, method):
    """read_parameters of a fresh instance with only `name` given, then the class's own secondary validator.
    -> ('read', text) | ('n/a', text: the validator cannot run without a full Calculate) | ('rejected', text) | ('ok', value held)"""
    import inspect
    from geophires_x.Parameter import ParameterEntry
    o = paramtable.instantiate(pkg, cls, model)
    out = io.StringIO()
    try:
        with contextlib.redirect_stdout(out):
            model.InputParameters = {name: ParameterEntry(Name=name, sValue=s, raw_entry=f'{name}, {s}')} if name else {}
            try:
                o.read_parameters(model)
            except Exception as e:  # noqa
                return ('read', f'{type(e).__name__}: {e}'[:160])
            fn = getattr(o, method)
            try:
                res = fn(model) if len(inspect.signature(fn).parameters) else fn()
            except Exception as e:  # noqa
                return ('n/a', f'{type(e).__name__}: {e}'[:160])
    finally:
        model.InputParameters = {}
    flag = res[0] if isinstance(res, tuple) else res
    if flag:
        return ('rejected', (res[1] if isinstance(res, tuple) and len(res) > 1 else out.getvalue().strip())[:200])
    return ('ok', stored_value(name, o.ParameterDict[name], s) if name else None)
