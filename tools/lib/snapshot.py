"""Observer for the GEOPHIRES_X_VERIF hook: serialises the live Model between Calculate() and PrintOutputs().

The snapshot is a plain dict (picklable):
  snap[component][attr] = {'k': 'in'|'out', 'name', 'value', 'cur', 'pref', 'utype', 'provided', 'valid', ...}
  snap[component]['__plain__'][attr] = plain float/int/list attributes
component in reserv, wellbores, surfaceplant, economics, addeconomics, sdacgteconomics, outputs
"""
import enum

import numpy as np

LAST = {'snap': None}

COMPONENTS = ['reserv', 'wellbores', 'surfaceplant', 'economics', 'addeconomics', 'sdacgteconomics', 'outputs']


def _val(v):
    if isinstance(v, enum.Enum):
        return {'__enum__': type(v).__name__, 'name': v.name, 'value': _val(v.value) if not isinstance(v.value, enum.Enum) else str(v.value),
                'int': getattr(v, 'int_value', None)}
    if isinstance(v, np.ndarray):
        return [_val(x) for x in v.tolist()]
    if isinstance(v, (list, tuple)):
        return [_val(x) for x in v]
    if isinstance(v, (np.floating,)):
        return float(v)
    if isinstance(v, (np.integer,)):
        return int(v)
    if isinstance(v, (np.bool_,)):
        return bool(v)
    if isinstance(v, (bool, int, float, str)) or v is None:
        return v
    if isinstance(v, dict):
        return {str(k): _val(x) for k, x in v.items()}
    return repr(v)


def _unit(u):
    if u is None:
        return None
    if isinstance(u, enum.Enum):
        return u.value if isinstance(u.value, str) else str(u.value)
    return str(u)


def snapshot_component(obj):
    from geophires_x.Parameter import Parameter, OutputParameter
    out = {}
    plain = {}
    for attr, v in vars(obj).items():
        if isinstance(v, Parameter):
            d = {'k': 'in', 'name': v.Name, 'value': _val(v.value), 'cur': _unit(v.CurrentUnits), 'pref': _unit(v.PreferredUnits),
                 'utype': _unit(v.UnitType), 'provided': bool(v.Provided), 'valid': bool(v.Valid), 'cls': type(v).__name__}
            for extra in ('Min', 'Max', 'DefaultValue', 'AllowableRange'):
                if hasattr(v, extra):
                    d[extra] = _val(getattr(v, extra))
            out[attr] = d
        elif isinstance(v, OutputParameter):
            out[attr] = {'k': 'out', 'name': v.Name, 'display_name': v.display_name, 'value': _val(v.value), 'cur': _unit(v.CurrentUnits),
                         'pref': _unit(v.PreferredUnits), 'utype': _unit(v.UnitType)}
        elif isinstance(v, (bool, int, float, np.floating, np.integer, str)) or \
                (isinstance(v, (list, np.ndarray)) and len(v) < 20000 and (len(v) == 0 or isinstance(v[0], (int, float, np.floating, np.integer)))):
            plain[attr] = _val(v)
    out['__plain__'] = plain
    out['__class__'] = type(obj).__name__
    return out


def take(model):
    snap = {}
    for c in COMPONENTS:
        obj = getattr(model, c, None)
        if obj is not None:
            snap[c] = snapshot_component(obj)
    snap['input_parameters'] = {k: (e.sValue, e.Comment) for k, e in getattr(model, 'InputParameters', {}).items()}
    return snap


def observe(model):
    LAST['snap'] = take(model)
    LAST['model'] = None


class S:
    """Convenience accessor: S(snap).economics.CCap -> value; .p('economics','CCap') -> full record."""

    def __init__(self, snap):
        self._s = snap

    def has(self, comp, attr=None):
        if comp not in self._s:
            return False
        return attr is None or attr in self._s[comp] or attr in self._s[comp]['__plain__']

    def p(self, comp, attr):
        return self._s[comp][attr]

    def v(self, comp, attr, default=KeyError):
        c = self._s.get(comp)
        if c is not None:
            if attr in c:
                return c[attr]['value']
            if attr in c['__plain__']:
                return c['__plain__'][attr]
        if default is KeyError:
            raise KeyError(f'{comp}.{attr}')
        return default

    def enum_name(self, comp, attr):
        v = self.v(comp, attr)
        return v['name'] if isinstance(v, dict) and '__enum__' in v else v
